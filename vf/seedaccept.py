"""Confirm an independently written breaking change and file it under /verif/seeded/.

    python -m vf.seedaccept <dir with patch.diff demo.py meta.json> <name> [--no-suite]

Steps, all in a scratch git worktree of /repo outside /repo and /verif, removed at the end:
  1. demo.py exits 0 on the clean tree;
  2. patch.diff applies; demo.py exits 1 with it;
  3. the repository's full test-suite with the patch has exactly the baseline failing set;
  4. the property's registered quick check is run against the patched tree (VF_REPO):
     CAUGHT (exit 1) / MISSED (exit 0) / INCONCLUSIVE (exit 2).
Only when 1-3 hold is the change copied to /verif/seeded/<name>/ (patch.diff, demo.py,
meta.json + a "confirmed" block with what was run).  Step 4's outcome is recorded in
meta.json["check"] and can be refreshed later with ``python -m vf.selftest --seeded``.
"""
import json
import os
import shutil
import subprocess
import sys
import tempfile
import time

from vf import core

PY = core.PY
SUITE = os.path.join(core.VERIF, "seeding", "run_suite.sh")


def sh(cmd, **kw):
    return subprocess.run(cmd, capture_output=True, text=True, **kw)


def main(argv):
    src, name = argv[0], argv[1]
    nosuite = "--no-suite" in argv
    meta = json.load(open(os.path.join(src, "meta.json")))
    prop = meta["property"].upper()
    tmp = tempfile.mkdtemp(prefix="vf_accept_", dir="/tmp")
    wt = os.path.join(tmp, "wt")
    log = {}
    try:
        p = sh(["git", "-C", "/repo", "worktree", "add", "--detach", "-f", wt])
        if p.returncode:
            print(p.stderr)
            return 2
        env = {**os.environ, "PYTHONPATH": wt, "PYTHONHASHSEED": "0"}
        demo = os.path.join(src, "demo.py")
        # the C extension is untracked: build it for demos that import it via pyyeti
        subprocess.run(["bash", "-c",
                        "gcc -O2 -shared -fPIC -I/root/.pyenv/versions/3.12.1/include/"
                        "python3.12 -I/venv/lib/python3.12/site-packages/numpy/_core/"
                        "include pyyeti/rainflow/c_rain.c -o pyyeti/rainflow/"
                        "c_rain.cpython-312-x86_64-linux-gnu.so"], cwd=wt,
                       capture_output=True)
        r0 = sh([PY, demo], env=env, cwd=tmp, timeout=1800)
        log["demo_clean_rc"] = r0.returncode
        p = sh(["git", "-C", wt, "apply", "--3way",
                os.path.join(os.path.abspath(src), "patch.diff")])
        if p.returncode:
            print("patch does not apply:", p.stderr)
            return 2
        if sh(["git", "-C", wt, "diff", "HEAD", "--stat", "--", "pyyeti/rainflow/c_rain.c"]
              ).stdout.strip():
            for f in os.listdir(os.path.join(wt, "pyyeti", "rainflow")):
                if f.endswith(".so"):
                    os.remove(os.path.join(wt, "pyyeti", "rainflow", f))
            subprocess.run(["bash", "-c",
                            "gcc -O2 -shared -fPIC -I/root/.pyenv/versions/3.12.1/"
                            "include/python3.12 -I/venv/lib/python3.12/site-packages/"
                            "numpy/_core/include pyyeti/rainflow/c_rain.c -o pyyeti/"
                            "rainflow/c_rain.cpython-312-x86_64-linux-gnu.so"], cwd=wt,
                           capture_output=True)
        r1 = sh([PY, demo], env=env, cwd=tmp, timeout=1800)
        log["demo_patched_rc"] = r1.returncode
        log["demo_patched_out"] = (r1.stdout + r1.stderr)[-600:]
        touches_tests = "pyyeti/tests/" in open(os.path.join(src, "patch.diff")).read()
        log["patch_touches_tests"] = touches_tests
        if nosuite:
            log["suite"] = "skipped"
            suite_ok = True
        else:
            t0 = time.time()
            ps = sh(["bash", SUITE, wt], timeout=3600)
            suite_ok = ps.returncode == 0 and "same failing set" in ps.stdout
            log["suite"] = ps.stdout.strip().splitlines()[-1][:300] if ps.stdout else ""
            if not suite_ok and "failing set differs" in ps.stdout:
                # load-dependent flakes (the multiprocessing tests time out on a busy
                # machine): tests that failed beyond the baseline are re-run alone; a
                # baseline failure that now passes is a real difference
                extra = [l[len("> FAILED "):].strip() for l in ps.stdout.splitlines()
                         if l.startswith("> FAILED ")]
                gone = [l for l in ps.stdout.splitlines() if l.startswith("< FAILED ")]
                if extra and not gone:
                    for attempt in range(3):      # flaky under load: up to three tries
                        pr = sh([PY, "-m", "pytest", "-q", "-p", "no:cacheprovider",
                                 "--timeout=900"] + extra, cwd=wt,
                                env={**os.environ, "PYTHONPATH": wt,
                                     "OPENBLAS_NUM_THREADS": "1", "OMP_NUM_THREADS": "1"},
                                timeout=3600)
                        if pr.returncode == 0:
                            break
                    log["suite_rerun_of_extra_failures"] = {
                        "tests": extra, "rc": pr.returncode,
                        "tail": pr.stdout.strip().splitlines()[-1][:200] if pr.stdout else ""}
                    suite_ok = pr.returncode == 0
            log["suite_wall_s"] = round(time.time() - t0)
        ok = (log["demo_clean_rc"] == 0 and log["demo_patched_rc"] == 1 and suite_ok
              and not touches_tests)
        # 4. our check against the patched tree
        chk = {}
        if os.path.exists(os.path.join(core.VERIF, "vf", "props", prop.lower() + ".py")):
            for f in os.listdir(os.path.join(wt, "pyyeti", "rainflow")):
                if f.endswith(".so"):   # never let a scratch build leak into the check
                    os.remove(os.path.join(wt, "pyyeti", "rainflow", f))
            t0 = time.time()
            pc = sh([PY, "-m", "vf.cli", prop, "--tier", "quick", "--no-evidence"],
                    cwd=core.VERIF, env={**os.environ, "VF_REPO": wt,
                                         "PYTHONPATH": core.VERIF})
            kinds = [l.strip() for l in pc.stdout.splitlines()
                     if "new violation kind" in l]
            chk = {"quick_rc": pc.returncode,
                   "verdict": {0: "MISSED", 1: "CAUGHT"}.get(pc.returncode,
                                                              "INCONCLUSIVE"),
                   "kinds": kinds[:8], "wall_s": round(time.time() - t0)}
        log["check"] = chk
    finally:
        sh(["git", "-C", "/repo", "worktree", "remove", "--force", wt])
        shutil.rmtree(tmp, ignore_errors=True)
        sh(["git", "-C", "/repo", "worktree", "prune"])
    print(json.dumps(log, indent=1))
    if not ok:
        print("REJECTED: not confirmed (demo clean/patched rc, suite, or touches tests)")
        return 1
    dst = os.path.join(core.VERIF, "seeded", name)
    os.makedirs(dst, exist_ok=True)
    for f in ("patch.diff", "demo.py"):
        shutil.copy(os.path.join(src, f), os.path.join(dst, f))
    meta["property"] = prop
    meta["confirmed"] = {k: v for k, v in log.items() if k != "check"}
    meta["check"] = chk
    json.dump(meta, open(os.path.join(dst, "meta.json"), "w"), indent=1)
    print("ACCEPTED ->", dst, chk.get("verdict"))
    return 0


if __name__ == "__main__":
    sys.exit(main(sys.argv[1:]))
