"""Self-validation of the monitors (DESIGN 2.5).

``python -m vf.selftest C05 [name ...]``   catalogue mutants (vf/mutants/<id>.py)
``python -m vf.selftest --seeded [dir ...]`` independently written breaking changes
                                             kept under /verif/seeded/<id>/

Each mutant is applied to a scratch copy of /repo/pyyeti OUTSIDE /repo and /verif, the
registered quick check is run against the copy (VF_REPO), exit 1 is expected, the copy is
removed.  Nothing here ever touches /repo.
"""
import importlib
import json
import os
import shutil
import subprocess
import sys
import tempfile
import time

from vf import core


def scratch_copy():
    d = tempfile.mkdtemp(prefix="vf_mut_", dir="/tmp")
    shutil.copytree(os.path.join("/repo", "pyyeti"), os.path.join(d, "pyyeti"),
                    ignore=shutil.ignore_patterns("__pycache__", "tests", "*.pyc"))
    return d


def run_check(prop, repo, tier="quick", seed=0, extra_env=None):
    env = {**os.environ, "VF_REPO": repo, "VERIF_SEED": str(seed),
           "PYTHONPATH": core.VERIF}
    env.update(extra_env or {})
    t0 = time.time()
    p = subprocess.run([core.PY, "-m", "vf.cli", prop, "--tier", tier, "--no-evidence"],
                       cwd=core.VERIF, env=env, capture_output=True, text=True)
    return p.returncode, p.stdout, time.time() - t0


def apply_mutant(root, m):
    if "revert" in m:
        # undo one `fix:` commit of the repository in the scratch copy
        d = subprocess.run(["git", "-C", "/repo", "diff", m["revert"] + "^", m["revert"],
                            "--", "pyyeti"], capture_output=True, text=True, check=True)
        p = subprocess.run(["patch", "-R", "-p1", "-s", "-d", root], input=d.stdout,
                           capture_output=True, text=True)
        if p.returncode:
            raise RuntimeError(f"mutant {m['name']}: cannot revert {m['revert']}: "
                               + p.stdout[-300:] + p.stderr[-300:])
        return
    path = os.path.join(root, m["file"])
    s = open(path).read()
    n = s.count(m["old"])
    if n < 1 or ("count" in m and n != m["count"]):
        raise RuntimeError(f"mutant {m['name']}: pattern occurs {n} times in {m['file']}")
    open(path, "w").write(s.replace(m["old"], m["new"]))


def catalogue(prop, names):
    mod = importlib.import_module("vf.mutants." + prop.lower())
    ok = True
    rows = []
    for m in mod.MUTANTS:
        if names and m["name"] not in names:
            continue
        d = scratch_copy()
        try:
            try:
                apply_mutant(d, m)
            except RuntimeError as e:
                # the repository moved on under a string-replacement mutant
                print(m["name"], "STALE", str(e)[:160], flush=True)
                ok = False
                continue
            rc, out, wall = run_check(prop, d)
        finally:
            shutil.rmtree(d, ignore_errors=True)
        kinds = [l.strip() for l in out.splitlines() if "new violation kind" in l]
        caught = rc == 1
        ok &= caught
        rows.append((m["name"], "CAUGHT" if caught else f"MISSED(rc={rc})",
                     f"{wall:.0f}s", "; ".join(kinds)[:200]))
        print(*rows[-1], flush=True)
        if not caught:
            print(out[-1500:])
    return ok


def seeded(dirs):
    base = os.path.join(core.VERIF, "seeded")
    dirs = dirs or sorted(os.listdir(base))
    ok = True
    for name in dirs:
        sd = os.path.join(base, name)
        meta = json.load(open(os.path.join(sd, "meta.json")))
        d = tempfile.mkdtemp(prefix="vf_seed_", dir="/tmp")
        try:
            subprocess.run(["git", "-C", "/repo", "worktree", "add", "--detach", "-f",
                            os.path.join(d, "wt")], check=True, capture_output=True)
            wt = os.path.join(d, "wt")
            subprocess.run(["git", "-C", wt, "apply", "--3way",
                            os.path.join(sd, "patch.diff")], check=True,
                           capture_output=True)
            rc, out, wall = run_check(meta["property"], wt)
        finally:
            subprocess.run(["git", "-C", "/repo", "worktree", "remove", "--force",
                            os.path.join(d, "wt")], capture_output=True)
            shutil.rmtree(d, ignore_errors=True)
        caught = rc == 1
        ok &= caught
        kinds = [l.strip() for l in out.splitlines() if "new violation kind" in l]
        print(name, meta["property"], "CAUGHT" if caught else f"MISSED(rc={rc})",
              f"{wall:.0f}s", "; ".join(kinds)[:200], flush=True)
        if os.environ.get("VF_UPDATE_META") == "1":
            first = meta.get("check") or {}
            if first.get("verdict") and "first_verdict" not in meta:
                meta["first_verdict"] = first["verdict"]     # before any strengthening
            head = subprocess.run(["git", "-C", core.VERIF, "rev-parse", "--short", "HEAD"],
                                  capture_output=True, text=True).stdout.strip()
            meta["check"] = {"quick_rc": rc,
                             "verdict": {0: "MISSED", 1: "CAUGHT"}.get(rc, "INCONCLUSIVE"),
                             "kinds": kinds[:8], "wall_s": round(wall),
                             "verif_commit": head}
            json.dump(meta, open(os.path.join(sd, "meta.json"), "w"), indent=1)
    return ok


def try_patch(patch, prop, tier="quick", seed=0):
    """Apply an arbitrary patch to a scratch worktree and run one check against it."""
    d = tempfile.mkdtemp(prefix="vf_try_", dir="/tmp")
    wt = os.path.join(d, "wt")
    try:
        subprocess.run(["git", "-C", "/repo", "worktree", "add", "--detach", "-f", wt],
                       check=True, capture_output=True)
        subprocess.run(["git", "-C", wt, "apply", "--3way", os.path.abspath(patch)],
                       check=True, capture_output=True)
        rc, out, wall = run_check(prop, wt, tier=tier, seed=seed)
    finally:
        subprocess.run(["git", "-C", "/repo", "worktree", "remove", "--force", wt],
                       capture_output=True)
        shutil.rmtree(d, ignore_errors=True)
    kinds = [l.strip() for l in out.splitlines() if "new violation kind" in l]
    print(prop, {0: "MISSED", 1: "CAUGHT"}.get(rc, f"INCONCLUSIVE(rc={rc})"),
          f"{wall:.0f}s", "; ".join(kinds)[:300], flush=True)
    if rc not in (0, 1):
        print(out[-1500:])
    return rc == 1


if __name__ == "__main__":
    args = sys.argv[1:]
    if args and args[0] == "--patch":
        sys.exit(0 if try_patch(args[1], args[2].upper(), *args[3:4]) else 1)
    if args and args[0] == "--seeded":
        sys.exit(0 if seeded(args[1:]) else 1)
    sys.exit(0 if catalogue(args[0].upper(), args[1:]) else 1)
