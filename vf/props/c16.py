"""C16 -- loads-analysis bookkeeping in pyyeti.cla.

Case-order histories through cla.extrema and through a real DR_Def -> DR_Event ->
DR_Results pipeline (time, frf, psd), event trees through merge/form_extreme, and
uncertainty factors through apply_uf with shared / fresh caches, each compared with the
reference model in vf/oracles/cla_ref.py (keeps all raw responses; no running update).
"""
import itertools

from vf import core

ID = "C16"
LEVEL = "exploration"
RULE = ("histories = (set of 2..12 load cases) x (presentation orders: all orders for <= 4 "
        "cases, 2-3 random orders otherwise) x (slot order sequential or permuted); "
        "responses on a coarse grid (exact ties inside a row and between cases) or "
        "continuous with planted ties, NaN entries, partially-NaN rows, all-negative rows, "
        "all-NaN rows only for direct cla.extrema; one- and two-column mm.ext; time / frf / "
        "psd recovery through DR_Def(string drfunc) -> DR_Event -> DR_Results with "
        "histpv/srspv subsets, several Qs, several uf_reds keys; event trees of depth 1-3 "
        "built by assignment or merge(), form_extreme with every doappend, case_order, "
        "re-forming histories, children in several orders; apply_uf on random modal "
        "systems (m None/1-D/2-D, b,k 1-D/2-D, nrb 0..n, rf None/index/bool, real/complex) "
        "with 3-7 uf tuples applied in random order through one shared save dict, fresh "
        "dicts and save=None.  distinct = distinct generated descriptors; non-trivial = "
        ">= 2 cases (or >= 2 uf tuples) and at least one row whose extreme is not attained "
        "by the first presented case")
ASSUMPTIONS = [
    "pyyeti.srs.srs / srs_frf / vrs are trusted as primitives (they are C03's subject): "
    "the per-case spectra are recomputed by calling them on the reference response rows; "
    "C16 judges which case/rows/Q/factor/slot they are stored under and the envelope",
    "frequency-response recovery is modelled as the code documents itself: max = largest "
    "magnitude, min = -max, both abscissae = frequency of the largest magnitude",
    "PSD recovery: 'area under the PSD curve' is taken as the trapezoidal rule on the given "
    "frequency grid; flat PSDs (rule-independent area) are generated as well",
    "apply_uf: generated m, b, k are block diagonal over the rb / elastic / rf partitions "
    "(full inside a block), so that F_el of the docstring is unambiguous",
    "calc_stat_ext: the docstring does not say which ddof std uses; either is accepted",
]
MIN_NONTRIVIAL = {"quick": 1500, "thorough": 30000}

# extra workload of the thorough tier: the repository's own tests with the cheap monitors
# of vf/ambient.py attached (never the deciding one; DESIGN 2.8)
AMBIENT = {"tests": ['test_cla.py'], "monitors": ['extrema'], "quick": False}
TIMEOUT = {"quick": 1200, "thorough": 7200}

# total number of generated histories per family (split over the shards)
BUDGET = {
    "quick": {"ext": 2400, "time": 480, "frf": 320, "psd": 240, "psdauf": 160, "psdpg": 160, "tree": 480,
              "uf": 960},
    "thorough": {"ext": 48000, "time": 8000, "frf": 5000, "psd": 4000, "tree": 7000,
                 "uf": 20000, "psdauf": 3200, "psdpg": 3200},
}
NSLICE = {"quick": 16, "thorough": 16}


def shards(tier, seed):
    ns = NSLICE[tier]
    return [{"slice": s, "nslice": ns} for s in range(ns)]


# ------------------------------------------------------------------------------------
# small helpers
# ------------------------------------------------------------------------------------

def _same(sh, kind, got, want, case, tags=None):
    """NaN-aware exact equality of float arrays (+0 == -0)."""
    import numpy as np
    sh.count("mon:" + kind)
    try:
        g = np.asarray(got)
        w = np.asarray(want)
        ok = g.shape == w.shape
        if ok and g.size:
            if np.iscomplexobj(g) or np.iscomplexobj(w):
                eq = (g == w) | (np.isnan(g) & np.isnan(w))
            else:
                g = g.astype(float)
                w = w.astype(float)
                eq = (g == w) | (np.isnan(g) & np.isnan(w))
            ok = bool(eq.all())
    except Exception as e:
        ok, g, w = False, repr(got)[:200] + f" ({e})", repr(want)[:200]
    if not ok:
        detail = {"got": g, "want": w}
        try:
            bad = np.argwhere(~eq)
            detail["first_bad_index"] = bad[0].tolist()
            detail["nbad"] = int(len(bad))
        except Exception:
            pass
        sh.violation(kind, case, detail, tags)
    return ok


def _absc(got, want):
    """An abscissa table that was never started (None) says the same as an all-NaN one:
    no stored extreme has an abscissa."""
    import numpy as np
    if got is None and np.all(np.isnan(np.asarray(want, float))):
        return np.full(np.shape(want), np.nan)
    return got


def _eq(sh, kind, got, want, case, tags=None):
    sh.count("mon:" + kind)
    if got != want:
        sh.violation(kind, case, {"got": got, "want": want}, tags)
        return False
    return True


def _labels_where(sh, kind, got, want, judge, case, tags=None):
    """Compare label lists on the rows where `judge` is True."""
    sh.count("mon:" + kind)
    if got is None or len(got) != len(want):
        sh.violation(kind, case, {"got": got, "want": want}, tags)
        return False
    bad = [i for i, (g, w, j) in enumerate(zip(got, want, judge)) if j and g != w]
    if bad:
        sh.violation(kind, case, {"rows": bad, "got": [got[i] for i in bad],
                                  "want": [want[i] for i in bad]}, tags)
        return False
    return True


def _orders(r, n, nrand):
    """Presentation orders: all permutations for n <= 4, else identity-free random ones."""
    if n <= 4:
        return [list(p) for p in itertools.permutations(range(n))]
    out = []
    for _ in range(nrand):
        out.append([int(i) for i in r.permutation(n)])
    return out


def _values(r, shape, style):
    """Response values: 'grid' = multiples of 0.5 in [-3, 3] (many exact ties);
    'cont' = normal; 'neg' = all negative; 'pos' = all positive."""
    import numpy as np
    if style == "grid":
        return r.integers(-6, 7, shape) * 0.5
    x = r.standard_normal(shape)
    if style == "neg":
        return -np.abs(x) - 0.25
    if style == "pos":
        return np.abs(x) + 0.25
    return x


# ------------------------------------------------------------------------------------
# family "ext": cla.extrema fed directly
# ------------------------------------------------------------------------------------

def fam_ext(sh, r, cla, ref, desc):
    import numpy as np
    from types import SimpleNamespace
    ncol = 1 if r.random() < 0.5 else 2
    n = int(r.integers(2, 5)) if r.random() < 0.6 else int(r.integers(5, 13))
    if ncol == 1 and n == 2:
        n = 3
    nrow = int(r.integers(3, 8))
    # the first few histories of every shard mix cases with and without abscissae (a small,
    # tier-independent number: they meet a known finding and must not fill the shard's
    # violation list)
    xmode = "mixed" if desc["i"] < 8 else ["none", "all", "all"][int(r.integers(0, 3))]
    with_x = xmode != "none"
    with_num = bool(r.random() < 0.6)
    style = ["grid", "grid", "cont", "neg", "pos"][int(r.integers(0, 5))]
    listlab = bool(r.random() < 0.3)
    pnan = [0.0, 0.15, 0.4][int(r.integers(0, 3))]
    cases = []
    allnan_row = int(r.integers(0, nrow)) if r.random() < 0.3 else -1
    for c in range(n):
        if ncol == 2:
            v = np.sort(_values(r, (nrow, 2), style), axis=1)[:, ::-1].copy()
        else:
            v = _values(r, (nrow, 1), style)
        if style == "cont" and c > 0 and r.random() < 0.6:   # planted exact ties
            rows = r.random(nrow) < 0.4
            v[rows] = cases[int(r.integers(0, c))]["ext"][rows]
            if ncol == 1 and r.random() < 0.5:
                v[rows] = -v[rows]         # same magnitude, other sign
        v[r.random(v.shape) < pnan] = np.nan
        if allnan_row >= 0:
            v[allnan_row] = np.nan
        x = r.integers(0, 50, (nrow, ncol)) * 0.25 if with_x else None
        lab = f"c{c}"
        if listlab:
            mxl = [f"c{c}r{i}x" for i in range(nrow)]
            mnl = [f"c{c}r{i}n" for i in range(nrow)] if r.random() < 0.5 else None
        else:
            mxl, mnl = lab, (f"c{c}m" if r.random() < 0.3 else None)
        cases.append({"ext": v, "ext_x": x, "maxlab": mxl, "minlab": mnl})
    if xmode == "mixed":      # some cases come without abscissae (ext_x=None)
        drop = r.random(n) < 0.5
        drop[int(r.integers(0, n))] = True
        keepone = int(r.integers(0, n))
        drop[keepone] = False
        if drop.all() or not drop.any():
            drop[:] = False
            drop[(keepone + 1) % n] = True
        for c in range(n):
            if drop[c]:
                cases[c]["ext_x"] = None
        sh.count("cell:ext-mixed-abscissa")
    tags = {"family": "ext", "ncol": ncol, "ncases": n, "with_x": with_x, "xmode": xmode,
            "casenum": with_num, "style": style, "pnan": pnan}
    orders = _orders(r, n, 3)
    if xmode == "mixed" and len(orders) > 4:
        orders = [orders[int(i)] for i in sorted(r.permutation(len(orders))[:4])]
    slotperm = [int(i) for i in r.permutation(n)] if r.random() < 0.5 else list(range(n))
    first_results = None
    nontriv = False
    for order in orders:
        parts = []
        for pos, c in enumerate(order):
            p = dict(cases[c])
            p["slot"] = slotperm[c] if with_num else None
            parts.append(p)
        want = ref.envelope(parts, nslots=n if with_num else None)
        if any(w > 0 for w in want["imax"] + want["imin"]):
            nontriv = True
        # mechanism facts for the known finding: the first presented case has no
        # abscissae while a later one has
        tags = dict(tags, mixed_x=(xmode == "mixed"),
                    first_without_x=(xmode == "mixed" and parts[0]["ext_x"] is None))
        case = dict(desc, order=order, slots=slotperm, **tags)
        cur = SimpleNamespace(ext=None, ext_x=None, maxcase=None, mincase=None)
        if with_num:
            cur.mx, cur.mn = np.zeros((nrow, n)), np.zeros((nrow, n))
            cur.mx_x, cur.mn_x = np.zeros((nrow, n)), np.zeros((nrow, n))
        snaps = []
        try:
            for p in parts:
                mm = SimpleNamespace(ext=p["ext"].copy(),
                                     ext_x=None if p["ext_x"] is None else p["ext_x"].copy())
                mxl = p["maxlab"] if isinstance(p["maxlab"], str) else list(p["maxlab"])
                mnl = p["minlab"] if (p["minlab"] is None or isinstance(p["minlab"], str)) \
                    else list(p["minlab"])
                snaps.append((mm, mxl, mnl, p))
                cla.extrema(cur, mm, mxl, mnl, p["slot"])
        except Exception as e:
            sh.violation("exception:extrema", case, {"exc": repr(e)}, tags)
            continue
        sh.count(f"cell:ext-{ncol}col")
        k = f"ext{ncol}"
        _same(sh, k + "-values", cur.ext, want["ext"], case, tags)
        if with_x:
            _same(sh, k + "-abscissa", _absc(cur.ext_x, want["ext_x"]), want["ext_x"], case, tags)
        else:
            _eq(sh, k + "-abscissa-none", cur.ext_x is None, True, case, tags)
        _eq(sh, k + "-maxcase", cur.maxcase, want["maxcase"], case, tags)
        _eq(sh, k + "-mincase", cur.mincase, want["mincase"], case, tags)
        if with_num:
            for nm in ("mx", "mn", "mx_x", "mn_x"):
                _same(sh, k + "-percase", getattr(cur, nm), want[nm], case, tags)
        # the caller's arrays / label lists must not have been touched
        sh.count("mon:ext-inputs-unmutated")
        for mm, mxl, mnl, p in snaps:
            ok = _nan_eq(mm.ext, p["ext"]) and (p["ext_x"] is None
                                               or _nan_eq(mm.ext_x, p["ext_x"]))
            ok = ok and (isinstance(mxl, str) or mxl == list(p["maxlab"]))
            ok = ok and (mnl is None or isinstance(mnl, str) or mnl == list(p["minlab"]))
            if not ok:
                sh.violation("ext-inputs-unmutated", case, {"label": repr(mxl)[:80]}, tags)
                break
        # order invariance across presentations of the same case set
        res = (np.abs(cur.ext) if ncol == 1 else cur.ext.copy(), list(cur.maxcase),
               list(cur.mincase), want["umax"], want["umin"])
        if first_results is None:
            first_results = res
        else:
            _same(sh, k + "-order-invariance", res[0], first_results[0], case, tags)
            _labels_where(sh, k + "-order-invariance-labels", res[1], first_results[1],
                          res[3], case, tags)
            _labels_where(sh, k + "-order-invariance-labels", res[2], first_results[2],
                          res[4], case, tags)
    if n <= 4 and xmode != "mixed":
        sh.count("cell:ext-all-orders")
    if pnan > 0:
        sh.count("cell:ext-nan")
    if allnan_row >= 0:
        sh.count("cell:ext-allnan-row")
    sh.case(dict(desc, **tags), nontriv)


def _nan_eq(a, b):
    import numpy as np
    a, b = np.asarray(a), np.asarray(b)
    return a.shape == b.shape and bool(((a == b) | (np.isnan(a) & np.isnan(b))).all())


# ------------------------------------------------------------------------------------
# families "time" / "frf" / "psd": the real DR_Def -> DR_Event -> DR_Results pipeline
# ------------------------------------------------------------------------------------

UF_PALETTE = [(1, 1, 1, 1), (1, 1, 1.25, 1), (0, 1, 1.25, 1), (1, 1, 0, 1), (1, 1, 1, 0),
              (1.1, 1.2, 1.3, 1.4), (2, 0.5, 1, 1), (1, 1, 1.5, 0.5)]


def _pvspec(r, nrow, allow_none=True):
    """(value handed to DR_Def.add, the row indices it stands for | None)."""
    import numpy as np
    t = int(r.integers(0 if allow_none else 1, 6))
    if t == 0:
        return None, None
    if t == 1:
        return "all", list(range(nrow))
    if t == 2:
        a = int(r.integers(0, nrow))
        b = int(r.integers(a + 1, nrow + 1))
        return slice(a, b), list(range(a, b))
    k = int(r.integers(1, nrow + 1))
    idx = [int(i) for i in r.permutation(nrow)[:k]]
    if t == 3:
        if r.random() < 0.5:
            idx.sort()
        return (idx if r.random() < 0.5 else np.array(idx)), idx
    if t == 4:
        m = np.zeros(nrow, bool)
        m[idx] = True
        return m, [int(i) for i in np.flatnonzero(m)]
    return idx[0], [idx[0]]


def _make_defs(r, cla, domain):
    """Random DR_Def/DR_Event; returns DR and a plain description of every category."""
    import numpy as np
    ncat = int(r.integers(1, 4))
    nuf = int(r.integers(1, 3))
    ufs = [UF_PALETTE[int(i)] for i in r.permutation(len(UF_PALETTE))[:nuf]]
    if domain == "psd":
        fields = ["a", "d", "v"]
        nmodes = int(r.integers(2, 6))
    else:
        fields = ["a", "d", "v", "pg", "w", "z"]
    order = [int(i) for i in r.permutation(len(fields))]
    defaults = {"se": 0}
    if r.random() < 0.5:
        defaults["uf_reds"] = ufs[0]
    frq = np.sort(r.choice(np.arange(1.0, 12.0, 0.5), int(r.integers(2, 5)), replace=False))
    if r.random() < 0.5:
        defaults["srsfrq"] = frq
    if r.random() < 0.3:
        defaults["srsQs"] = (10, 33)
    drdefs = cla.DR_Def(defaults)
    cats = []
    fieldrows = {}
    for c in range(ncat):
        name = f"cat{c}"
        f1 = fields[order[c]]
        nfr = nmodes if domain == "psd" else int(r.integers(2, 7))
        fieldrows[f1] = nfr
        kinds = ["plain", "plain", "neg", "pick"]
        if domain != "psd" and 2 * ncat <= len(fields):
            kinds.append("stack")
        kind = kinds[int(r.integers(0, len(kinds)))]
        nondrms = None
        pick = None
        f2 = None
        if kind == "plain":
            drfunc, nrow = f"sol.{f1}", nfr
        elif kind == "neg":
            drfunc, nrow = f"-sol.{f1}", nfr
        elif kind == "pick":
            k = int(r.integers(1, nfr + 1))
            pick = [int(i) for i in r.permutation(nfr)[:k]]
            nondrms = {f"pv_{name}": np.array(pick)}
            drfunc, nrow = f"sol.{f1}[Vars[se]['pv_{name}']]", k
        else:
            f2 = fields[order[ncat + c]]
            fieldrows[f2] = int(r.integers(1, 4))
            drfunc, nrow = f"np.vstack((sol.{f1}, sol.{f2}))", nfr + fieldrows[f2]
        uf = ufs[int(r.integers(0, nuf))]
        kw = dict(name=name, labels=[f"{name} row {i}" for i in range(nrow)]
                  if r.random() < 0.7 else nrow, drfunc=drfunc)
        if nondrms:
            kw["nondrms"] = nondrms
        if not ("uf_reds" in defaults and uf == defaults["uf_reds"] and r.random() < 0.7):
            kw["uf_reds"] = uf
        elif "uf_reds" not in defaults:
            kw["uf_reds"] = uf
        hspec, hrows = _pvspec(r, nrow)
        if hspec is not None:
            kw["histpv"] = hspec
        srows, qs, opts, conv = None, None, {}, 1.0
        if r.random() < 0.55:
            sspec, srows = _pvspec(r, nrow, allow_none="srsQs" in defaults)
            if sspec is not None:
                kw["srspv"] = sspec
            else:
                srows = list(range(nrow))
            if "srsQs" in defaults and r.random() < 0.6:
                qs = list(defaults["srsQs"])
                if sspec is None:
                    kw["srsunits"] = "G"      # any srs* option switches the SRS on
            else:
                qs = [[20], [10, 25], [5, 15, 50]][int(r.integers(0, 3))]
                kw["srsQs"] = qs[0] if len(qs) == 1 and r.random() < 0.5 else tuple(qs)
            if "srsfrq" not in defaults or r.random() < 0.4:
                kw["srsfrq"] = frq
            o = int(r.integers(0, 4))
            if o == 1:
                opts = {"eqsine": True}
            elif o == 2:
                opts = {"ic": "steady"}
            elif o == 3:
                opts = {"eqsine": 1, "ic": "steady", "scale_by_Q_only": False}
            if opts:
                kw["srsopts"] = opts
            if r.random() < 0.4:
                conv = [2.0, 0.5, 1.0 / 386.0][int(r.integers(0, 3))]
                kw["srsconv"] = conv
        drdefs.add(**kw)
        cats.append(dict(name=name, kind=kind, f1=f1, f2=f2, pick=pick, nrow=nrow, uf=uf,
                         hrows=hrows, srows=srows, qs=qs, opts=opts, conv=conv, frq=frq))
    DR = cla.DR_Event()
    newuf = None
    if r.random() < 0.3:        # event-specific override of the factors
        # (0 is a legal factor: it switches a part of the response off)
        newuf = tuple(None if r.random() < 0.5 else [1, 1.1, 2, 0, 0.5][int(r.integers(0, 5))]
                      for _ in range(4))
        method = ["replace", "multiply", "add"][int(r.integers(0, 3))]
        meth = (lambda o, n: o + n) if method == "add" else method
        DR.add(None, drdefs, newuf, method=meth)
        from vf.oracles import cla_ref as ref
        for c in cats:
            c["uf"] = ref.merge_uf(c["uf"], newuf, meth)
    else:
        DR.add(None, drdefs)
    return DR, cats, fieldrows


def _cat_resp(np, cat, sol):
    """Reference response of a category from the planted solution fields (dict)."""
    x = sol[cat["f1"]]
    k = cat["kind"]
    if k == "plain":
        return x
    if k == "neg":
        return -x
    if k == "pick":
        return x[cat["pick"]]
    return np.vstack((x, sol[cat["f2"]]))


def _plant(r, np, domain, cats, fieldrows, ufkeys, n, nx):
    """Planted solutions: data[c][ufkey][field] = (rows, nx) array."""
    style = ["grid", "grid", "cont", "cont", "neg"][int(r.integers(0, 5))]
    nanfields = set()
    srsfields = set()
    for c in cats:
        fs = [c["f1"]] + ([c["f2"]] if c["f2"] else [])
        (srsfields if c["srows"] is not None else nanfields).update(fs)
    nanfields -= srsfields
    pnan = [0.0, 0.1, 0.3][int(r.integers(0, 3))]
    data = []
    dup = {}
    for c in range(n):
        if c > 0 and r.random() < 0.15:          # a complete duplicate of an earlier case
            src = int(r.integers(0, c))
            data.append({u: {f: a.copy() for f, a in d.items()}
                         for u, d in data[src].items()})
            dup[c] = dup.get(src, src)
            continue
        per = {}
        for u in ufkeys:
            d = {}
            for f, nr in fieldrows.items():
                v = _values(r, (nr, nx), style)
                if domain != "time":
                    v = v + 1j * _values(r, (nr, nx), style)
                if style == "cont" and c > 0 and r.random() < 0.5:
                    rows = r.random(nr) < 0.4    # exact ties between cases
                    v[rows] = data[int(r.integers(0, c))][u][f][rows]
                if f in nanfields and pnan:
                    m = r.random(v.shape) < pnan
                    if r.random() < 0.3:         # a row with a single number left
                        i = int(r.integers(0, nr))
                        m[i] = True
                        m[i, int(r.integers(0, nx))] = False
                    if domain != "psd":          # never a row without any number
                        for i in np.flatnonzero(m.all(axis=1)):
                            m[i, int(r.integers(0, nx))] = False
                    v[m] = np.nan
                    if domain != "psd":
                        for i in np.flatnonzero(np.isnan(v).all(axis=1)):
                            v[i, int(r.integers(0, nx))] = 0.5 * int(r.integers(-6, 7))
                d[f] = v
            per[u] = d
        data.append(per)
    return data, style, pnan, dup


def _srs_prim(np, srsmod, domain, cat, resp, x, h, q, pf=None):
    """Per-case spectrum from the trusted primitive, as DR_Def.add documents the options."""
    opts = cat["opts"]
    eqs = bool(opts.get("eqsine", False))
    rr = resp[cat["srows"]].T
    fact = cat["conv"]
    if domain == "time":
        kw = {k: v for k, v in opts.items() if k in ("eqsine", "ic")}
        return fact * srsmod.srs(rr, 1.0 / h, cat["frq"], q, **kw).T
    if domain == "frf":
        kw = {k: v for k, v in opts.items() if k in ("scale_by_Q_only",)}
        if eqs:
            fact = fact / q
        return fact * srsmod.srs_frf(rr, x, cat["frq"], q, **kw).T
    fact = fact * pf
    if eqs:
        fact = fact / q
    return fact * srsmod.vrs((x, rr), x, q, Fn=cat["frq"], linear=True).T


class _FakeFS:
    """Stands in for an ode solver in solvepsd: returns the planted unit FRFs."""

    def __init__(self, np, H):
        self.np, self.H, self.calls = np, H, 0

    def fsolve(self, genforce, freq, **kw):
        from types import SimpleNamespace
        i = int(self.np.argmax(self.np.abs(genforce[:, 0])))
        self.calls += 1
        d = self.H[i]
        return SimpleNamespace(a=d["a"].copy(), v=d["v"].copy(), d=d["d"].copy(), f=freq)


def _pipeline(sh, r, cla, ref, desc, domain):
    import copy
    import numpy as np
    from types import SimpleNamespace
    from pyyeti import srs as srsmod
    try:
        DR, cats, fieldrows = _make_defs(r, cla, domain)
    except Exception as e:
        sh.violation("exception:dr_def", desc, {"exc": repr(e)}, {"family": domain})
        return
    ufkeys = []
    for c in cats:
        if c["uf"] not in ufkeys:
            ufkeys.append(c["uf"])
    tags = {"family": domain, "ncat": len(cats)}
    sh.count("mon:uf-keys")
    if list(DR.UF_reds) != ufkeys or [DR.Info[c["name"]].uf_reds for c in cats] != \
            [c["uf"] for c in cats]:
        sh.violation("uf-keys", desc, {"UF_reds": list(DR.UF_reds), "want": ufkeys}, tags)
        return
    n = int(r.integers(2, 5)) if r.random() < 0.55 else int(r.integers(5, 13))
    nx = int(r.integers(6, 26))
    h = [0.01, 0.005, 0.02][int(r.integers(0, 3))]
    if domain == "time":
        x = np.arange(nx) * h
    else:
        x = np.cumsum(r.integers(1, 5, nx) * 0.5) + 0.5
    peak_factor = [3.0, 2.5, 1.0][int(r.integers(0, 3))]
    resp_time = [None, None, 20.0][int(r.integers(0, 3))]
    if domain == "psd":
        nforce = int(r.integers(1, min(3, fieldrows[cats[0]['f1']]) + 1))
        nm = fieldrows[cats[0]["f1"]]
        for f in ("a", "d", "v"):
            fieldrows[f] = nm
        nrbp = int(r.integers(0, nm + 1))
        rawkeys = [f"F{i}" for i in range(nforce)]
        data, style, pnan, dup = _plant(r, np, domain, cats, fieldrows, rawkeys, n, nx)
        flat = bool(r.random() < 0.25)
        fpsd = []
        for c in range(n):
            if c in dup:
                fpsd.append(fpsd[dup[c]].copy())
            elif flat:
                fpsd.append(np.ones((nforce, nx)) * r.integers(1, 5, (nforce, 1)) * 0.5)
            else:
                fpsd.append(r.random((nforce, nx)) + 0.1)
        if flat:      # flat response PSD: unit-magnitude FRFs
            for c in range(n):
                for u in rawkeys:
                    for f in data[c][u]:
                        a = data[c][u][f]
                        with np.errstate(invalid="ignore", divide="ignore"):
                            data[c][u][f] = np.where(np.abs(a) > 0, a / np.abs(a), 1.0)
        tags["flat"] = flat
    else:
        data, style, pnan, dup = _plant(r, np, domain, cats, fieldrows, ufkeys, n, nx)
    tags.update(style=style, pnan=pnan, ncases=n, srs=any(c["srows"] is not None
                                                         for c in cats))
    # ---- reference responses per case and category
    resp = [[None] * len(cats) for _ in range(n)]
    parts = [[None] * len(cats) for _ in range(n)]
    psds = [[None] * len(cats) for _ in range(n)]
    rmss = [[None] * len(cats) for _ in range(n)]
    spectra = {}
    for c in range(n):
        for ic, cat in enumerate(cats):
            if domain == "psd":
                tot = 0.0
                mag = 0.0
                for i, u in enumerate(rawkeys):
                    d = data[c][u]
                    s = ref.frf_apply_uf_ref(d["a"], d["v"], d["d"], None, cat["uf"], nrbp)
                    rsp = _cat_resp(np, cat, s)
                    tot = tot + fpsd[c][i] * np.abs(rsp) ** 2
                psds[c][ic] = tot
                rms, ext, ext_x = ref.psd_extremes(tot, x, peak_factor)
                rmss[c][ic] = rms
            else:
                rsp = _cat_resp(np, cat, data[c][cat["uf"]])
                resp[c][ic] = rsp
                ext, ext_x = (ref.row_extremes(rsp, x) if domain == "time"
                              else ref.frf_extremes(rsp, x))
            parts[c][ic] = {"ext": ext, "ext_x": ext_x, "maxlab": f"LC {c}"}
            if cat["srows"] is not None:
                for q in cat["qs"]:
                    if domain == "psd":
                        pf = (np.sqrt(2 * np.log(resp_time * cat["frq"]))
                              if resp_time is not None else peak_factor)
                        spectra[c, ic, q] = _srs_prim(np, srsmod, domain, cat, tot, x, h, q, pf)
                    else:
                        spectra[c, ic, q] = _srs_prim(np, srsmod, domain, cat, rsp, x, h, q)
    orders = _orders(r, n, 2)
    if n <= 4 and sh.tier == "quick" and len(orders) > 8 and r.random() < 0.6:
        keep = [int(i) for i in r.permutation(len(orders))[:8]]
        orders = [orders[i] for i in sorted(keep)]
    else:
        if n <= 4:
            sh.count(f"cell:{domain}-all-orders")
    slotmode = "perm" if r.random() < 0.4 else "seq"
    slotperm = [int(i) for i in r.permutation(n)]
    tags["slots"] = slotmode
    nontriv = False
    first = None
    for io, order in enumerate(orders):
        case = dict(desc, order=order, **tags)
        slots = {c: (slotperm[c] if slotmode == "perm" else pos)
                 for pos, c in enumerate(order)}
        results = DR.prepare_results("mission", "event A")
        snap = None
        try:
            for pos, c in enumerate(order):
                j = slots[c]
                if domain == "psd":
                    fs = _FakeFS(np, [data[c][u] for u in rawkeys])
                    results.solvepsd({"nrb": nrbp}, f"LC {c}", DR, fs, fpsd[c],
                                     np.eye(fieldrows["a"])[:, :nforce], x)
                    results.psd_data_recovery(f"LC {c}", DR, n, j, peak_factor=peak_factor,
                                              resp_time=resp_time)
                else:
                    sol = {u: SimpleNamespace(t=x, f=x, h=h, **data[c][u]) for u in ufkeys}
                    if domain == "time":
                        results.time_data_recovery(sol, None, f"LC {c}", DR, n, j)
                    else:
                        results.frf_data_recovery(sol, None, f"LC {c}", DR, n, j)
        except Exception as e:
            import traceback
            sh.violation(f"exception:{domain}_data_recovery", case,
                         {"exc": repr(e), "tb": traceback.format_exc()[-1200:]}, tags)
            continue
        sh.count(f"cell:{domain}-slots-{slotmode}")
        wants = []
        for ic, cat in enumerate(cats):
            res = results[cat["name"]]
            ps = [dict(parts[c][ic], slot=slots[c]) for c in order]
            want = ref.envelope(ps, nslots=n)
            wants.append(want)
            if any(w > 0 for w in want["imax"] + want["imin"]):
                nontriv = True
            k = domain
            if domain == "psd":
                _check_psd_cat(sh, np, ref, res, want, ps, order, slots, dup, psds, rmss, ic,
                               cat, x, n, case, tags)
            else:
                _same(sh, k + "-values", res.ext, want["ext"], case, tags)
                _same(sh, k + "-abscissa", res.ext_x, want["ext_x"], case, tags)
                _eq(sh, k + "-maxcase", res.maxcase, want["maxcase"], case, tags)
                _eq(sh, k + "-mincase", res.mincase, want["mincase"], case, tags)
                for nm in ("mx", "mn"):
                    _same(sh, k + "-percase", getattr(res, nm), want[nm], case, tags)
                for nm in ("mx_x", "mn_x"):
                    _same(sh, k + "-percase-abscissa", getattr(res, nm), want[nm], case, tags)
            wantcases = [None] * n
            for c in order:
                wantcases[slots[c]] = f"LC {c}"
            _eq(sh, k + "-cases", list(res.cases), wantcases, case, tags)
            _eq(sh, k + "-domain", res.domain, "time" if domain == "time" else "freq",
                case, tags)
            # stored histories
            hname = {"time": "hist", "frf": "frf", "psd": "psd"}[domain]
            if cat["hrows"] is None:
                _eq(sh, k + "-no-history", hasattr(res, hname), False, case, tags)
            else:
                wanth = np.zeros((n, len(cat["hrows"]), nx),
                                 dtype=complex if domain == "frf" else float)
                for c in order:
                    src = psds[c][ic] if domain == "psd" else resp[c][ic]
                    wanth[slots[c]] = src[cat["hrows"]]
                got = getattr(res, hname, None)
                if domain == "psd":
                    sh.check_close("psd-history", got, wanth,
                                   1e-13 * np.abs(np.nan_to_num(wanth)) + 1e-300, case, tags) \
                        if got is not None and not np.isnan(wanth).any() else \
                        _same(sh, "psd-history-nanpattern", np.isnan(got), np.isnan(wanth),
                              case, tags)
                else:
                    _same(sh, k + "-history", got, wanth, case, tags)
                _same(sh, k + "-history-axis",
                      getattr(res, "time" if domain == "time" else "freq"), x, case, tags)
            # SRS
            if cat["srows"] is None:
                _eq(sh, k + "-no-srs", hasattr(res, "srs"), False, case, tags)
            else:
                _eq(sh, k + "-srs-Qs", sorted(res.srs.srs), sorted(cat["qs"]), case, tags)
                _eq(sh, k + "-srs-type", res.srs.type,
                    "eqsine" if cat["opts"].get("eqsine") else "srs", case, tags)
                for q in cat["qs"]:
                    stack = np.zeros((n, len(cat["srows"]), len(cat["frq"])))
                    for c in order:
                        stack[slots[c]] = spectra[c, ic, q]
                    got = res.srs.srs.get(q)
                    tol = (1e-9 if domain == "psd" else 1e-12) * np.abs(stack) + 1e-300
                    sh.check_close(k + "-srs-percase", got, stack, tol, case, tags)
                    # envelope = element-wise max over the cases actually stored
                    _same(sh, k + "-srs-envelope", res.srs.ext.get(q),
                          ref.srs_envelope(list(got)), case, tags)
        # inputs must be untouched
        if io == 0:
            first = (results, wants, case)
    if first is not None and domain == "time":
        _derived_checks(sh, np, cla, first[0], cats, first[1], n, first[2], tags)
    if pnan:
        sh.count(f"cell:{domain}-nan")
    if tags["srs"]:
        sh.count(f"cell:{domain}-srs")
    if dup:
        sh.count(f"cell:{domain}-duplicate-case")
    sh.case(dict(desc, **tags), nontriv and n >= 2)


def _check_psd_cat(sh, np, ref, res, want, ps, order, slots, dup, psds, rmss, ic, cat, x, n,
                   case, tags):
    """PSD recovery: values to round-off, labels / abscissae where the winner is decided
    (unique by a margin, or tied only between exact duplicates of one data set)."""
    def close(kind, got, wnt, judge=None):
        got = np.asarray(got, float)
        wnt = np.asarray(wnt, float)
        if got.shape != wnt.shape:
            sh.count("mon:" + kind)
            sh.violation(kind, case, {"shape_got": got.shape, "shape_want": wnt.shape}, tags)
            return
        if judge is not None:
            got = np.where(judge, got, wnt)
        _same(sh, kind + "-nanpattern", np.isnan(got), np.isnan(wnt), case, tags)
        w = np.nan_to_num(wnt)
        sh.check_close(kind, np.nan_to_num(got), w, 1e-12 * np.abs(w) + 1e-300, case, tags)

    close("psd-values", res.ext, want["ext"])
    nrow = want["ext"].shape[0]
    judge = np.zeros((nrow, 2), bool)
    ids = [dup.get(c, c) for c in order]
    for i in range(nrow):
        for col in (0, 1):
            vals = np.array([p["ext"][i, col] for p in ps])
            best = want["ext"][i, col]
            if np.isnan(best):
                judge[i, col] = True          # every case NaN: first case keeps the row
                continue
            near = [k for k, v in enumerate(vals)
                    if not np.isnan(v) and abs(v - best) <= 1e-9 * abs(best)]
            judge[i, col] = len({ids[k] for k in near}) == 1
    sh.count("psd-label-rows-judged", int(judge.sum()))
    sh.count("psd-label-rows-skipped-neartie", int((~judge).sum()))
    _labels_where(sh, "psd-maxcase", res.maxcase, want["maxcase"], judge[:, 0], case, tags)
    _labels_where(sh, "psd-mincase", res.mincase, want["mincase"], judge[:, 1], case, tags)
    close("psd-abscissa", res.ext_x, want["ext_x"], judge)
    for nm in ("mx", "mn"):
        close("psd-percase", getattr(res, nm), want[nm])
    for nm in ("mx_x", "mn_x"):
        close("psd-percase-abscissa", getattr(res, nm), want[nm])
    wrms = np.full((nrow, n), np.nan)
    for c in order:
        wrms[:, slots[c]] = rmss[c][ic]
    close("psd-rms", getattr(res, "rms", None), wrms)


def _derived_checks(sh, np, cla, results, cats, wants, n, case, tags):
    """calc_ext / calc_stat_ext / split -> merge -> form_extreme on a finished event."""
    import copy
    ok = [not (np.isnan(w["mx"]).any() or np.isnan(w["mn"]).any()) for w in wants]
    if not any(ok):
        return
    # -- calc_ext: .ext = [max(mx), min(mn)], labels from .cases, ext_x None
    try:
        r1 = copy.deepcopy(results)
        r1.calc_ext()
    except Exception as e:
        sh.violation("exception:calc_ext", case, {"exc": repr(e)}, tags)
        r1 = None
    # -- calc_stat_ext
    kf = 1.7
    try:
        r2 = copy.deepcopy(results)
        if n >= 2:
            r2.calc_stat_ext(kf)
        else:
            r2 = None
    except Exception as e:
        sh.violation("exception:calc_stat_ext", case, {"exc": repr(e)}, tags)
        r2 = None
    # -- split, merge, form_extreme (docs of DR_Results.split, example 2)
    try:
        sp = results.split()
        mg = cla.DR_Results()
        evs = mg.merge(sp.values())
        mg.form_extreme()
        r3 = mg["extreme"]
    except Exception as e:
        import traceback
        sh.violation("exception:split-merge", case,
                     {"exc": repr(e), "tb": traceback.format_exc()[-800:]}, tags)
        r3 = None
    for cat, w, good in zip(cats, wants, ok):
        if not good:
            continue
        nm = cat["name"]
        base = results[nm]
        cases = list(base.cases)
        emx, emn = w["mx"].max(axis=1), w["mn"].min(axis=1)
        umx = [(w["mx"][i] == emx[i]).sum() == 1 for i in range(len(emx))]
        umn = [(w["mn"][i] == emn[i]).sum() == 1 for i in range(len(emn))]
        lmx = [cases[int(np.argmax(w["mx"][i]))] for i in range(len(emx))]
        lmn = [cases[int(np.argmin(w["mn"][i]))] for i in range(len(emn))]
        if r1 is not None:
            c1 = r1[nm]
            _same(sh, "calc_ext-values", c1.ext, np.column_stack((emx, emn)), case, tags)
            _labels_where(sh, "calc_ext-labels", c1.maxcase, lmx, umx, case, tags)
            _labels_where(sh, "calc_ext-labels", c1.mincase, lmn, umn, case, tags)
            _eq(sh, "calc_ext-abscissa-none", c1.ext_x is None, True, case, tags)
            if cat["srows"] is not None:
                for q in cat["qs"]:
                    _same(sh, "calc_ext-srs", c1.srs.ext[q], base.srs.srs[q].max(axis=0),
                          case, tags)
        if r2 is not None:
            c2 = r2[nm]
            sh.count("mon:calc_stat_ext")
            best = np.inf
            for ddof in (0, 1):
                wmx = w["mx"].mean(axis=1) + kf * w["mx"].std(axis=1, ddof=ddof)
                wmn = w["mn"].mean(axis=1) - kf * w["mn"].std(axis=1, ddof=ddof)
                wnt = np.column_stack((wmx, wmn))
                scale = np.abs(w["mx"]).max() + np.abs(w["mn"]).max() + 1e-300
                best = min(best, float(np.abs(c2.ext - wnt).max() / (1e-12 * scale)))
            sh.worst("calc_stat_ext", best)
            if not best <= 1.0:
                sh.violation("calc_stat_ext", case, {"ratio": best, "got": c2.ext}, tags)
            _eq(sh, "calc_stat_ext-labels",
                (list(c2.maxcase), list(c2.mincase), c2.ext_x is None),
                (["Statistical"] * len(emx), ["Statistical"] * len(emx), True), case, tags)
        if r3 is not None:
            c3 = r3[nm]
            _eq(sh, "split-merge-cases", (list(c3.cases), list(evs)), (cases, cases),
                case, tags)
            _same(sh, "split-merge-values", c3.ext, w["ext"], case, tags)
            _labels_where(sh, "split-merge-labels", c3.maxcase, w["maxcase"], w["umax"],
                          case, tags)
            _labels_where(sh, "split-merge-labels", c3.mincase, w["mincase"], w["umin"],
                          case, tags)
            ux = np.column_stack((w["umax"], w["umin"]))
            _same(sh, "split-merge-abscissa", np.where(ux, c3.ext_x, w["ext_x"]),
                  w["ext_x"], case, tags)
            _same(sh, "split-merge-percase", c3.mx, w["mx"], case, tags)
            _same(sh, "split-merge-percase", c3.mn, w["mn"], case, tags)
            if cat["srows"] is not None:
                for q in cat["qs"]:
                    _same(sh, "split-merge-srs", c3.srs.ext[q], base.srs.ext[q], case, tags)


def fam_time(sh, r, cla, ref, desc):
    _pipeline(sh, r, cla, ref, desc, "time")


def fam_frf(sh, r, cla, ref, desc):
    _pipeline(sh, r, cla, ref, desc, "frf")


def fam_psd(sh, r, cla, ref, desc):
    _pipeline(sh, r, cla, ref, desc, "psd")

# ------------------------------------------------------------------------------------
# family "tree": events grouped / merged in random nesting and order, form_extreme
# ------------------------------------------------------------------------------------

def _tree_defs(cla, np, ncat, nrow, with_srs):
    drdefs = cla.DR_Def({"se": 0})
    frq = np.array([2.0, 4.5, 7.0])
    for c in range(ncat):
        kw = dict(name=f"cat{c}", labels=[f"cat{c} row {i}" for i in range(nrow)],
                  drfunc=f"sol.{'adv'[c]}" if with_srs else "no-func")
        if with_srs and c == 0:
            kw.update(srsQs=(10, 25), srsfrq=frq, srspv=[0, nrow - 1])
        drdefs.add(**kw)
    DR = cla.DR_Event()
    DR.add(None, drdefs)
    return DR, frq


def _tree_leaf(r, cla, ref, np, DR, frq, name, flavor, ncat, nrow, style, pnan, allnan,
               rowsel=None):
    """One base event + its reference table.  flavor: x | nox | mismatch | srs."""
    from types import SimpleNamespace
    from pyyeti import srs as srsmod
    res = DR.prepare_results("mission", name)
    table = {}
    if flavor == "srs":
        ncase = int(r.integers(1, 4))
        nx, h = 12, 0.01
        t = np.arange(nx) * h
        parts = {c: [] for c in range(ncat)}
        specs = {10: [], 25: []}
        for j in range(ncase):
            flds = {f: _values(r, (nrow, nx), style) for f in "adv"[:ncat]}
            sol = {(1, 1, 1, 1): SimpleNamespace(t=t, h=h, **flds)}
            res.time_data_recovery(sol, None, f"{name}-{j}", DR, ncase, j)
            for c in range(ncat):
                e, ex = ref.row_extremes(flds["adv"[c]], t)
                parts[c].append({"ext": e, "ext_x": ex, "maxlab": f"{name}-{j}"})
            for q in specs:
                specs[q].append(srsmod.srs(flds["a"][[0, nrow - 1]].T, 1 / h, frq, q).T)
        for c in range(ncat):
            w = ref.envelope(parts[c])
            table[f"cat{c}"] = dict(ext=w["ext"], ext_x=w["ext_x"], maxcase=w["maxcase"],
                                    mincase=w["mincase"], srs=None,
                                    labels=[f"cat{c} row {i}" for i in range(nrow)])
        table["cat0"]["srs"] = {q: ref.srs_envelope(v) for q, v in specs.items()}
        return res, table
    kept = [c for c in range(ncat) if not (ncat > 1 and r.random() < 0.15)] or [0]
    for c in range(ncat):
        cat = f"cat{c}"
        if c not in kept:
            del res[cat]                       # this event does not recover the category
            continue
        labels = [f"{cat} row {i}" for i in range(nrow)]
        if rowsel is not None:
            labels = [labels[i] for i in rowsel]
            res[cat].drminfo.labels = labels
        nr = len(labels)
        ext = np.sort(_values(r, (nr, 2), style), axis=1)[:, ::-1].copy()
        if flavor != "mismatch":
            ext[r.random(ext.shape) < pnan] = np.nan
            if allnan >= 0:
                ext[allnan] = np.nan
        x = None if flavor == "nox" else r.integers(0, 40, (nr, 2)) * 0.25
        if r.random() < 0.5:
            mxl, mnl = f"{name}-lc", None
            maxcase, mincase = [mxl] * nr, [mxl] * nr
        else:
            maxcase = [f"{name}-mx{int(r.integers(0, 3))}" for _ in range(nr)]
            mincase = [f"{name}-mn{int(r.integers(0, 3))}" for _ in range(nr)]
            mxl, mnl = list(maxcase), list(mincase)
        res.add_maxmin(cat, ext.copy(), mxl, mnl, None if x is None else x.copy(),
                       domain="time")
        table[cat] = dict(ext=ext, ext_x=x, maxcase=maxcase, mincase=mincase, srs=None,
                          labels=labels)
    return res, table


def _tree_shape(r, depth, counter):
    """Nested lists of leaf numbers; the top has >= 2 children."""
    kids = []
    for _ in range(int(r.integers(2, 5))):
        if depth > 1 and r.random() < 0.45:
            kids.append(_tree_shape(r, depth - 1, counter))
        else:
            kids.append(counter[0])
            counter[0] += 1
    return kids


def _permute_shape(r, shape):
    out = [(_permute_shape(r, k) if isinstance(k, list) else k) for k in shape]
    return [out[int(i)] for i in r.permutation(len(out))]


def _tree_build(r, cla, shape, leaves, names, counter, plan):
    """Build the DR_Results container for `shape`; returns (container, refnode-children).

    Children are added in runs, each run either by assignment or by one merge() call
    (names then follow merge's documented rule, possibly renamed)."""
    cont = cla.DR_Results()
    refkids = []
    i = 0
    while i < len(shape):
        run = shape[i:i + int(r.integers(1, 3))]
        i += len(run)
        objs, refs, given = [], [], []
        for k in run:
            if isinstance(k, list):
                obj, kids = _tree_build(r, cla, k, leaves, names, counter, plan)
                node = {"name": None, "children": kids}
                pre = None
                if r.random() < 0.4:         # sub-tree already carries an 'extreme'
                    pre = f"Grp{counter[0]}"
                    counter[0] += 1
                    obj.form_extreme(pre, doappend=int(r.integers(0, 4)))
                    plan["preformed"] += 1
                merged_name = pre if pre else ", ".join(c["name"] for c in kids)
            else:
                obj = leaves[k][0]
                node = {"name": None, "table": leaves[k][1]}
                merged_name = names[k]
            objs.append(obj)
            refs.append(node)
            given.append(merged_name)
        if r.random() < 0.5:
            ren = {}
            final = []
            for g in given:
                if r.random() < 0.3:
                    ren[g] = f"R{counter[0]}"
                    counter[0] += 1
                final.append(ren.get(g, g))
            got = cont.merge((o for o in objs), ren or None)
            plan["merge_calls"] += 1
            plan["merge_names_ok"] &= (list(got) == final)
        else:
            final = []
            for g, o in zip(given, objs):
                nm = g if "," not in g and r.random() < 0.5 else f"A{counter[0]}"
                counter[0] += 1
                cont[nm] = o
                final.append(nm)
        for node, nm in zip(refs, final):
            node["name"] = nm
            refkids.append(node)
    return cont, refkids


def _tree_compare(sh, np, ref, cont, node, cats, doappend, case_order, ext_name, case, tags,
                  top=True):
    """Compare cont['extreme'] with the reference for `node` and recurse."""
    ok = True
    try:
        ext = cont["extreme"]
    except KeyError:
        sh.count("mon:tree-extreme-present")
        sh.violation("tree-extreme-present", case, {"node": node["name"]}, tags)
        return False
    for cat in cats:
        want = ref.tree_extreme(node, cat, doappend, case_order if top else None)
        sh.count("mon:tree-category-present")
        if want is None:
            if cat in ext:
                sh.violation("tree-category-present", case, {"cat": cat, "extra": True}, tags)
            continue
        if cat not in ext:
            sh.violation("tree-category-present", case, {"cat": cat}, tags)
            continue
        got = ext[cat]
        glabels = list(got.drminfo.labels)
        _eq(sh, "tree-row-labels", sorted(glabels), sorted(want["labels"]), case, tags)
        if sorted(glabels) != sorted(want["labels"]):
            continue
        rows = [want["rows"][lb] for lb in glabels]
        c2 = dict(case, node=node["name"], cat=cat)
        ok &= _same(sh, "tree-values", got.ext,
                    np.array([[e["max"], e["min"]] for e in rows]), c2, tags)
        if want["any_x"]:
            wx = np.array([[e["max_x"], e["min_x"]] for e in rows])
            ok &= _same(sh, "tree-abscissa", _absc(got.ext_x, wx), wx, c2, tags)
        else:
            _eq(sh, "tree-abscissa-none", got.ext_x is None, True, c2, tags)
        ok &= _eq(sh, "tree-maxcase", list(got.maxcase), [e["maxcase"] for e in rows], c2,
                  tags)
        ok &= _eq(sh, "tree-mincase", list(got.mincase), [e["mincase"] for e in rows], c2,
                  tags)
        _eq(sh, "tree-cases", list(got.cases), want["cases"], c2, tags)
        _eq(sh, "tree-event-name", got.event, ext_name, c2, tags)
        _same(sh, "tree-percase", got.mx, np.array([e["mx"] for e in rows]), c2, tags)
        _same(sh, "tree-percase", got.mn, np.array([e["mn"] for e in rows]), c2, tags)
        if want["any_x"]:
            _same(sh, "tree-percase-abscissa", got.mx_x, np.array([e["mx_x"] for e in rows]),
                  c2, tags)
            _same(sh, "tree-percase-abscissa", got.mn_x, np.array([e["mn_x"] for e in rows]),
                  c2, tags)
        if "srs_ext" in want:
            for q, env in want["srs_ext"].items():
                _same(sh, "tree-srs-envelope", got.srs.ext.get(q), env, c2, tags)
                per = want["srs_cases"][q]
                stack = np.full((len(want["cases"]),) + env.shape, np.nan)
                for j, s in per.items():
                    stack[j] = s
                _same(sh, "tree-srs-percase", got.srs.srs.get(q), stack, c2, tags)
    kids = node["children"]
    for ch in kids:
        if "children" in ch:
            ok &= _tree_compare(sh, np, ref, cont[ch["name"]], ch, cats, doappend, None,
                                ch["name"], case, tags, top=False)
    return ok


def _leaf_snapshot(np, leaves):
    import copy
    snap = []
    for res, _ in leaves:
        d = {}
        for cat, v in res.items():
            d[cat] = (v.ext.copy(), None if v.ext_x is None else v.ext_x.copy(),
                      list(v.maxcase), list(v.mincase), list(v.drminfo.labels),
                      {q: a.copy() for q, a in v.srs.ext.items()} if hasattr(v, "srs")
                      else None)
        snap.append((list(res), d))
    return snap


def _leaf_unchanged(np, leaves, snap):
    for (res, _), (keys, d) in zip(leaves, snap):
        if list(res) != keys:
            return False
        for cat, (e, x, mx, mn, lb, sr) in d.items():
            v = res[cat]
            if not (_nan_eq(v.ext, e) and (x is None) == (v.ext_x is None)
                    and (x is None or _nan_eq(v.ext_x, x)) and list(v.maxcase) == mx
                    and list(v.mincase) == mn and list(v.drminfo.labels) == lb):
                return False
            if sr is not None:
                for q, a in sr.items():
                    if not _nan_eq(v.srs.ext[q], a):
                        return False
    return True


def fam_tree(sh, r, cla, ref, desc):
    import numpy as np
    flavor = "mixedx" if desc["i"] < 4 else \
        ["x", "x", "nox", "mismatch", "srs"][int(r.integers(0, 5))]
    ncat = 1 if flavor == "mixedx" else int(r.integers(1, 4))
    nrow = int(r.integers(2, 6))
    style = ["grid", "grid", "cont", "neg"][int(r.integers(0, 4))]
    pnan = [0.0, 0.2][int(r.integers(0, 2))]
    allnan = int(r.integers(0, nrow)) if r.random() < 0.2 else -1
    depth = int(r.integers(1, 4))
    counter = [0]
    rowsels = {}
    if flavor == "mismatch":
        # row labels differ between the top-level groups (as in the repository's own
        # form_extreme test); inside a group every event has the same rows
        shape = []
        for g in range(int(r.integers(2, 5))):
            sel = sorted(int(i) for i in r.permutation(nrow)[:int(r.integers(1, nrow + 1))])
            grp = []
            for _ in range(int(r.integers(1, 4))):
                rowsels[counter[0]] = sel
                grp.append(counter[0])
                counter[0] += 1
            shape.append(grp)
        depth = 2
    elif flavor == "mixedx":
        # one level of add_maxmin events, some with and some without abscissae
        depth = 1
        shape = list(range(int(r.integers(2, 6))))
        counter[0] = len(shape)
    else:
        shape = _tree_shape(r, depth, counter)
    nleaf = counter[0]
    leafflavor = [flavor] * nleaf
    if flavor == "mixedx":
        leafflavor = ["nox" if r.random() < 0.5 else "x" for _ in range(nleaf)]
        leafflavor[0], leafflavor[1] = ("x", "nox") if r.random() < 0.5 else ("nox", "x")
    tags = {"family": "tree", "flavor": flavor, "depth": depth, "nleaf": nleaf,
            "style": style, "pnan": pnan}
    DR, frq = _tree_defs(cla, np, ncat, nrow, flavor == "srs")
    cats = [f"cat{c}" for c in range(ncat)]
    names = [f"Ev{k}" for k in range(nleaf)]
    try:
        leaves = [_tree_leaf(r, cla, ref, np, DR, frq, names[k], leafflavor[k], ncat, nrow,
                             style, pnan, allnan, rowsels.get(k)) for k in range(nleaf)]
    except Exception as e:
        sh.violation("exception:tree-leaf", desc, {"exc": repr(e)}, tags)
        return
    snap = _leaf_snapshot(np, leaves)
    norders = 3 if nleaf <= 6 else 2
    topvals = None
    nontriv = False
    for io in range(norders):
        shp = shape if io == 0 else _permute_shape(r, shape)
        plan = {"preformed": 0, "merge_calls": 0, "merge_names_ok": True}
        cnt = [1000 * (io + 1)]
        doappend = int(r.integers(0, 4))
        ext_name = ["Envelope", "All events"][int(r.integers(0, 2))]
        case = dict(desc, build=io, doappend=doappend, **tags)
        try:
            top, kids = _tree_build(r, cla, shp, leaves, names, cnt, plan)
            node = {"name": "TOP", "children": kids}
            case_order = None
            if r.random() < 0.35:
                sub = [kids[int(i)]["name"] for i in
                       r.permutation(len(kids))[:int(r.integers(1, len(kids) + 1))]]
                case_order = sub
            hist = int(r.integers(0, 3))
            if hist == 1:        # a stale 'extreme' from an earlier call must not count
                top.form_extreme("old", doappend=(doappend + 1) % 4)
                sh.count("cell:tree-reform")
            top.form_extreme(ext_name, case_order, doappend) if r.random() < 0.7 or \
                case_order is not None or ext_name != "Envelope" else \
                top.form_extreme(doappend=doappend)
        except Exception as e:
            import traceback
            sh.violation("exception:form_extreme", case,
                         {"exc": repr(e), "tb": traceback.format_exc()[-1200:]}, tags)
            continue
        if flavor == "mixedx":     # mechanism facts for the known finding
            eff = case_order if case_order else [k["name"] for k in kids]
            firstkid = [k for k in kids if k["name"] == eff[0]][0]
            tags = dict(tags, mixed_x=True, ncol=2,
                        first_without_x=firstkid["table"]["cat0"]["ext_x"] is None)
            case = dict(case, first_without_x=tags["first_without_x"])
        if plan["merge_calls"]:
            _eq(sh, "merge-event-names", plan["merge_names_ok"], True, case, tags)
        sh.count(f"cell:tree-doappend-{doappend}")
        sh.count(f"cell:tree-{flavor}")
        if plan["preformed"]:
            sh.count("cell:tree-preformed-subtree")
        if case_order is not None:
            sh.count("cell:tree-case_order")
        _tree_compare(sh, np, ref, top, node, cats, doappend, case_order, ext_name, case, tags)
        if hist == 2 and flavor != "mismatch":   # add one more event after forming, form again
            sh.count("cell:tree-grow-reform")
            try:
                k = int(r.integers(0, nleaf))
                extra, tab = _tree_leaf(r, cla, ref, np, DR, frq, f"Late{io}",
                                        "x" if flavor == "mixedx" else flavor, ncat, nrow,
                                        style, pnan, allnan)
                if len(extra):
                    top[f"Late{io}"] = extra
                    node["children"].append({"name": f"Late{io}", "table": tab})
                    d2 = int(r.integers(0, 4))
                    top.form_extreme(doappend=d2)
                    t2 = tags
                    if flavor == "mixedx":
                        fwx = kids[0]["table"]["cat0"]["ext_x"] is None
                        t2 = dict(tags, first_without_x=fwx)
                        case = dict(case, first_without_x=fwx)
                    _tree_compare(sh, np, ref, top, node, cats, d2, None, "Envelope",
                                  dict(case, grown=True, doappend=d2), t2)
                    node["children"].pop()
            except Exception as e:
                sh.violation("exception:form_extreme", case, {"exc": repr(e), "grown": True},
                             tags)
            continue
        # order invariance of the top-level envelope values over differently ordered builds
        if case_order is None:
            vals = {}
            for cat in cats:
                if cat in top["extreme"]:
                    g = top["extreme"][cat]
                    vals[cat] = {lb: (g.ext[i, 0], g.ext[i, 1])
                                 for i, lb in enumerate(g.drminfo.labels)}
            if topvals is None:
                topvals = vals
            else:
                sh.count("mon:tree-order-invariance")
                same = vals.keys() == topvals.keys() and all(
                    vals[c].keys() == topvals[c].keys() and all(
                        _nan_eq(np.array(vals[c][lb]), np.array(topvals[c][lb]))
                        for lb in vals[c]) for c in vals)
                if not same:
                    sh.violation("tree-order-invariance", case, {"got": vals,
                                                                 "first": topvals}, tags)
        nontriv = True
    sh.count("mon:tree-leaves-unmutated")
    if not _leaf_unchanged(np, leaves, snap):
        sh.violation("tree-leaves-unmutated", dict(desc, **tags), {}, tags)
    sh.case(dict(desc, **tags), nontriv and nleaf >= 2)

# ------------------------------------------------------------------------------------
# family "uf": apply_uf / frf_apply_uf, shared cache vs fresh cache histories
# ------------------------------------------------------------------------------------

def _spd(r, np, n, cond=20.0):
    """Random symmetric positive definite block with condition number <= cond."""
    if n == 0:
        return np.zeros((0, 0))
    q, _ = np.linalg.qr(r.standard_normal((n, n)))
    lam = np.exp(r.uniform(0, np.log(cond), n)) * float(r.uniform(0.5, 50))
    return (q * lam) @ q.T


def _uf_system(r, np, n=None):
    n = int(r.integers(1, 9)) if n is None else int(n)
    nrb = int(r.integers(0, n + 1)) if r.random() < 0.8 else 0
    nonrb = list(range(nrb, n))
    rfmode = int(r.integers(0, 5))
    rf = None
    rfi = []
    if nonrb and rfmode:
        k = int(r.integers(1, len(nonrb) + 1)) if r.random() < 0.85 else len(nonrb)
        if rfmode == 1:                       # trailing block (the usual layout)
            rfi = nonrb[-k:]
        else:
            rfi = sorted(int(i) for i in r.choice(nonrb, k, replace=False))
        if rfmode == 3:
            rf = np.zeros(n, bool)
            rf[rfi] = True
        elif rfmode == 4 and len(rfi) == 1:
            rf = int(rfi[0])
        else:
            rf = np.array(rfi)
    el = [i for i in nonrb if i not in rfi]
    rb = list(range(nrb))

    def block(kind, stiff):
        if kind == "none":
            return None
        d = r.uniform(0.5, 40.0, n)
        if stiff:
            d[rb] = 0.0
        if kind == "diag":
            return d
        full = np.zeros((n, n))
        for part in (rb, el, rfi):
            if part:
                blk = _spd(r, np, len(part))
                if stiff and part is rb:
                    blk = np.zeros_like(blk)
                full[np.ix_(part, part)] = blk
        return full
    mk = ["none", "diag", "full"][int(r.integers(0, 3))]
    bk = ["diag", "full"][int(r.integers(0, 2))]
    kk = ["diag", "full"][int(r.integers(0, 2))]
    m, b, k = block(mk, False), block(bk, False), block(kk, True)
    return dict(n=n, nrb=nrb, rf=rf, rfi=rfi, el=el, m=m, b=b, k=k, mk=mk, bk=bk, kk=kk,
                rfmode=rfmode)


def _uf_sol(r, np, n, cplx, with_pg):
    from types import SimpleNamespace
    nt = int(r.integers(1, 10))

    def arr(rows):
        x = r.standard_normal((rows, nt)) * float(10.0 ** r.integers(-2, 3))
        if cplx:
            x = x + 1j * r.standard_normal((rows, nt))
        return x
    sol = SimpleNamespace(a=arr(n), v=arr(n), d=arr(n), t=np.arange(nt) * 0.01, h=0.01)
    if with_pg:
        sol.pg = arr(int(r.integers(1, 4)))
    return sol


def _uf_tuples(r):
    k = int(r.integers(2, 7))
    out = [UF_PALETTE[int(i)] for i in r.integers(0, len(UF_PALETTE), k)]
    for _ in range(int(r.integers(0, 3))):
        out.append(tuple(float(x) for x in r.choice([0.0, 0.5, 1.0, 1.25, 2.0, 3.5], 4)))
    if r.random() < 0.6:
        out.insert(int(r.integers(0, len(out) + 1)), (1, 1, 1, 1))
    if r.random() < 0.3:
        out.append((0, 0, 0, 0))
    return out


def _uf_tol(ref, np, r, sol, uf, S, want):
    """Round-off bound from the sensitivity of the ORACLE to 1e-13 input perturbations."""
    spread = 0.0
    pr = core.rng(7, "C16-perturb")
    for _ in range(3):
        def p(x):
            return None if x is None else x * (1 + 1e-13 * pr.uniform(-1, 1, np.shape(x)))
        w2 = ref.apply_uf_ref(p(sol.a), p(sol.v), p(sol.d), None, uf, p(S["m"]), p(S["b"]),
                              p(S["k"]), S["nrb"], S["rf"])
        spread = max(spread, float(np.abs(w2["d"] - want["d"]).max()),
                     float(np.abs(w2["d_static"] - want["d_static"]).max()),
                     float(np.abs(w2["d_dynamic"] - want["d_dynamic"]).max()))
    eps = 2.2e-16
    return 200 * (spread / 1e-13) * eps + 1e-13 * max(want["scale"], 1e-300)


def _uf_compare(sh, np, ref, r, got, sol, uf, S, case, tags, pre="uf"):
    want = ref.apply_uf_ref(sol.a, sol.v, sol.d, getattr(sol, "pg", None), uf, S["m"],
                            S["b"], S["k"], S["nrb"], S["rf"])
    tol = _uf_tol(ref, np, r, sol, uf, S, want)
    mag = np.abs(sol.a).max() + np.abs(sol.v).max() + 1e-300
    for nm in ("a", "v"):
        sh.check_close(pre + "-accel-veloc", getattr(got, nm), want[nm],
                       4e-16 * max(1.0, max(abs(x) for x in uf)) ** 2 * mag, case, tags)
    for nm in ("d_static", "d_dynamic", "d"):
        g = getattr(got, nm, None)
        if g is None:
            sh.count("mon:" + pre + "-displacement")
            sh.violation(pre + "-displacement", case, {"missing": nm}, tags)
            continue
        sh.check_close(pre + "-displacement", g, want[nm], tol, case, tags)
    if "pg" in want:
        sh.check_close(pre + "-pg", got.pg, want["pg"], 4e-16 * np.abs(want["pg"]) + 1e-300,
                       case, tags)
    # d = d_static + d_dynamic (exactly: it is formed by that very addition)
    _same(sh, pre + "-d-is-static-plus-dynamic", got.d, got.d_static + got.d_dynamic, case,
          tags)
    if tuple(uf) == (1, 1, 1, 1):
        # unit factors: a, v untouched on rb / elastic rows, d reproduces the input
        keep = want["rb"] + want["el"]
        _same(sh, pre + "-unit-factors-av", np.vstack((got.a[keep], got.v[keep])),
              np.vstack((sol.a[keep], sol.v[keep])), case, tags)
        sh.check_close(pre + "-unit-factors-d", got.d[want["el"] + want["rf"]],
                       sol.d[want["el"] + want["rf"]], tol, case, tags)
    return want


def _bits(np, ns):
    out = {}
    for nm in ("a", "v", "d", "d_static", "d_dynamic", "pg"):
        x = getattr(ns, nm, None)
        if x is not None:
            out[nm] = (x.shape, str(x.dtype), np.ascontiguousarray(x).tobytes())
    return out


def fam_uf(sh, r, cla, ref, desc):
    import numpy as np
    from types import SimpleNamespace
    S = _uf_system(r, np)
    cplx = bool(r.random() < 0.3)
    with_pg = bool(r.random() < 0.6)
    nsol = int(r.integers(1, 4))
    sols = [_uf_sol(r, np, S["n"], cplx, with_pg) for _ in range(nsol)]
    ufs = _uf_tuples(r)
    tags = {"family": "uf", "n": S["n"], "nrb": S["nrb"], "nrf": len(S["rfi"]),
            "m": S["mk"], "b": S["bk"], "k": S["kk"], "rfmode": S["rfmode"],
            "complex": cplx, "pg": with_pg}
    case = dict(desc, ufs=ufs, **tags)
    sh.count(f"cell:uf-m-{S['mk']}")
    sh.count(f"cell:uf-b-{S['bk']}")
    sh.count(f"cell:uf-k-{S['kk']}")
    sh.count("cell:uf-rf-" + ("none" if S["rf"] is None else "scalar" if isinstance(S["rf"], int)
                              else "bool" if S["rf"].dtype == bool else
                              "index-tail" if S["rfmode"] == 1 else "index"))
    sh.count("cell:uf-nrb-" + ("0" if S["nrb"] == 0 else "all" if S["nrb"] == S["n"]
                               else "some"))
    mbk0 = [None if x is None else x.copy() for x in (S["m"], S["b"], S["k"])]
    args = (S["m"], S["b"], S["k"], S["nrb"], S["rf"])
    # ---- 1. one solution, many factor tuples, ONE shared cache vs fresh caches ----------
    sol = sols[0]
    sol0 = _bits(np, sol)
    shared = {}
    cache_snap = None
    try:
        for step, uf in enumerate(ufs):
            g_sh = cla.apply_uf(sol, uf, *args, shared)
            g_fr = cla.apply_uf(sol, uf, *args, {})
            g_no = cla.apply_uf(sol, uf, *args)
            c2 = dict(case, step=step, uf=uf)
            t2 = dict(tags, step=step, first_call=(step == 0))
            _uf_compare(sh, np, ref, r, g_sh, sol, uf, S, c2, t2, "uf-shared")
            _uf_compare(sh, np, ref, r, g_fr, sol, uf, S, c2, t2, "uf-fresh")
            b1, b2, b3 = _bits(np, g_sh), _bits(np, g_fr), _bits(np, g_no)
            _eq(sh, "uf-shared-equals-fresh-bitwise", b1 == b2, True, c2, t2)
            _eq(sh, "uf-nosave-equals-fresh-bitwise", b3 == b2, True, c2, t2)
            # the cache itself must never change once filled
            snap = {k: (v.tobytes() if isinstance(v, np.ndarray) else None)
                    for k, v in shared.items()}
            if cache_snap is None:
                cache_snap = snap
            else:
                _eq(sh, "uf-cache-unmodified", snap == cache_snap, True, c2, t2)
            # results must not alias the cache or the input
            sh.count("mon:uf-no-aliasing")
            for nm in ("a", "v", "d", "d_static", "d_dynamic"):
                x = getattr(g_sh, nm)
                for other in (sol.a, sol.v, sol.d, shared.get("genforce"),
                              shared.get("avterm")):
                    if other is not None and np.shares_memory(x, other):
                        sh.violation("uf-no-aliasing", c2, {"member": nm}, t2)
        _eq(sh, "uf-inputs-unmutated", _bits(np, sol) == sol0, True, case, tags)
        _eq(sh, "uf-inputs-unmutated", all(
            (a is None and b is None) or np.array_equal(a, b)
            for a, b in zip(mbk0, (S["m"], S["b"], S["k"]))), True, case, tags)
    except Exception as e:
        import traceback
        sh.violation("exception:apply_uf", case,
                     {"exc": repr(e), "tb": traceback.format_exc()[-1200:]}, tags)
    # ---- 2. several solutions through one DR_Event / through save=None ------------------
    try:
        drdefs = cla.DR_Def({"se": 0})
        uniq = []
        for i, uf in enumerate(ufs):
            drdefs.add(name=f"c{i}", labels=S["n"], drfunc=["sol.a", "sol.d", "sol.v"][i % 3],
                       uf_reds=uf)
            if uf not in uniq:
                uniq.append(uf)
        DR = cla.DR_Event()
        DR.add(None, drdefs)
        _eq(sh, "uf-event-keys", list(DR.UF_reds), uniq, case, tags)
        for isol, sl in enumerate(sols):
            before = _bits(np, sl)
            out = DR.apply_uf(sl, *args)
            c2 = dict(case, isol=isol)
            t2 = dict(tags, isol=isol, first_call=(isol == 0))
            _eq(sh, "uf-event-keys", list(out), uniq, c2, t2)
            for uf in uniq:
                _uf_compare(sh, np, ref, r, out[uf], sl, uf, S, dict(c2, uf=uf), t2,
                            "uf-event")
            uf = ufs[int(r.integers(0, len(ufs)))]
            _uf_compare(sh, np, ref, r, cla.apply_uf(sl, uf, *args), sl, uf, S,
                        dict(c2, uf=uf, nosave=True), t2, "uf-nosave")
            _eq(sh, "uf-inputs-unmutated", _bits(np, sl) == before, True, c2, t2)
            # the same event object, the same solution, another stiffness of the same
            # shape (a stiffness-sensitivity run): nothing factorised for the first model
            # may be reused for the second
            if isol == 0:
                S2 = dict(S)
                scale = 1.0 + np.linspace(0.3, 0.9, S["n"])
                S2["k"] = S["k"] * scale if S["k"].ndim == 1 else \
                    S["k"] * np.sqrt(np.outer(scale, scale))
                args2 = (S2["m"], S2["b"], S2["k"], S2["nrb"], S2["rf"])
                out2 = DR.apply_uf(sl, *args2)
                sh.count("cell:uf-event-second-stiffness")
                for uf in uniq:
                    _uf_compare(sh, np, ref, r, out2[uf], sl, uf, S2,
                                dict(c2, uf=uf, second_stiffness=True), t2, "uf-event")
                out3 = DR.apply_uf(sl, *args)          # ... and back to the first model
                for uf in uniq:
                    _uf_compare(sh, np, ref, r, out3[uf], sl, uf, S,
                                dict(c2, uf=uf, back_to_first=True), t2, "uf-event")
            # frequency-domain variant
            fo = DR.frf_apply_uf(sl, S["nrb"])
            for uf in uniq:
                w = ref.frf_apply_uf_ref(sl.a, sl.v, sl.d, getattr(sl, "pg", None), uf,
                                         S["nrb"])
                for nm, wv in w.items():
                    sh.check_close("uf-frf", getattr(fo[uf], nm), wv,
                                   4e-16 * np.abs(wv) + 1e-300, dict(c2, uf=uf), t2)
            _eq(sh, "uf-inputs-unmutated", _bits(np, sl) == before, True, c2, t2)
        if nsol > 1:
            sh.count("cell:uf-several-solutions-one-event")
    except Exception as e:
        import traceback
        sh.violation("exception:DR_Event.apply_uf", case,
                     {"exc": repr(e), "tb": traceback.format_exc()[-1200:]}, tags)
    sh.case(dict(desc, **tags), len(ufs) >= 2 and S["nrb"] < S["n"])

# ------------------------------------------------------------------------------------
# driver
# ------------------------------------------------------------------------------------

def nan_helpers(sh, cla, s, count):
    """cla.nan_argmax / nan_argmin / nan_absmax against their definitions, element by
    element (coarse grid values: exact ties, NaN on either or both sides, broadcasting)."""
    import numpy as np
    for i in range(count):
        r = core.rng(sh.seed, "C16", "nan", s, i)
        shape = [(5,), (4, 3), (3, 1)][i % 3]
        shape2 = shape if i % 3 != 2 else (3, 4)
        v1 = r.integers(-4, 5, shape) * 0.5
        v2 = r.integers(-4, 5, shape2) * 0.5
        v1[r.random(shape) < 0.25] = np.nan
        v2[r.random(shape2) < 0.25] = np.nan
        case = {"fam": "nan", "slice": s, "i": i, "v1": v1.tolist(), "v2": v2.tolist()}
        tags = {"family": "nan"}
        sh.case(["nan", s, i], True, sample=case)
        b1, b2 = np.broadcast_arrays(v1, v2)
        gt = np.zeros(b1.shape, bool)
        lt = np.zeros(b1.shape, bool)
        am = np.zeros(b1.shape, bool)
        for idx in np.ndindex(b1.shape):
            a, b = float(b1[idx]), float(b2[idx])
            na, nb_ = a != a, b != b
            gt[idx] = (not nb_) and (na or b > a)
            lt[idx] = (not nb_) and (na or b < a)
            am[idx] = (not nb_) and (na or abs(b) > abs(a))
        keep = (v1.copy(), v2.copy())
        _same(sh, "nan_argmax", np.asarray(cla.nan_argmax(v1, v2)).astype(float),
              gt.astype(float), case, tags)
        _same(sh, "nan_argmin", np.asarray(cla.nan_argmin(v1, v2)).astype(float),
              lt.astype(float), case, tags)
        if v1.shape == v2.shape:
            amx, pv = cla.nan_absmax(v1, v2)
            _same(sh, "nan_absmax-pv", np.asarray(pv).astype(float), am.astype(float),
                  case, tags)
            _same(sh, "nan_absmax-values", amx, np.where(am, v2, v1), case, tags)
        sh.count("mon:nan-helpers-inputs-unmutated")
        if not (np.array_equal(v1, keep[0], equal_nan=True)
                and np.array_equal(v2, keep[1], equal_nan=True)):
            sh.violation("nan-helpers-inputs-unmutated", case, {}, tags)


def fam_psdauf(sh, r, cla, ref, desc):
    """DR_Results.solvepsd(..., use_apply_uf=True): the response PSD of every category is
    sum_i forcepsd[i] * |recovery(apply_uf(unit FRF of force i))|^2 with apply_uf as
    documented (static / dynamic displacement split, rb displacement zeroed, rf static) --
    read from the per-case PSD store that psd_data_recovery consumes."""
    import numpy as np
    from types import SimpleNamespace
    DR, cats, fieldrows = _make_defs(r, cla, "psd")
    nm = fieldrows[cats[0]["f1"]]
    S = _uf_system(r, np, nm)
    nforce = int(r.integers(1, min(3, nm) + 1))
    nx = int(r.integers(3, 12))
    x = np.cumsum(r.integers(1, 5, nx) * 0.5) + 0.5
    H = []
    for i in range(nforce):
        sc = float(10.0 ** r.integers(-2, 3))
        H.append({f: (r.standard_normal((nm, nx)) + 1j * r.standard_normal((nm, nx))) * sc
                  for f in ("a", "v", "d")})
    fpsd = r.random((nforce, nx)) + 0.1
    fs = _FakeFS(np, H)
    fs.m_orig, fs.b_orig, fs.k_orig, fs.n = S["m"], S["b"], S["k"], nm
    rfi = S["rfi"]
    fs.rfsize = len(rfi)
    if r.random() < 0.5:
        fs.rf = np.zeros(nm, bool)
        fs.rf[rfi] = True
    else:
        fs.rf = np.array(rfi, dtype=int)
    tags = {"family": "psdauf", "n": nm, "nrb": S["nrb"], "nrf": len(rfi), "m": S["mk"],
            "b": S["bk"], "k": S["kk"], "nforce": nforce}
    case = dict(desc, **tags)
    sh.case(["psdauf", desc["slice"], desc["i"]], True, sample=case)
    sh.count("cell:psdauf-rf-" + ("none" if not rfi else "bool" if fs.rf.dtype == bool
                                  else "index"))
    sh.count("cell:psdauf-k-" + S["kk"])
    ncase = int(r.integers(1, 3))
    results = DR.prepare_results("mission", "event A")
    mbk0 = [None if a is None else np.array(a, copy=True) for a in (S["m"], S["b"], S["k"])]
    try:
        for c in range(ncase):
            results.solvepsd({"nrb": S["nrb"]}, f"LC {c}", DR, fs, fpsd * (c + 1),
                             np.eye(nm)[:, :nforce], x, use_apply_uf=True)
    except Exception as e:
        import traceback
        sh.violation("exception:solvepsd-apply_uf", case,
                     {"exc": repr(e), "tb": traceback.format_exc()[-1200:]}, tags)
        return
    rf_arg = np.array(rfi, dtype=int) if rfi else None
    for cat in cats:
        want = 0.0
        tol = 0.0
        for i in range(nforce):
            pg = np.zeros((nforce, nx))
            pg[i] = 1.0
            sol = SimpleNamespace(**H[i])
            w = ref.apply_uf_ref(sol.a, sol.v, sol.d, pg, cat["uf"], S["m"], S["b"], S["k"],
                                 S["nrb"], rf_arg)
            S2 = dict(S, rf=rf_arg)
            t = _uf_tol(ref, np, r, sol, cat["uf"], S2, w)
            rsp = _cat_resp(np, cat, w)
            want = want + fpsd[i] * np.abs(rsp) ** 2
            tol = tol + fpsd[i] * (2 * np.abs(rsp) * t + t * t)
        for c in range(ncase):
            got = results[cat["name"]]._psd[f"LC {c}"]
            sh.check_close("psd-apply_uf-response-psd", got, want * (c + 1),
                           (tol + 1e-13 * np.abs(want)) * (c + 1) + 1e-300,
                           dict(case, cat=cat["name"], field=cat["f1"], uf=cat["uf"]), tags)
    _eq(sh, "psd-apply_uf-inputs-unmutated", all(
        (a is None and b is None) or np.array_equal(a, b)
        for a, b in zip(mbk0, (S["m"], S["b"], S["k"]))), True, case, tags)


def fam_psdpg(sh, r, cla, ref, desc):
    """solvepsd with force PSD rows that are identically zero (first, middle, last) and a
    category recovered from the applied-force entry sol.pg: the response PSD is
    sum_i forcepsd[i] |recovery(unit solution i)|^2, a zero row contributes nothing and
    must not disturb the unit force the other rows see."""
    import warnings
    import numpy as np
    nm = int(r.integers(2, 5))
    nforce = int(r.integers(2, 5))
    nx = int(r.integers(3, 9))
    x = np.cumsum(r.integers(1, 5, nx) * 0.5) + 0.5
    drdefs = cla.DR_Def({"se": 0, "uf_reds": (1, 1, 1, 1)})
    drdefs.add(name="acc", labels=nm, drfunc="sol.a")
    drdefs.add(name="frc", labels=nforce, drfunc="sol.pg")
    DR = cla.DR_Event()
    DR.add(None, drdefs)
    H = [{f: (r.standard_normal((nm, nx)) + 1j * r.standard_normal((nm, nx)))
          for f in ("a", "v", "d")} for _ in range(nforce)]
    fpsd = r.random((nforce, nx)) + 0.1
    zero_rows = sorted(set(int(k) for k in r.integers(0, nforce, int(r.integers(1, 3)))))
    if len(zero_rows) == nforce:
        zero_rows = zero_rows[:-1]
    fpsd[zero_rows] = 0.0
    tags = {"family": "psdpg", "nforce": nforce, "zero_rows": zero_rows}
    case = dict(desc, **tags)
    sh.case(["psdpg", desc["slice"], desc["i"]], True, sample=case)
    sh.count("cell:psdpg-zero-row-" + ("first" if 0 in zero_rows else "last"
                                       if nforce - 1 in zero_rows else "middle"))
    t_frc = np.eye(nm, nforce) if nm >= nforce else np.ones((nm, nforce))

    class FS(_FakeFS):
        def fsolve(self, genforce, freq, **kw):
            from types import SimpleNamespace
            d = self.H[self.calls % len(self.H)]
            self.calls += 1
            return SimpleNamespace(a=d["a"].copy(), v=d["v"].copy(), d=d["d"].copy(), f=freq)
    # the fake solver is called once per force that is actually solved; tell it which
    order_solved = []

    class FS2(FS):
        def fsolve(self, genforce, freq, **kw):
            from types import SimpleNamespace
            col = [k for k in range(nforce)
                   if np.array_equal(genforce[:, 0], t_frc[:, k])]
            k = col[len([o for o in order_solved if o in col]) % len(col)] if col else 0
            order_solved.append(k)
            d = self.H[k]
            return SimpleNamespace(a=d["a"].copy(), v=d["v"].copy(), d=d["d"].copy(), f=freq)
    if nm < nforce:
        return          # columns of t_frc would not identify the force
    results = DR.prepare_results("mission", "event A")
    try:
        with warnings.catch_warnings():
            warnings.simplefilter("ignore")
            results.solvepsd({"nrb": 0}, "LC 0", DR, FS2(np, H), fpsd, t_frc, x)
    except Exception as e:
        import traceback
        sh.violation("exception:solvepsd-zero-rows", case,
                     {"exc": repr(e), "tb": traceback.format_exc()[-800:]}, tags)
        return
    want_a = sum(fpsd[i][None, :] * np.abs(H[i]["a"]) ** 2 for i in range(nforce))
    want_f = fpsd.copy()
    sh.check_close("psd-zero-force-rows-acc", results["acc"]._psd["LC 0"], want_a,
                   1e-12 * np.abs(want_a) + 1e-300, case, tags)
    sh.check_close("psd-zero-force-rows-pg", results["frc"]._psd["LC 0"], want_f,
                   1e-12 * np.abs(want_f) + 1e-300, case, tags)


def run_shard(sh, params):
    import numpy as np  # noqa
    from pyyeti import cla
    from vf.oracles import cla_ref as ref
    budget = BUDGET[sh.tier]
    s, ns = params["slice"], params["nslice"]
    only = params.get("only")
    if not only:
        nan_helpers(sh, cla, s, 40 if sh.tier == "quick" else 600)
    for fam in ("ext", "time", "frf", "psd", "psdauf", "psdpg", "tree", "uf"):
        if only and fam not in only:
            continue
        func = globals().get("fam_" + fam)
        if func is None:
            continue
        count = budget[fam] // ns
        for i in range(count):
            r = core.rng(sh.seed, "C16", fam, s, i)
            desc = {"fam": fam, "slice": s, "i": i}
            try:
                func(sh, r, cla, ref, desc)
            except Exception as e:          # harness or unguarded pyYeti failure
                import traceback
                sh.violation("exception:" + fam, desc,
                             {"exc": repr(e), "tb": traceback.format_exc()[-1500:]},
                             {"family": fam})


MANDATORY_MONITORS = [
    "nan_argmax", "nan_argmin", "nan_absmax-pv", "nan_absmax-values",
    "ext1-values", "ext1-abscissa", "ext1-maxcase", "ext1-mincase", "ext1-percase",
    "ext1-order-invariance", "ext2-values", "ext2-abscissa", "ext2-maxcase", "ext2-mincase",
    "ext2-percase", "ext2-order-invariance", "ext-inputs-unmutated",
    "time-values", "time-abscissa", "time-maxcase", "time-mincase", "time-percase",
    "time-percase-abscissa", "time-cases", "time-history", "time-srs-percase",
    "time-srs-envelope",
    "frf-values", "frf-abscissa", "frf-maxcase", "frf-mincase", "frf-percase",
    "frf-percase-abscissa", "frf-history", "frf-srs-percase", "frf-srs-envelope",
    "psd-values", "psd-abscissa", "psd-maxcase", "psd-mincase", "psd-percase", "psd-rms",
    "psd-history", "psd-srs-percase", "psd-srs-envelope", "psd-apply_uf-response-psd",
    "psd-zero-force-rows-pg", "psd-zero-force-rows-acc",
    "calc_ext-values", "calc_stat_ext", "split-merge-values", "split-merge-srs",
    "tree-values", "tree-abscissa", "tree-abscissa-none", "tree-maxcase", "tree-mincase",
    "tree-percase", "tree-cases", "tree-srs-envelope", "tree-srs-percase",
    "tree-order-invariance", "tree-leaves-unmutated", "merge-event-names",
    "uf-shared-displacement", "uf-shared-accel-veloc", "uf-fresh-displacement",
    "uf-event-displacement", "uf-nosave-displacement", "uf-shared-pg",
    "uf-shared-d-is-static-plus-dynamic", "uf-shared-unit-factors-av",
    "uf-shared-unit-factors-d", "uf-shared-equals-fresh-bitwise",
    "uf-nosave-equals-fresh-bitwise", "uf-cache-unmodified", "uf-inputs-unmutated",
    "uf-no-aliasing", "uf-frf", "uf-event-keys", "uf-keys",
]
MANDATORY_CELLS = [
    "ext-1col", "ext-2col", "ext-all-orders", "ext-nan", "ext-allnan-row",
    "time-all-orders", "time-nan", "time-srs", "time-slots-perm", "time-slots-seq",
    "time-duplicate-case", "frf-all-orders", "frf-nan", "frf-srs", "frf-slots-perm",
    "psd-all-orders", "psd-nan", "psd-srs", "psd-slots-perm",
    "tree-doappend-0", "tree-doappend-1", "tree-doappend-2", "tree-doappend-3",
    "tree-x", "tree-nox", "tree-mixedx", "tree-mismatch", "tree-srs", "tree-case_order", "tree-reform",
    "tree-grow-reform", "tree-preformed-subtree",
    "uf-m-none", "uf-m-diag", "uf-m-full", "uf-b-diag", "uf-b-full", "uf-k-diag",
    "uf-k-full", "ext-mixed-abscissa", "uf-nrb-0", "uf-nrb-some", "uf-nrb-all", "uf-rf-none", "uf-rf-index",
    "uf-rf-index-tail", "uf-rf-bool", "uf-several-solutions-one-event",
]


def finalize(agg, tier):
    why = []
    c = agg["counters"]
    for k in MANDATORY_MONITORS:
        if not c.get("mon:" + k):
            why.append(f"monitor {k} never evaluated")
    for k in MANDATORY_CELLS:
        if not c.get("cell:" + k):
            why.append(f"coverage cell {k} is empty")
    return why


def evidence_extra(agg, tier):
    c = agg["counters"]
    return {
        "presentations_checked": {d: c.get(f"cell:{d}-slots-seq", 0)
                                  + c.get(f"cell:{d}-slots-perm", 0)
                                  for d in ("time", "frf", "psd")},
        "direct_extrema_presentations": c.get("cell:ext-1col", 0) + c.get("cell:ext-2col", 0),
        "psd_label_rows": {"judged": c.get("psd-label-rows-judged", 0),
                           "skipped_near_tie": c.get("psd-label-rows-skipped-neartie", 0)},
    }
