"""C18 -- DOF-set partition vectors (mkusetmask / mksetpv / mkdofpv / expanddof /
make_uset / addgrid set columns / upasetpv / upqsetpv) against the documented set
lattice held as Python sets, and the pyyeti.locate helpers against their defining
equations evaluated by brute force.
"""
import itertools

from vf import core

ID = "C18"
LEVEL = "exploration"
RULE = ("tables = 1-40 GRIDs/SPOINTs, ids sorted/shuffled/adjacent, base set per grid or "
        "per DOF (6-letter strings) drawn from a random palette of the 8 base sets, each "
        "built three ways (addgrid+make_uset, make_uset with letters, make_uset with "
        "Nastran-style words carrying the superset bits); on every table ALL 18x18 "
        "(major, minor) names + 80 random '+'/bit-mask expressions; DOF look-ups: 1-D "
        "ids, 2-D (id, comp) with 0, 1..6, packed digit strings, duplicates, reversed, "
        "missing ids/components (neighbouring ids), strict and non-strict, any set "
        "expression, ndarray tables; locate.*: small-alphabet int/float/mixed matrices "
        "with duplicate rows, empties, keep 0/1/2.  distinct = digest of (table, form) / "
        "(table, request) / (helper, input); non-trivial = table with >= 2 base sets "
        "present, request with >= 1 pair, helper input non-empty")
ASSUMPTIONS = [
    "the set hierarchy is the diagram of the mkusetmask/mksetpv docstrings "
    "(vf/oracles/sets.py, self-checked against a hand-written member list)",
    "Nastran-style USET words use the NDDL bit table quoted in mkusetmask; bit 1 on s-set "
    "DOF is assumed already cleared by the op2 reader, as documented",
    "mat_intersect maximality is judged only on inputs without signed zeros / NaN; on NaN "
    "inputs the relation D1[pv1]==D2[pv2] is read with NaN==NaN (byte-wise rows)",
]
MIN_NONTRIVIAL = {"quick": 15000, "thorough": 300000}
TIMEOUT = {"quick": 1200, "thorough": 7200}
AMBIENT = {"tests": ['test_n2p.py', 'test_cb.py', 'test_op2.py', 'test_nastran.py'], "monitors": ['sets'], "quick": False}

NSHARD = {"quick": 16, "thorough": 16}
NTABLE = {"quick": 608, "thorough": 10000}


def shards(tier, seed):
    n = NSHARD[tier]
    return [{"slice": s, "nslice": n} for s in range(n)]


# ------------------------------------------------------------------------------------
# tables
# ------------------------------------------------------------------------------------

def _gen_table(r):
    """Logical table: list of nodes (id, 'grid'|'spoint', letters) in table order."""
    from numpy import arange as np_arange
    from vf.oracles import sets
    u = r.random()
    n = 1 if u < 0.04 else int(r.integers(2, 8)) if u < 0.5 else int(r.integers(8, 41))
    style = int(r.integers(0, 3))
    if style == 0:        # spread ids
        ids = r.choice(np_arange(1, 5000), size=n, replace=False)
    elif style == 1:      # adjacent ids (a missing key has close neighbours)
        start = int(r.integers(1, 900))
        ids = start + 2 * np_arange(0, n)
    else:                 # large ids
        ids = r.choice(np_arange(100000, 100000 + 50 * n + 50), size=n, replace=False)
    ids = [int(i) for i in ids]
    order = int(r.integers(0, 3))
    if order == 0:
        ids.sort()
    elif order == 1:
        ids.sort(reverse=True)
    npal = int(r.integers(1, 9))
    palette = [sets.BASE[i] for i in r.permutation(8)[:npal]]
    pgrid = [0.0, 0.5, 0.8, 1.0][int(r.integers(0, 4))]
    nodes = []
    for i in ids:
        if r.random() < pgrid:
            if r.random() < 0.5:
                letters = palette[int(r.integers(0, npal))]
            else:
                letters = "".join(palette[int(k)] for k in r.integers(0, npal, 6))
            nodes.append((i, "grid", letters))
        else:
            nodes.append((i, "spoint", palette[int(r.integers(0, npal))]))
    return nodes


def _rows(nodes):
    """(id, dof, base) per table row."""
    rows = []
    for i, kind, letters in nodes:
        if kind == "spoint":
            rows.append((i, 0, letters))
        else:
            for d in range(6):
                rows.append((i, d + 1, letters[d] if len(letters) == 6 else letters))
    return rows


def _build(n2p, pd, np, nodes, form, r):
    """The same logical table through three construction routes."""
    from vf.oracles import sets
    if form == "addgrid":
        uset = None
        run = []

        def flush(uset):
            if not run:
                return uset
            gids = [x[0] for x in run]
            ns = [x[2] for x in run]
            xyz = r.standard_normal((len(run), 3))
            if len(set(ns)) == 1 and r.random() < 0.5:
                ns = ns[0]          # single string for all grids
            return n2p.addgrid(uset, gids, ns, 0, xyz, 0)
        for node in nodes:
            if node[1] == "grid":
                run.append(node)
            else:
                uset = flush(uset)
                run = []
                sp = n2p.make_uset([[node[0], 0]], node[2])
                uset = sp if uset is None else pd.concat([uset, sp], axis=0)
        uset = flush(uset)
        return uset
    dof, ns = [], []
    bstyle, sstyle = int(r.integers(0, 3)), int(r.integers(0, 3))

    def word(letter):
        if form == "nastran":
            return sets.nastran_word(letter, bstyle=bstyle, sstyle=sstyle)
        return letter
    for i, kind, letters in nodes:
        if kind == "spoint":
            dof.append([i, 0])
            ns.append(word(letters))
        elif len(letters) == 1:
            dof.append([i, 123456])
            ns.append(word(letters))
        else:
            for d in range(6):
                dof.append([i, d + 1])
                ns.append(word(letters[d]))
    if (form == "make_uset" and all(k == "grid" and len(le) == 1 for _, k, le in nodes)
            and len({le for _, _, le in nodes}) == 1 and r.random() < 0.5):
        return n2p.make_uset([i for i, _, _ in nodes], nodes[0][2])   # 1-D ids path
    return n2p.make_uset(dof, ns)


FORMS = ("addgrid", "make_uset", "nastran")


def _allow(sh, key, n=6):
    """Inputs of a class with a listed finding are generated at most `n` times per
    shard, so that they can never fill the collector's violation list."""
    # every finding these classes were rationed for has been repaired in the repository
    # (known_findings.json "fixed"): the classes are generated without a cap again
    sh.count("cell:finding-class-" + key)
    return True


def _rand_expr(r, names, kmax=3):
    k = int(r.integers(1, kmax + 1))
    return "+".join(names[int(i)] for i in r.integers(0, len(names), k))


def _mask_lattice(sh, n2p):
    """mkusetmask() itself: base masks disjoint, superset mask covers exactly its
    members among the base masks."""
    from vf.oracles import sets
    try:
        mask = n2p.mkusetmask()
    except Exception as e:
        sh.violation("exception:mkusetmask", {}, {"exc": repr(e)}, {})
        return
    case = {"what": "mkusetmask()"}
    for a, b in itertools.combinations(sets.BASE, 2):
        sh.check_equal("mask-base-disjoint", mask[a] & mask[b], 0, {**case, "pair": a + b},
                       {"fn": "mkusetmask"})
    for s in sets.SUPER:
        mem = sets.members(s)
        for b in sets.BASE:
            got = mask[s] & mask[b]
            want = mask[b] if b in mem else 0
            sh.check_equal("mask-superset-members", got, want,
                           {**case, "superset": s, "base": b}, {"fn": "mkusetmask"})
    for expr in ("q+b", "a+o+m", "l", "e+m"):
        want = 0
        for part in expr.split("+"):
            want |= mask[part]
        sh.check_equal("mask-plus-expression", n2p.mkusetmask(expr), want,
                       {**case, "expr": expr}, {"fn": "mkusetmask"})


def _check_sets(sh, n2p, np, uset, nodes, rows, form, r, tdesc):
    from vf.oracles import sets
    bases = [b for _, _, b in rows]
    nrow = len(rows)
    tags0 = {"form": form, "nrow": nrow}
    case0 = {"table": tdesc, "form": form}
    # -- the table itself: index and order ---------------------------------------------
    try:
        idx = [(int(a), int(b)) for a, b in uset.index.tolist()]
    except Exception as e:
        sh.violation("exception:index", case0, {"exc": repr(e)}, tags0)
        return None
    if not sh.check_equal("table-index", idx, [(i, d) for i, d, _ in rows], case0, tags0):
        return None

    def call(major, minor):
        try:
            pv = n2p.mksetpv(uset, major, minor)
        except ValueError:
            return "refuse", None
        except Exception as e:
            return "exception", repr(e)
        return "ok", pv

    # -- every DOF in exactly one base set ------------------------------------------------
    hits = np.zeros(nrow, int)
    which = [None] * nrow
    for b in sets.BASE:
        st, pv = call("p", b)
        if st != "ok" or len(pv) != nrow:
            sh.violation("base-partition", {**case0, "major": "p", "minor": b},
                         {"status": st, "result": pv}, tags0)
            continue
        for k in np.nonzero(pv)[0]:
            hits[k] += 1
            which[k] = b
    sh.check_equal("base-partition", hits.tolist(), [1] * nrow, case0, tags0)
    sh.check_equal("base-assignment", which, bases, case0, tags0)
    # -- supersets are disjoint unions of their documented members -------------------------
    pvp = {}
    for s in sets.NAMES:
        st, pv = call("p", s)
        pvp[s] = np.asarray(pv, bool) if st == "ok" and len(pv) == nrow else None
    for s, (a, b) in sets.DIRECT.items():
        sh.count("mon:superset-union")
        if pvp[s] is None or pvp[a] is None or pvp[b] is None:
            sh.violation("superset-union", {**case0, "superset": s}, {"status": "n/a"},
                         tags0)
            continue
        if (pvp[a] & pvp[b]).any() or not np.array_equal(pvp[a] | pvp[b], pvp[s]):
            sh.violation("superset-union", {**case0, "superset": s, "members": [a, b]},
                         {"sup": pvp[s], "a": pvp[a], "b": pvp[b]}, tags0)
    # -- exhaustive (major, minor) + random '+' expressions and bit masks ----------------
    pairs = [(a, b, "name") for a in sets.NAMES for b in sets.NAMES]
    for _ in range(60):
        pairs.append((_rand_expr(r, sets.NAMES), _rand_expr(r, sets.NAMES), "plus"))
    for _ in range(20):
        pairs.append((_rand_expr(r, sets.NAMES, 2), _rand_expr(r, sets.NAMES, 2), "int"))
    for major, minor, how in pairs:
        want_st, want = sets.partition(bases, major, minor)
        if how == "int":
            st, pv = call(int(n2p.mkusetmask(major)), int(n2p.mkusetmask(minor)))
        else:
            st, pv = call(major, minor)
        case = {**case0, "major": major, "minor": minor, "how": how}
        tags = {**tags0, "how": how, "lattice_subset": sets.is_subset(minor, major)}
        if want_st == "refuse":
            sh.count("mon:mksetpv-refusal")
            sh.count("cell:refuse")
            if st != "refuse":
                sh.violation("mksetpv-refusal", case, {"status": st, "result": pv}, tags)
            continue
        sh.count("mon:mksetpv-partition")
        sh.count("cell:accept-" + ("lattice-subset" if tags["lattice_subset"]
                                   else "vacuous-on-table"))
        if st != "ok":
            sh.violation("mksetpv-partition", case, {"status": st, "detail": pv,
                                                     "want": want}, tags)
            continue
        pv = np.asarray(pv)
        if pv.dtype != bool or pv.ndim != 1 or pv.tolist() != want:
            sh.violation("mksetpv-partition", case,
                         {"got": pv, "want": want, "dtype": str(pv.dtype)}, tags)
    return idx


# ------------------------------------------------------------------------------------
# mkdofpv / expanddof
# ------------------------------------------------------------------------------------

def _expand(req, grids_only):
    """String expansion of a DOF request, written from the docstring.  Returns a list of
    (id, dof) or the string 'bad' when a component digit is not 0..6."""
    if len(req) == 0:
        return []
    if not isinstance(req[0], (list, tuple)):
        rg = range(1, 7) if grids_only else range(0, 7)
        return [(int(i), d) for i in req for d in rg]
    if len(req[0]) == 1:
        rg = range(1, 7) if grids_only else range(0, 7)
        return [(int(i[0]), d) for i in req for d in rg]
    out = []
    for i, comp in req:
        for ch in str(int(comp)):
            d = int(ch)
            if d > 6:
                return "bad"
            out.append((int(i), d))
    return out


def _gen_request(r, nodes, rows):
    """A DOF request + options.  Returns (req, grids_only, kind)."""
    ids = [i for i, _, _ in nodes]
    grids = [i for i, k, _ in nodes if k == "grid"]
    spts = [i for i, k, _ in nodes if k == "spoint"]
    allids = set(ids)
    kind = int(r.integers(0, 9))

    def some(pool, lo=1, hi=6):
        if not pool:
            return []
        k = int(r.integers(lo, hi + 1))
        return [pool[int(j)] for j in r.integers(0, len(pool), k)]   # duplicates allowed

    def missing():
        base = ids[int(r.integers(0, len(ids)))]
        for cand in (base + 1, base - 1, max(ids) + 7, max(1, min(ids) - 3), base + 2):
            if cand > 0 and cand not in allids:
                return cand
        return max(ids) + 11
    grids_only = True
    if kind == 0:      # 1-D grid ids (sometimes an SPOINT slips in -> missing 1..6)
        req = some(grids or ids)
        if spts and r.random() < 0.15:
            req.insert(int(r.integers(0, len(req) + 1)), spts[0])
    elif kind == 1:    # 1-D any ids, DOF 0..6
        req = some(ids)
        grids_only = False
    elif kind == 2:    # 2-D single components 0..6, all present
        req = []
        for i in some(ids, 1, 8):
            req.append([i, 0] if i in spts else [i, int(r.integers(1, 7))])
    elif kind == 3:    # 2-D packed components
        req = []
        for i in some(ids, 1, 6):
            if i in spts:
                req.append([i, 0])
            else:
                k = int(r.integers(1, 7))
                digs = r.permutation(6)[:k] + 1
                if r.random() < 0.5:
                    digs = sorted(digs)
                req.append([i, int("".join(str(int(d)) for d in digs))])
        if grids and r.random() < 0.5:
            req.append([grids[0], 123456])
    elif kind == 4:    # missing ids next to present ones
        req = [[i, 0] if i in spts else [i, int(r.integers(1, 7))]
               for i in some(ids, 0, 4)]
        for _ in range(int(r.integers(1, 3))):
            req.insert(int(r.integers(0, len(req) + 1)),
                       [missing(), int(r.integers(0, 7))])
        if r.random() < 0.3:
            req.append([ids[0], 123])
    elif kind == 5:    # missing components (grid with 0, spoint with 1..6)
        req = []
        for i in some(ids, 1, 5):
            if r.random() < 0.5:
                req.append([i, int(r.integers(1, 7))] if i in spts else [i, 0])
            else:
                req.append([i, 0] if i in spts else [i, int(r.integers(1, 7))])
    elif kind == 6:    # everything, reversed
        req = [[i, d] for i, d, _ in rows][::-1]
    elif kind == 7:    # 1-D with a missing id
        req = some(grids or ids, 0, 4)
        req.insert(int(r.integers(0, len(req) + 1)), missing())
    else:              # n x 1 column of ids / scalar
        req = [[i] for i in some(grids or ids, 1, 4)]
        grids_only = bool(r.random() < 0.7)
    return req, grids_only, kind


def _check_dofpv(sh, n2p, np, uset, nodes, rows, form, r, tdesc, nreq):
    from vf.oracles import sets
    bases = [b for _, _, b in rows]
    for q in range(nreq):
        req, grids_only, kind = _gen_request(r, nodes, rows)
        u = r.random()
        nasset = "p" if u < 0.45 else sets.NAMES[int(r.integers(0, 18))] if u < 0.85 \
            else _rand_expr(r, sets.NAMES, 2)
        strict = bool(r.random() < 0.5)
        as_int = nasset != "p" and r.random() < 0.15
        as_array = nasset == "p" and r.random() < 0.2
        scalar = kind == 8 and len(req) == 1 and r.random() < 0.5
        if r.random() < 0.03:       # illegal component digit
            req = [[nodes[0][0], 7 if r.random() < 0.5 else 1287]]
            kind, scalar = 9, False
        sel = list(range(len(rows))) if nasset == "p" else sets.rows_of(bases, nasset)
        if not sel and not _allow(sh, "mkdofpv-empty-set"):
            nasset = "p" if r.random() < 0.5 else "g+e"
            as_int = False
            sel = list(range(len(rows)))
        pos = {(rows[k][0], rows[k][1]): j for j, k in enumerate(sel)}
        exp = _expand(req, grids_only)
        case = {"table": tdesc, "form": form, "nasset": nasset, "dof": req,
                "strict": strict, "grids_only": grids_only, "as_int": as_int,
                "as_array": as_array, "scalar": scalar}
        tags = {"fn": "mkdofpv", "form": form, "kind": kind, "strict": strict,
                "set_empty": len(sel) == 0,
                "request_empty": exp != "bad" and len(exp) == 0}
        sh.case(["dof", tdesc, nasset, req, strict, grids_only, as_int, as_array, scalar],
                exp == "bad" or len(exp) > 0)
        sh.count(f"cell:request-kind-{kind}")
        # -- expanddof against the string expansion --------------------------------------
        arg = req[0][0] if scalar else req
        try:
            ed = n2p.expanddof(arg, grids_only)
            ed = [(int(a), int(b)) for a, b in np.asarray(ed).reshape(-1, 2).tolist()]
            st = "ok"
        except ValueError:
            st, ed = "refuse", None
        except Exception as e:
            st, ed = "exception", repr(e)
        if exp == "bad":
            sh.check_equal("expanddof-refusal", st, "refuse", case, tags)
        else:
            sh.check_equal("expanddof", (st, ed), ("ok", exp), case, tags)
        # -- mkdofpv ---------------------------------------------------------------------
        table = uset
        ns_arg = int(n2p.mkusetmask(nasset)) if as_int else nasset
        if as_array:
            table = np.array([[i, d] for i, d, _ in rows], float)
            if r.random() < 0.5:
                table = np.column_stack([table, r.standard_normal((len(rows), 2))])
        try:
            pv, outdof = n2p.mkdofpv(table, ns_arg, arg, strict=strict,
                                     grids_only=grids_only)
            st = "ok"
        except ValueError as e:
            st, pv, outdof = "refuse", str(e)[:80], None
        except Exception as e:
            st, pv, outdof = "exception", repr(e), None
        if exp == "bad":
            sh.check_equal("mkdofpv-bad-component-refused", st, "refuse", case, tags)
            continue
        found = [(p in pos) for p in exp]
        tags["n_missing"] = len(exp) - sum(found)
        if st == "exception":
            sh.count("mon:mkdofpv-no-exception")
            sh.violation("exception:mkdofpv", case, {"exc": pv}, tags)
            continue
        sh.count("mon:mkdofpv-no-exception")
        if not all(found) and strict:
            sh.count("cell:strict-missing")
            sh.check_equal("mkdofpv-strict-refusal", st, "refuse", case, tags)
            continue
        if not all(found):
            sh.count("cell:nonstrict-missing")
        want_pairs = [p for p, f in zip(exp, found) if f]
        want_pv = [pos[p] for p in want_pairs]
        if st != "ok":
            sh.count("mon:mkdofpv-positions")
            sh.violation("mkdofpv-positions", case, {"status": st, "msg": pv,
                                                     "want": want_pv}, tags)
            continue
        got_pairs = [(int(a), int(b)) for a, b in np.asarray(outdof).reshape(-1, 2).tolist()]
        sh.check_equal("mkdofpv-outdof", got_pairs, want_pairs, case, tags)
        sh.check_equal("mkdofpv-positions", [int(k) for k in np.asarray(pv).tolist()],
                       want_pv, case, tags)
        # the defining relation read off the table itself (independent of `pos`)
        sub = [(rows[k][0], rows[k][1]) for k in sel]
        try:
            back = [sub[int(k)] for k in np.asarray(pv).tolist()]
        except Exception as e:
            back = repr(e)
        sh.check_equal("mkdofpv-index-relation", back, want_pairs, case, tags)
    # ndarray table with a set other than 'p' is documented to be refused
    try:
        n2p.mkdofpv(np.array([[i, d] for i, d, _ in rows], float), "a", [rows[0][0]])
        st = "ok"
    except ValueError:
        st = "refuse"
    except Exception as e:
        st = repr(e)
    sh.check_equal("mkdofpv-ndarray-needs-p", st, "refuse", {"table": tdesc}, {})


def _dofpv_after_edit(sh, n2p, np, uset, nodes, form, r, tdesc):
    """History on ONE table object: look-ups, an in-place edit of the table (a node moved
    to another base set / ndarray rows reordered), look-ups again.  The answers must
    follow the table as it is now (anything remembered from the earlier calls about the
    same object would be stale)."""
    from vf.oracles import sets
    if form != "nastran" and len(nodes) >= 2:
        j = int(r.integers(0, len(nodes)))
        i, kind, letters = nodes[j]
        cur = set(letters)
        cand = [b for b in sets.BASE if b not in cur]
        new = cand[int(r.integers(0, len(cand)))]
        word = int(n2p.make_uset([[1, 0]], new)["nasset"].iloc[0])
        ids = uset.index.get_level_values("id") == i
        uset.loc[ids, "nasset"] = word                      # in place, same object
        nodes2 = list(nodes)
        nodes2[j] = (i, kind, new)
        sh.count("cell:dofpv-history-set-edit")
        _check_dofpv(sh, n2p, np, uset, nodes2, _rows(nodes2), form, r,
                     dict(tdesc, edited_node=i, new_set=new), 8)
    # ndarray table: same object, rows permuted in place between two look-ups
    rows = _rows(nodes)
    if len(rows) >= 2:
        tab = np.array([[i, d] for i, d, _ in rows], float)
        want = list(range(len(rows)))
        sh.count("mon:dofpv-history-ndarray")
        for rep in range(2):
            req = [[rows[k][0], rows[k][1]] for k in want]
            try:
                pv = [int(x) for x in n2p.mkdofpv(tab, "p", req)[0]]
            except Exception as e:
                pv = repr(e)
            inv = [0] * len(want)
            if rep == 0:
                exp = want
            else:
                exp = [int(np.nonzero(perm == k)[0][0]) for k in want]
            if pv != exp:
                sh.violation("dofpv-history-ndarray", {"table": tdesc, "rep": rep},
                             {"got": pv, "want": exp}, {"fn": "mkdofpv", "history": True})
                break
            perm = r.permutation(len(rows))
            tab[:] = tab[perm]
        sh.count("cell:dofpv-history-ndarray-permuted")


# ------------------------------------------------------------------------------------
# upstream partition vectors on a synthetic two-level superelement tree
# ------------------------------------------------------------------------------------

def _check_upstream(sh, n2p, pd, np, r, i):
    """Residual (SE 0) with two upstream SEs whose a-set (b-set grids + q-set or plain
    SPOINTs) appears downstream under new ids, in original or permuted node order
    (CSUPER-style `maps`)."""
    nas = {"selist": [], "uset": {}, "dnids": {}, "maps": {}, "upids": {}}
    dn_nodes = []         # (id, kind) of the downstream table, in order
    truth = {}
    nextid = 1000
    for seup in (100, 200):
        ng, nsq = int(r.integers(1, 4)), int(r.integers(0, 4))
        nint = int(r.integers(0, 3))       # interior (o-set) grids
        qletter = "q" if r.random() < 0.6 else "b"     # 'b' -> "no q-set: SPOINTs count"
        up = []
        for k in range(ng):
            up.append((10 + k, "grid", "b"))
        for k in range(nint):
            up.append((50 + k, "grid", "o"))
        for k in range(nsq):
            up.append((900 + k, "spoint", qletter))
        if r.random() < 0.5:
            up = [up[int(j)] for j in r.permutation(len(up))]
        usetup = n2p.make_uset([[n[0], 123456 if n[1] == "grid" else 0] for n in up],
                               [n[2] for n in up])
        anodes = [n for n in up if n[2] != "o"]
        dn = []
        for n in anodes:
            dn.append((nextid, n[1]))
            nextid += int(r.integers(1, 4))
        perm = np.arange(len(anodes))
        reorder = r.random() < 0.5 and len(anodes) > 1
        if reorder:
            perm = r.permutation(len(anodes))
        # downstream table holds the images in the order perm
        dn_order = [dn[int(j)] for j in perm]
        dn_nodes.extend(dn_order)
        if r.random() < 0.5:
            dn_nodes.append((nextid + 500, "grid"))      # a downstream-only grid
            nextid += 1
        # DOF-level map: up a-set DOF k  <->  downstream DOF (within this SE's image
        # rows, in downstream table order) maps[k]
        dn_rows = [(d[0], c) for d in dn_order
                   for c in (range(1, 7) if d[1] == "grid" else (0,))]
        up_rows = [(dn[j][0], c) for j, n in enumerate(anodes)
                   for c in (range(1, 7) if n[1] == "grid" else (0,))]
        mp = [dn_rows.index(p) for p in up_rows]
        if reorder or r.random() < 0.5:
            maps = np.column_stack([np.array(mp, float), np.ones(len(mp))])
        else:
            maps = np.zeros((0, 2))
        nas["selist"].append([seup, 0])
        nas["uset"][seup] = usetup
        nas["dnids"][seup] = np.array(sorted(d[0] for d in dn))
        nas["maps"][seup] = maps
        qrows = [n[1] == "spoint" for n in anodes for _ in
                 (range(6) if n[1] == "grid" else range(1))]
        truth[seup] = (up_rows, qrows)
    nas["selist"].append([0, 0])
    nas["selist"] = np.array(nas["selist"])
    nas["uset"][0] = n2p.make_uset([[d[0], 123456 if d[1] == "grid" else 0]
                                    for d in dn_nodes], "b")
    dnidx = [(int(a), int(b)) for a, b in nas["uset"][0].index.tolist()]
    case = {"family": "upstream", "index": i}
    sh.case(["upstream", sh.seed, i, dnidx], True)
    wantq = [False] * len(dnidx)
    for seup in (100, 200):
        up_rows, qrows = truth[seup]
        try:
            pv = n2p.upasetpv(nas, seup)
            got = [dnidx[int(k)] for k in pv]
        except Exception as e:
            got = repr(e)
        sh.check_equal("upasetpv-image", got, up_rows, {**case, "seup": seup},
                       {"fn": "upasetpv"})
        for p, isq in zip(up_rows, qrows):
            if isq:
                wantq[dnidx.index(p)] = True
    try:
        got = [bool(x) for x in n2p.upqsetpv(nas, 0)]
    except Exception as e:
        got = repr(e)
    sh.check_equal("upqsetpv-image", got, wantq, case, {"fn": "upqsetpv"})


# ------------------------------------------------------------------------------------
# locate helpers
# ------------------------------------------------------------------------------------

def _eq(a, b):
    return a == b


def _rows_as_tuples(np, D):
    D = np.asarray(D)
    if D.ndim == 1:
        return [(float(x),) if D.dtype.kind == "f" else (int(x),) for x in D.tolist()]
    return [tuple(row) for row in D.tolist()]


def _check_mat_intersect(sh, locate, np, r, i):
    cls = ["clean"] * 8 + ["signedzero", "nan"]
    cls = cls[i % 10]
    onedim = r.random() < 0.25
    c = 1 if onedim else int(r.integers(1, 5))
    r1 = int(r.integers(0, 13)) if r.random() < 0.9 else 0
    r2 = int(r.integers(0, 13)) if r.random() < 0.9 else 0
    alpha = int(r.integers(2, 5))
    dts = ["int64", "int32", "float64", "float32", "int8"]
    dt1, dt2 = dts[int(r.integers(0, 5))], dts[int(r.integers(0, 5))]
    if cls != "clean":
        dt1 = dt2 = "float64"

    def pool(dt):
        # each side draws from what ITS dtype can hold exactly: fractional values on a
        # float side and values >= 256 on a wide-integer side have no equal on a
        # narrower side and must never be reported as found there
        if "float" in dt:
            v = [0, 1, -1, 2.5, 7, 1.5]
        elif dt == "int8":
            v = [0, 1, -1, 2, 7, 44]
        else:
            v = [0, 1, -1, 2, 7, 257, 300]
        return np.array(v, float)[:max(alpha, 4) + int(r.integers(0, 3))]
    v1, v2 = pool(dt1), pool(dt2)
    D1 = v1[r.integers(0, len(v1), (r1, c))].astype(dt1)
    D2 = v2[r.integers(0, len(v2), (r2, c))].astype(dt2)
    if cls == "signedzero":
        D1[D1 == 0] = -0.0
    if cls == "nan":
        D1[D1 == 1] = np.nan
        D2[D2 == 1] = np.nan
    c2 = c
    if not onedim and r.random() < 0.05:
        c2 = c + 1
        D2 = np.column_stack([D2, D2[:, :1]])
    if onedim:
        D1, D2 = D1.ravel(), D2.ravel()
    keep = int(r.integers(0, 3))
    if (r2 == 0 and r1 > 0 and keep == 1) or (r1 == 0 and r2 > 0 and keep == 2):
        if not _allow(sh, "mat_intersect-empty-haystack"):
            keep = 0
    aslist = r.random() < 0.2
    case = {"fn": "mat_intersect", "D1": D1.tolist(), "D2": D2.tolist(), "dt1": dt1,
            "dt2": dt2, "keep": keep, "class": cls, "list_input": aslist}
    loop1 = keep == 1 or (keep == 0 and r1 <= r2)
    nneed, nhay = (r1, r2) if loop1 else (r2, r1)
    tags = {"fn": "mat_intersect", "class": cls, "keep": keep,
            "hay_empty": nhay == 0, "needles_empty": nneed == 0, "col_mismatch": c2 != c}
    sh.case(["mat_intersect", case], r1 > 0 and r2 > 0)
    sh.count("cell:mat_intersect-" + cls)
    sh.count(f"cell:mat_intersect-keep{keep}")
    a1, a2 = (D1.tolist(), D2.tolist()) if aslist else (D1, D2)
    try:
        pv1, pv2 = locate.mat_intersect(a1, a2, keep) if keep or r.random() < 0.5 \
            else locate.mat_intersect(a1, a2)
    except Exception as e:
        sh.count("mon:mat_intersect-no-exception")
        sh.violation("exception:mat_intersect", case, {"exc": repr(e)}, tags)
        return
    sh.count("mon:mat_intersect-no-exception")
    pv1, pv2 = np.asarray(pv1), np.asarray(pv2)
    if c2 != c:
        sh.check_equal("mat_intersect-col-mismatch-empty", (pv1.size, pv2.size), (0, 0),
                       case, tags)
        return
    ok = (pv1.ndim == 1 and pv2.ndim == 1 and pv1.shape == pv2.shape
          and pv1.dtype.kind in "iu" and pv2.dtype.kind in "iu"
          and (pv1.size == 0 or (0 <= pv1.min() and pv1.max() < r1
                                 and 0 <= pv2.min() and pv2.max() < r2)))
    sh.count("mon:mat_intersect-relation")
    if not ok:
        sh.violation("mat_intersect-relation", case, {"pv1": pv1, "pv2": pv2}, tags)
        return
    A, B = D1[pv1], D2[pv2]
    same = np.array_equal(A, B, equal_nan=(cls == "nan")) if A.size else True
    if not same:
        sh.violation("mat_intersect-relation", case, {"pv1": pv1, "pv2": pv2}, tags)
        return
    if cls != "clean":
        return
    # maximality on the looped-over side, in its own order, each row once
    t1, t2 = _rows_as_tuples(np, D1), _rows_as_tuples(np, D2)
    need, hay, pvn = (t1, t2, pv1) if loop1 else (t2, t1, pv2)
    hayset = set(hay)
    want = [k for k, row in enumerate(need) if row in hayset]
    sh.check_equal("mat_intersect-maximal", [int(k) for k in pvn], want, case, tags)


def _check_misc_locate(sh, locate, np, r, i):
    which = i % 11
    # ---------------------------------------------------------------- find_rows
    if which == 0:
        rr, c = int(r.integers(0, 10)), int(r.integers(1, 4))
        M = r.integers(-1, 2, (rr, c))
        if r.random() < 0.5:
            M = M.astype(float) * 0.5
        row = M[int(r.integers(0, rr))].copy() if rr and r.random() < 0.7 \
            else r.integers(-1, 2, c)
        if r.random() < 0.1:
            row = np.append(row, 0)
        case = {"fn": "find_rows", "M": M.tolist(), "row": row.tolist()}
        sh.case(["find_rows", case], rr > 0)
        try:
            got = np.asarray(locate.find_rows(M, row))
        except Exception as e:
            sh.violation("exception:find_rows", case, {"exc": repr(e)}, {"fn": "find_rows"})
            return
        if len(row) != c:
            sh.check_equal("find_rows", bool(got.any()), False, case, {"fn": "find_rows"})
        else:
            want = [list(m) == list(row.tolist()) for m in M.tolist()]
            sh.check_equal("find_rows", (got.dtype == bool, got.tolist()), (True, want),
                           case, {"fn": "find_rows"})
    # ---------------------------------------------------------------- find_vals
    elif which == 1:
        shape = (int(r.integers(0, 6)), int(r.integers(1, 5))) if r.random() < 0.7 \
            else (int(r.integers(0, 9)),)
        m = r.integers(0, 6, shape)
        v = r.integers(0, 8, int(r.integers(0, 4)))
        if r.random() < 0.3:
            m = m * 0.5
            v = v * 0.5
        case = {"fn": "find_vals", "m": m.tolist(), "v": v.tolist()}
        sh.case(["find_vals", case], m.size > 0)
        flat = [m[a, b] for b in range(m.shape[1]) for a in range(m.shape[0])] \
            if m.ndim == 2 else list(m)
        want = [bool(any(x == y for y in v)) for x in flat]
        try:
            vv = v if v.size != 1 or r.random() < 0.5 else v[0]
            got = np.asarray(locate.find_vals(m, vv)).tolist()
        except Exception as e:
            got = repr(e)
        sh.check_equal("find_vals", got, want, case, {"fn": "find_vals"})
    # ---------------------------------------------------------------- find_duplicates
    elif which == 2:
        n = int(r.integers(0, 12)) if r.random() < 0.85 else int(r.integers(0, 2))
        if n <= 1 and not _allow(sh, "find_duplicates-short"):
            n = int(r.integers(2, 12))
        tol = 0.0 if r.random() < 0.6 else 0.3
        v = r.integers(-3, 4, n)
        if r.random() < 0.5 or tol:
            v = v * 0.25          # grid of 0.25 with tol 0.3: never borderline
        case = {"fn": "find_duplicates", "v": v.tolist(), "tol": tol}
        tags = {"fn": "find_duplicates", "n": n}
        sh.case(["find_duplicates", case], n > 1)
        sh.count("cell:find_duplicates-n%s" % ("0" if n == 0 else "1" if n == 1 else "2+"))
        want = [any(k != j and abs(v[j] - v[k]) <= tol for k in range(n)) for j in range(n)]
        try:
            got = locate.find_duplicates(v, tol) if tol or r.random() < 0.5 \
                else locate.find_duplicates(v.tolist())
            got = np.asarray(got)
        except Exception as e:
            sh.count("mon:find_duplicates")
            sh.violation("exception:find_duplicates", case, {"exc": repr(e)}, tags)
            return
        sh.check_equal("find_duplicates", (got.dtype == bool, got.tolist()), (True, want),
                       case, tags)
    # ---------------------------------------------------------------- find_subseq
    elif which in (3, 4):
        n, m = int(r.integers(1, 25)), int(r.integers(1, 5))
        if n < m and not _allow(sh, "find_subseq-seq-shorter", 12):
            n = m + int(r.integers(0, 20))
        mode = ["int", "intfloat", "float", "mixed"][int(r.integers(0, 4))]
        if mode == "float" and not _allow(sh, "find_subseq-float", 40):
            mode = "intfloat"
        seq = r.integers(-2, 3, n)
        if r.random() < 0.6 and n >= m:
            k = int(r.integers(0, n - m + 1))
            sub = seq[k:k + m].copy()
        else:
            sub = r.integers(-2, 3, m)
        if mode == "intfloat":
            seq, sub = seq.astype(float), sub.astype(float)
        elif mode == "float":
            f = r.standard_normal(5)
            seq, sub = f[seq + 2], f[sub + 2]
        elif mode == "mixed":
            sub = sub.astype(float)
        if r.random() < 0.1:
            seq = seq.reshape(1, -1)      # "flattened before searching"
        case = {"fn": "find_subseq", "seq": seq.tolist(), "sub": sub.tolist(), "mode": mode}
        tags = {"fn": "find_subseq", "mode": mode, "noninteger_float": mode == "float",
                "seq_shorter": n < m}
        sh.case(["find_subseq", case], n >= m)
        sh.count("cell:find_subseq-" + mode)
        s, b = seq.ravel().tolist(), sub.tolist()
        want = [k for k in range(len(s) - len(b) + 1) if s[k:k + len(b)] == b]
        try:
            got = [int(k) for k in np.asarray(locate.find_subseq(seq, sub)).tolist()]
        except Exception as e:
            sh.count("mon:find_subseq")
            sh.violation("exception:find_subseq", case, {"exc": repr(e)}, tags)
            return
        sh.count("mon:find_subseq")
        extra = sorted(set(got) - set(want))
        miss = sorted(set(want) - set(got))
        if extra or got != sorted(set(got)):
            sh.violation("find_subseq-extra", case, {"got": got, "want": want}, tags)
        elif miss:
            sh.violation("find_subseq-missing", case, {"got": got, "want": want}, tags)
    # ---------------------------------------------------------------- flippv / index2bool
    elif which == 5:
        n = int(r.integers(0, 15))
        k = int(r.integers(0, n + 1))
        pv = r.integers(0, n, k) if (n and r.random() < 0.3) else r.permutation(n)[:k]
        pv = np.asarray(pv, dtype=int)
        if n and k and r.random() < 0.3:
            # from-the-end (negative) entries address positions like any NumPy index
            neg = r.random(k) < 0.5
            pv = np.where(neg, pv - n, pv)
            sh.count("cell:flippv-negative-entries")
        case = {"fn": "flippv", "pv": pv.tolist(), "n": n}
        sh.case(["flippv", case], n > 0)
        inside = set(int(x) % n for x in pv.tolist()) if n else set()
        try:
            got = locate.flippv(pv if r.random() < 0.7 else pv.tolist(), n)
            got = [int(x) for x in np.asarray(got).tolist()]
        except Exception as e:
            got = repr(e)
        sh.check_equal("flippv-complement", got, [j for j in range(n) if j not in inside],
                       case, {"fn": "flippv"})
        try:
            tf = np.asarray(locate.index2bool(pv, n))
            got = (tf.dtype == bool, tf.tolist())
        except Exception as e:
            got = repr(e)
        sh.check_equal("index2bool", got, (True, [j in inside for j in range(n)]), case,
                       {"fn": "index2bool"})
    # ---------------------------------------------------------------- index2slice
    elif which == 6:
        kind = int(r.integers(0, 5))
        if kind == 0:      # arithmetic, non-negative
            n = int(r.integers(1, 9))
            d = int(r.integers(1, 5)) * (1 if r.random() < 0.5 else -1)
            start = int(r.integers(0, 10))
            pv = start + d * np.arange(n)
            if pv.min() < 0:
                pv = pv - pv.min()
        elif kind == 1:    # irregular
            pv = r.integers(0, 12, int(r.integers(2, 7)))
        elif kind == 2:    # single (maybe negative)
            pv = np.array([int(r.integers(-4, 8))])
        elif kind == 3:    # empty
            pv = np.array([], dtype=int)
        else:              # constant / touching negative
            pv = np.array([3, 3, 3]) if r.random() < 0.5 else np.array([4, 1, -2])
        strict = bool(r.random() < 0.5)
        case = {"fn": "index2slice", "pv": pv.tolist(), "strict": strict}
        sh.case(["index2slice", case], pv.size > 0)
        L = int(max(12, pv.max() + 1 + int(r.integers(0, 4)))) if pv.size else 5
        x = np.arange(L) * 10
        d = np.diff(pv)
        arith = pv.size <= 1 or (d[0] != 0 and bool(np.all(d == d[0]))
                                 and pv.min() >= 0)
        try:
            s = locate.index2slice(pv if r.random() < 0.6 else pv.tolist(), strict)
            st = "ok"
        except ValueError:
            st, s = "refuse", None
        except Exception as e:
            st, s = "exception", repr(e)
        tags = {"fn": "index2slice", "arith": arith}
        sh.count("mon:index2slice")
        sh.count("cell:index2slice-" + ("sliceable" if arith else "not-sliceable"))
        if arith:
            if st != "ok" or not isinstance(s, slice) or \
                    x[s].tolist() != x[pv].tolist():
                sh.violation("index2slice", case, {"status": st, "result": repr(s)}, tags)
        elif strict:
            if st != "refuse":
                sh.violation("index2slice", case, {"status": st, "result": repr(s)}, tags)
        else:
            if st != "ok" or isinstance(s, slice) or \
                    np.asarray(s).tolist() != pv.tolist():
                sh.violation("index2slice", case, {"status": st, "result": repr(s)}, tags)
    # ---------------------------------------------------------------- list_intersect
    elif which == 7:
        pool = ["a", "b", "c", 1, 2, 3, "zz", (1, 2), 7.5]
        L1 = [pool[int(j)] for j in r.integers(0, len(pool), int(r.integers(0, 8)))]
        L2 = [pool[int(j)] for j in r.integers(0, len(pool), int(r.integers(0, 8)))]
        if r.random() < 0.5:      # unique lists
            L1 = list(dict.fromkeys(L1))
            L2 = list(dict.fromkeys(L2))
        case = {"fn": "list_intersect", "L1": L1, "L2": L2}
        sh.case(["list_intersect", repr(case)], bool(L1) and bool(L2))
        first1 = [k for k, x in enumerate(L1) if x in L2 and L1.index(x) == k]
        want = (first1, [L2.index(L1[k]) for k in first1])
        try:
            p1, p2 = locate.list_intersect(L1, L2)
            got = ([int(k) for k in p1], [int(k) for k in p2])
        except Exception as e:
            got = repr(e)
        sh.check_equal("list_intersect", got, want, case, {"fn": "list_intersect"})
    # ---------------------------------------------------------------- merge_lists
    elif which == 8:
        pool = list("abcdefghij")
        n1, n2 = int(r.integers(0, 7)), int(r.integers(0, 7))
        l1 = [pool[int(j)] for j in r.permutation(10)[:n1]]
        if r.random() < 0.6:      # list2 consistent with list1's order
            extra = [pool[int(j)] for j in r.permutation(10)[:n2]]
            common = [x for x in l1 if r.random() < 0.6]
            others = [x for x in extra if x not in l1]
            l2 = list(common)
            for x in others:
                l2.insert(int(r.integers(0, len(l2) + 1)), x)
        else:
            l2 = [pool[int(j)] for j in r.permutation(10)[:n2]]
        case = {"fn": "merge_lists", "l1": l1, "l2": l2}
        sh.case(["merge_lists", case], bool(l1) or bool(l2))
        keep1, keep2 = list(l1), list(l2)
        sh.count("mon:merge_lists")
        try:
            m, p1, p2 = locate.merge_lists(l1, l2)
        except Exception as e:
            sh.violation("exception:merge_lists", case, {"exc": repr(e)},
                         {"fn": "merge_lists"})
            return
        c1 = [x for x in l1 if x in l2]
        c2 = [x for x in l2 if x in l1]
        problems = []
        if l1 != keep1 or l2 != keep2 or m is l1 or m is l2:
            problems.append("inputs modified / not a new list")
        if sorted(m) != sorted(set(l1) | set(l2)):
            problems.append("merged is not the union without repeats")
        try:
            if [m[k] for k in p1] != l1 or [m[k] for k in p2] != l2:
                problems.append("pv1/pv2 do not reproduce the inputs")
        except Exception as e:
            problems.append(repr(e))
        if list(p1) != sorted(p1):
            problems.append("order of list1 not kept")
        if c1 == c2 and list(p2) != sorted(p2):
            problems.append("order of list2 not kept although compatible")
        if problems:
            sh.violation("merge_lists", case, {"merged": m, "pv1": p1, "pv2": p2,
                                               "problems": problems},
                         {"fn": "merge_lists", "compatible": c1 == c2})
        sh.count("cell:merge_lists-" + ("compatible" if c1 == c2 else "conflicting"))
    # ---------------------------------------------------------------- find_unique
    elif which == 9:
        n = int(r.integers(2, 12))
        y = r.integers(-2, 3, n).astype(float)
        case = {"fn": "find_unique", "y": y.tolist()}
        sh.case(["find_unique", case], True)
        d = [abs(y[k] - y[k - 1]) for k in range(1, n)]
        want = [True] + [dk > 1e-6 * max(d) for dk in d]
        try:
            got = np.asarray(locate.find_unique(y if r.random() < 0.5 else y.tolist()))
            got = [bool(x) for x in got]
        except Exception as e:
            got = repr(e)
        sh.check_equal("find_unique", got, want, case, {"fn": "find_unique"})
    else:
        _check_mat_intersect(sh, locate, np, r, i)


# ------------------------------------------------------------------------------------

def run_shard(sh, params):
    import numpy as np
    import pandas as pd
    from vf.oracles import sets
    if not sets.selfcheck():
        raise RuntimeError("set-lattice oracle fails its self-check")
    import pyyeti.nastran.n2p as n2p
    import pyyeti.locate as locate
    s, ns = params["slice"], params["nslice"]
    tier = sh.tier
    _mask_lattice(sh, n2p)
    ntab = NTABLE[tier]
    for t in range(s, ntab, ns):
        r = core.rng(sh.seed, "C18", "table", t)
        nodes = _gen_table(r)
        rows = _rows(nodes)
        tdesc = {"seed": sh.seed, "table": t, "nodes": nodes if len(nodes) <= 6
                 else {"n": len(nodes), "sha": core.digest(nodes)}}
        forms = FORMS if t % 5 == 0 else (FORMS[t % 3],)
        nbase = len({b for _, _, b in rows})
        for form in forms:
            sh.case(["table", nodes, form], nbase >= 2, sample={"nodes": nodes[:8],
                                                               "form": form})
            sh.count("cell:form-" + form)
            sh.count("cell:table-" + ("perdof" if any(len(le) == 6 for _, k, le in nodes
                                                      if k == "grid") else "pergrid"))
            if any(k == "spoint" for _, k, _ in nodes):
                sh.count("cell:table-with-spoints")
            try:
                uset = _build(n2p, pd, np, nodes, form, r)
            except Exception as e:
                sh.violation("exception:build", {"table": tdesc, "form": form},
                             {"exc": repr(e)}, {"form": form})
                continue
            idx = _check_sets(sh, n2p, np, uset, nodes, rows, form, r, tdesc)
            if idx is None:
                continue
            try:
                _check_dofpv(sh, n2p, np, uset, nodes, rows, form, r, tdesc,
                             70 if form == forms[0] else 10)
            except Exception as e:      # harness-side surprise: report, keep going
                sh.violation("exception:dofpv-harness", {"table": tdesc, "form": form},
                             {"exc": repr(e)}, {"form": form})
            try:
                _dofpv_after_edit(sh, n2p, np, uset, nodes, form, r, tdesc)
            except Exception as e:
                sh.violation("exception:dofpv-harness", {"table": tdesc, "form": form,
                                                         "history": True},
                             {"exc": repr(e)}, {"form": form})
    nloc = 9000 if tier == "quick" else 200000
    for i in range(s, nloc, ns):
        r = core.rng(sh.seed, "C18", "locate", i)
        try:
            if i % 2:
                _check_mat_intersect(sh, locate, np, r, i // 2)
            else:
                _check_misc_locate(sh, locate, np, r, i // 2)
        except Exception as e:
            sh.violation("exception:locate-harness", {"index": i}, {"exc": repr(e)}, {})
    nup = 160 if tier == "quick" else 4000
    for i in range(s, nup, ns):
        r = core.rng(sh.seed, "C18", "upstream", i)
        try:
            _check_upstream(sh, n2p, pd, np, r, i)
        except Exception as e:
            sh.violation("exception:upstream-harness", {"index": i}, {"exc": repr(e)}, {})


MANDATORY_MON = [
    "mask-base-disjoint", "mask-superset-members", "table-index", "base-partition",
    "base-assignment", "superset-union", "mksetpv-partition", "mksetpv-refusal",
    "expanddof", "expanddof-refusal", "mkdofpv-positions", "mkdofpv-outdof",
    "mkdofpv-index-relation", "mkdofpv-strict-refusal", "mkdofpv-ndarray-needs-p",
    "dofpv-history-ndarray",
    "mat_intersect-relation", "mat_intersect-maximal", "find_rows", "find_vals",
    "find_duplicates", "find_subseq", "flippv-complement", "index2bool", "index2slice",
    "list_intersect", "merge_lists", "find_unique", "upasetpv-image", "upqsetpv-image",
]
MANDATORY_CELL = [
    "form-addgrid", "form-make_uset", "form-nastran", "table-perdof", "table-pergrid",
    "table-with-spoints", "refuse", "accept-lattice-subset", "accept-vacuous-on-table",
    "strict-missing", "nonstrict-missing", "mat_intersect-clean",
    "mat_intersect-signedzero", "mat_intersect-nan", "mat_intersect-keep0",
    "mat_intersect-keep1", "mat_intersect-keep2", "index2slice-sliceable",
    "index2slice-not-sliceable", "merge_lists-compatible", "merge_lists-conflicting",
] + [f"request-kind-{k}" for k in range(10)]


def finalize(agg, tier):
    c = agg["counters"]
    why = [f"monitor {k} never evaluated" for k in MANDATORY_MON if not c.get("mon:" + k)]
    why += [f"coverage cell {k} empty" for k in MANDATORY_CELL if not c.get("cell:" + k)]
    return why


def evidence_extra(agg, tier):
    c = agg["counters"]
    return {"set_pairs_judged": c.get("mon:mksetpv-partition", 0)
            + c.get("mon:mksetpv-refusal", 0),
            "exhaustive_over": "all 18x18 (major, minor) set names on every table"}
