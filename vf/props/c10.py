"""C10 -- cycle-counting pipeline (findap, getbins/binify, sigcount) and the
fatigue-damage-equivalent PSD (fdepsd): predicates on the returned masks, default path
vs the accelerated-path source (executed under an identity ``numba`` stub), an
interval-membership model for the bins, and invariants / independent recomputation of
the fdepsd outputs.
"""
import importlib.util
import itertools
import math
import os
import sys
import types

from vf import core

ID = "C10"
LEVEL = "exploration"
RULE = ("findap: exhaustive words over {0,1,2} + seeded signals in 12 families (coarse "
        "walks with ties, integer noise, exact plateaus, cumulative sub-tolerance drift "
        "up-and-back / then-drop / snap-back, monotone stretches, first change at the "
        "last sample, 1e12 offsets, sub-tolerance noise, gaussian, length 1/2/3 and "
        "constants), each at tol 0, 1e-12, 1e-6, 1e-2, on the default definition and "
        "on the numba-branch source; binify: ASTM-counted and synthetic cycle tables x "
        "bins (scalar 1..50, explicit covering / touching / not covering) x right x "
        "check_bounds x pandas, incl. degenerate ranges; sigcount end to end; fdepsd: "
        "stratified (thorough: full) product resp x nbins x T0 x rolloff x hpfilter x "
        "winends on 1-4 s records, each also scaled by a power of two, plus runs with "
        "an injected cycle table that puts cycles exactly on bin edges.  distinct = "
        "digest of (signal, tol) / (table, bins, options) / (record, options); "
        "non-trivial = signal not constant, table with >= 2 cycles, every fdepsd run")
ASSUMPTIONS = [
    "numba is not installed: the numba-branch definitions of findap/_binify/maxmin are "
    "executed as plain Python by loading cyclecount.py under an identity stub; JIT code "
    "generation (and what compiled code does where Python raises UnboundLocalError) is "
    "not observed",
    "the documented findap semantics (locate.find_unique: a sample equals the previous "
    "*adjacent* sample within tol*max|dy|; first of a series is the peak) is "
    "transcribed in vf/oracles/cyclepipe.ref_findap and used as a model next to the "
    "property's own predicates",
    "ASTM E1049-85 rainflow = vf/oracles/astm_rainflow.py (self-checked every run)",
    "fdepsd responses are recomputed from the returned fde.sig/fde.sr with an exact "
    "piecewise-linear SDOF recurrence (Van Loan matrices, vf/oracles/lti.py): "
    "preprocessing (detrend/window/filter) is checked separately against scipy only "
    "when no up-sampling happens; the up-samplers themselves are not modelled",
    "test damage per unit variance is the Rayleigh-peak integral N0*2^(b/2)*"
    "gamma(b/2+1[, ln N0]) (truncated at the expected largest peak for 'absacce' as in "
    "DiMaggio et al., untruncated for 'pvelo' as in McNeill)",
    "amplitude scaling uses powers of two so that bin comparisons cannot flip",
]
MIN_NONTRIVIAL = {"quick": 5000, "thorough": 100000}

# extra workload of the thorough tier: the repository's own tests with the cheap monitors
# of vf/ambient.py attached (never the deciding one; DESIGN 2.8)
AMBIENT = {"tests": ['test_cyclecount.py', 'test_fdepsd.py'], "monitors": ['findap'], "quick": False}
TIMEOUT = {"quick": 1200, "thorough": 7200}

TOLS = [0.0, 1e-12, 1e-6, 1e-2]
FAMILIES = ["walk", "ints", "plateau", "drift-up-back", "drift-then-drop",
            "drift-snapback", "monotone", "first-change-last", "huge-offset",
            "subtol-noise", "gauss", "short"]

RESP = ["absacce", "pvelo"]
NBINS = [1, 2, 7, 300]
T0S = [60.0, 7.3, 600.0]
ROLLOFF = ["lanczos", "fft", "prefilter", "linear", "none", None, "callable"]
HPF = [None, 5.0]
WINENDS = [None, "auto", "dict"]


def shards(tier, seed):
    if tier == "quick":
        plan = [("findap", 4), ("binify", 3), ("fdepsd", 6)]
    else:
        plan = [("findap", 12), ("binify", 6), ("fdepsd", 14)]
    out = []
    for part, n in plan:
        for s in range(n):
            out.append({"part": part, "slice": s, "nslice": n})
    # long-running parts first
    out.sort(key=lambda p: {"fdepsd": 0, "findap": 1, "binify": 2}[p["part"]])
    return out


# ------------------------------------------------------------------------------------
# plumbing

def _load_numba_branch():
    """cyclecount.py of the tree under test executed with a stub ``numba`` so that the
    ``else`` (HAVE_NUMBA) definitions are the ones that exist in the module."""
    import numpy as np
    decorated = []
    stub = types.ModuleType("numba")

    def jit(*a, **k):
        def deco(f):
            decorated.append(f.__name__)
            return f
        return deco
    stub.jit = stub.njit = jit
    stub.types = types.SimpleNamespace(bool_=np.bool_)
    path = os.path.join(core.REPO, "pyyeti", "cyclecount.py")
    saved = sys.modules.get("numba")
    sys.modules["numba"] = stub
    try:
        spec = importlib.util.spec_from_file_location("vf_cyclecount_numba", path)
        mod = importlib.util.module_from_spec(spec)
        spec.loader.exec_module(mod)
    finally:
        if saved is None:
            sys.modules.pop("numba", None)
        else:
            sys.modules["numba"] = saved
    return mod, decorated


class _Reporter:
    """Rate limiter: at most LIMIT stored reports per (kind, boolean-tag signature) and
    shard, so that a frequent known mechanism cannot crowd a different failure out of
    the collector's 200 slots.  Every report is still counted."""
    LIMIT = 4

    def __init__(self, sh):
        self.sh = sh
        self.seen = {}

    def __call__(self, kind, case, detail, tags):
        sig = (kind,) + tuple(sorted((k, v) for k, v in tags.items()
                                     if isinstance(v, (bool, str)) or v is None))
        n = self.seen.get(sig, 0)
        self.seen[sig] = n + 1
        if n < self.LIMIT:
            self.sh.violation(kind, case, detail, tags)
        else:
            self.sh.count("violation:" + kind)
            self.sh.count("throttled:" + kind)


def run_shard(sh, params):
    from vf.oracles import astm_rainflow
    if not astm_rainflow.selfcheck():
        raise RuntimeError("ASTM transcription fails the standard's worked example")
    import pyyeti.cyclecount as cc
    rep = _Reporter(sh)
    if cc.HAVE_NUMBA:
        sh.violation("harness-numba-present", params, {"note": "numba importable; the "
                     "default path is not the non-numba definition"}, {})
    nb, decorated = _load_numba_branch()
    if not nb.HAVE_NUMBA or sorted(decorated) != ["_binify", "findap", "maxmin"]:
        sh.violation("numba-branch-not-loaded", params,
                     {"HAVE_NUMBA": nb.HAVE_NUMBA, "decorated": decorated}, {})
    sh.count("numba-branch-loaded")
    part = params["part"]
    if part == "findap":
        _run_findap(sh, rep, params, cc, nb)
    elif part == "binify":
        _run_binify(sh, rep, params, cc, nb)
    else:
        _run_fdepsd(sh, rep, params, cc)


# ------------------------------------------------------------------------------------
# findap

def _drift_signal(r, np, kind, tgen):
    """Plateau reached by a step of size A, then steps of c*tgen*A (sub-tolerance, same
    direction), then back / drop / exact snap-back; optional coarse prefix and suffix."""
    A = float(r.choice([1.0, 3.0, 0.37, 1000.0]))
    base = float(r.choice([0.0, 0.0, 5.0, -2.0]))
    sgn = 1.0 if r.random() < 0.5 else -1.0
    nstep = int(r.integers(2, 26))
    c = float(r.uniform(0.25, 0.9))
    if kind == "drift-snapback" and nstep * c < 1.3:
        nstep = int(math.ceil(1.3 / c)) + 1
    s = c * tgen * A
    npre = int(r.integers(0, 6))
    pre = base + A * np.cumsum(r.integers(-1, 2, npre)) if npre else np.array([])
    start = float(pre[-1]) if npre else base
    if not npre:
        pre = np.array([base])
    level = start + sgn * A
    up = [level + sgn * s * k for k in range(nstep + 1)]
    if kind == "drift-up-back":
        body = up + up[-2::-1] + [level - sgn * A]
    elif kind == "drift-then-drop":
        body = up + [up[-1] - sgn * A]
    else:   # snap back to the exact plateau value, then maybe go on
        body = up + [level]
        if r.random() < 0.7:
            body.append(level - sgn * A)
    nsuf = int(r.integers(0, 5))
    suf = body[-1] + A * np.cumsum(r.integers(-1, 2, nsuf)) if nsuf else np.array([])
    return np.concatenate([pre, np.array(body), suf]).astype(float)


def _random_signal(r, np, fam, tgen):
    L = int(r.integers(4, 60)) if r.random() < 0.9 else int(r.integers(60, 700))
    if fam == "walk":
        return np.cumsum(r.integers(-1, 2, L)).astype(float)
    if fam == "ints":
        return r.integers(-3, 4, L).astype(float)
    if fam == "plateau":
        vals = r.integers(-3, 4, max(2, L // 4)).astype(float) * float(
            r.choice([1.0, 0.1, 7.5]))
        return np.repeat(vals, r.integers(1, 6, vals.size))
    if fam.startswith("drift"):
        return _drift_signal(r, np, fam, tgen)
    if fam == "monotone":
        out, cur, sgn = [], 0.0, 1.0
        for _ in range(int(r.integers(1, 5))):
            n = int(r.integers(2, 30))
            inc = r.uniform(0.1, 1.0, n) if r.random() < 0.5 else r.integers(1, 4, n)
            seg = cur + sgn * np.cumsum(inc)
            out.extend(seg.tolist())
            cur, sgn = seg[-1], -sgn
        return np.array(out, float)
    if fam == "first-change-last":
        n = int(r.integers(3, 25))
        c = float(r.choice([-1.0, 0.0, 2.5, 1e6]))
        y = np.full(n, c)
        if r.random() < 0.4 and tgen > 0:       # sub-tolerance wiggle, not cumulative
            y[1:-1:2] += 0.3 * tgen * 1.0
        y[-1] = c + float(r.choice([1.0, -1.0, 0.5, -3.0]))
        return y
    if fam == "huge-offset":
        noise = r.standard_normal(L) if r.random() < 0.5 else r.integers(-3, 4, L)
        return 1e12 * float(r.choice([1.0, -1.0, 3.7])) + noise
    if fam == "subtol-noise":
        A = float(r.choice([1.0, 4.0, 0.25]))
        return (A * np.cumsum(r.integers(-1, 2, L))
                + r.uniform(-0.2, 0.2, L) * tgen * A)
    if fam == "gauss":
        return r.standard_normal(L) * float(r.choice([1.0, 1e-8, 1e8]))
    # short / constant
    k = int(r.integers(0, 5))
    if k == 0:
        return np.full(int(r.integers(1, 30)), float(r.integers(-2, 3)))
    n = int(r.integers(1, 4))
    if r.random() < 0.5:
        return r.integers(-1, 2, n).astype(float)
    return r.standard_normal(n)


def _findap_cases(sh, params, np):
    s, ns = params["slice"], params["nslice"]
    tier = sh.tier
    maxlen = 6 if tier == "quick" else 9
    idx = 0
    for L in range(1, maxlen + 1):
        for w in itertools.product((0.0, 1.0, 2.0), repeat=L):
            idx += 1
            if idx % ns == s:
                yield "exhaustive", np.array(w), [0.0, 1e-6], {"word": True}
    r = core.rng(sh.seed, "C10", "findap", s)
    nrand = 2640 if tier == "quick" else 15000
    for i in range(nrand):
        fam = FAMILIES[i % len(FAMILIES)]
        tgen = [1e-12, 1e-6, 1e-2][(i // len(FAMILIES)) % 3]
        y = _random_signal(r, np, fam, tgen)
        form = int(r.integers(0, 12))
        yield fam, y, TOLS, {"slice": s, "i": i, "tgen": tgen, "form": form}


def _run_findap(sh, rep, params, cc, nb):
    import numpy as np
    from vf.oracles import cyclepipe as cp
    r2 = core.rng(sh.seed, "C10", "sigcount", params["slice"])
    for k, (fam, y, tols, gen) in enumerate(_findap_cases(sh, params, np)):
        ylist = y.tolist()
        n = len(ylist)
        sh.count("family:" + fam)
        if n <= 3:
            sh.count("length:%d" % n)
        if n > 1 and max(ylist) == min(ylist):
            sh.count("cell:constant")
        yin = y
        form = gen.get("form", 0)
        if form == 1 and n % 2 == 0 and n >= 4:
            yin = y.reshape(2, -1)                       # "y is flattened"
            sh.count("cell:input-2d")
        elif form == 2 and np.all(y == np.round(y)) and np.abs(y).max() < 2 ** 40:
            yin = y.astype(np.int64)
            sh.count("cell:input-int")
        elif form == 3:
            big = np.zeros(2 * n)
            big[::2] = y
            yin = big[::2]                               # strided view
            sh.count("cell:input-strided")
        elif form in (4, 5) and n >= 2:
            # the same signal in other units: an exact power-of-two scale changes nothing
            # in the selection rule (tol is relative to max|dy|), but it moves products of
            # slopes towards under/overflow
            y = y * (2.0 ** -600 if form == 4 else 2.0 ** 500)
            ylist = y.tolist()
            yin = y
            sh.count("cell:input-scaled-2^" + ("-600" if form == 4 else "500"))
        elif form in (6, 7, 8) and n >= 2 and np.all(y == np.round(y)) \
                and np.abs(y).max() <= 10:
            # raw counts of a data-acquisition system: narrow integer dtypes with steps
            # whose products do not fit the dtype
            K, dt = {6: (3000, np.int16), 7: (50000, np.int32),
                     8: (4000000000, np.int64)}[form]
            y = y * float(K)
            ylist = y.tolist()
            yin = y.astype(dt)
            sh.count("cell:input-" + np.dtype(dt).name)
        for tol in tols:
            _one_findap(sh, rep, cp, cc, nb, np, fam, ylist, yin, tol, gen)
        # -- sigcount end to end (findap's default tol) --------------------------------
        if k % 3 == 0 and yin.ndim == 1:
            _one_sigcount(sh, rep, cp, cc, np, r2, fam, ylist, yin, gen)


def _one_findap(sh, rep, cp, cc, nb, np, fam, ylist, yin, tol, gen):
    n = len(ylist)
    small = n <= 40
    case = {"family": fam, "tol": tol, "gen": gen,
            "y": ylist if small else {"len": n, "sha": core.digest(ylist)}}
    nontrivial = n >= 2 and max(ylist) != min(ylist)
    sh.case([ylist if n <= 200 else core.digest(ylist), tol], nontrivial, sample=case)
    sh.count("tol:%g" % tol)
    stol, drift, nsub = cp.subtol_runs(ylist, tol)
    zstep = cp.dedup_zero_step(ylist, tol)
    fsc = cp.first_significant_change(ylist, tol)
    base = {"family": fam, "tol": tol, "n": n, "has_subtol_step": bool(nsub > 0),
            "subtol_drift_exceeds_tol": bool(drift > stol),
            "dedup_zero_step": bool(zstep),
            "first_sig_change_is_last": bool(fsc is not None and fsc == n - 1)}
    if drift > stol:
        sh.count("cell:subtol-drift-exceeds-tol")
    if zstep:
        sh.count("cell:dedup-zero-step")
    if base["first_sig_change_is_last"] and n >= 3:
        sh.count("cell:first-change-is-last")

    # ---- default definition --------------------------------------------------------
    model = cp.ref_findap(ylist, tol)
    mask = None
    try:
        m = cc.findap(yin, tol)
        sh.count("mon:findap-shape")
        if not (isinstance(m, np.ndarray) and m.dtype == np.bool_ and m.shape == (n,)):
            rep("findap-shape", case, {"type": type(m).__name__,
                                       "dtype": str(getattr(m, "dtype", None)),
                                       "shape": getattr(m, "shape", None)},
                {**base, "path": "default"})
        else:
            mask = m.tolist()
    except Exception as e:
        rep("exception:findap-default", case, {"exc": repr(e)[:300]},
            {**base, "path": "default", "exc_type": type(e).__name__})
    if mask is not None:
        f = cp.mask_predicates(ylist, mask, tol)
        model_equal = mask == model
        tags = {**base, "path": "default", "starts_ok": f["starts_ok"],
                "alt_ok": f["alt_ok"], "ext_ok": f["ext_ok"],
                "model_equal": model_equal,
                "miss_le_drift": bool(f["miss"] <= drift)}
        detail = {"selected": [i for i in range(n) if mask[i]][:40], "miss": f["miss"],
                  "stol": stol, "subtol_drift": drift}
        sh.count("mon:findap-starts-at-0")
        if not f["starts_ok"]:
            rep("findap-starts-at-0", case, detail, tags)
        sh.count("mon:findap-alternation")
        if not f["alt_ok"]:
            rep("findap-alternation", case, {**detail, "nozero_ok": f["nozero_ok"]},
                tags)
        sh.count("mon:findap-extreme")
        if not f["ext_ok"]:
            rep("findap-extreme", case, detail, tags)
        elif stol > 0 and drift <= stol:
            sh.worst("findap-extreme", f["miss"] / stol)
        sh.count("mon:findap-default-vs-model")
        if not model_equal:
            rep("findap-default-vs-model", case,
                {**detail, "model": [i for i in range(n) if model[i]][:40]}, tags)

    # ---- numba-branch source -------------------------------------------------------
    sh.count("mon:findap-numba-vs-default")
    try:
        mn = nb.findap(yin, tol)
    except Exception as e:
        rep("exception:findap-numba", case, {"exc": repr(e)[:300]},
            {**base, "path": "numba", "exc_type": type(e).__name__})
        return
    ok = isinstance(mn, np.ndarray) and mn.dtype == np.bool_ and mn.shape == (n,)
    if not ok:
        rep("findap-shape", case, {"dtype": str(getattr(mn, "dtype", None)),
                                   "shape": getattr(mn, "shape", None)},
            {**base, "path": "numba"})
        return
    mnl = mn.tolist()
    if mask is not None and mnl != mask:
        g = cp.mask_predicates(ylist, mnl, tol)
        tags = {**base, "path": "numba",
                "numba_ok": bool(g["starts_ok"] and g["alt_ok"] and g["ext_ok"]),
                "model_equal": mask == model}
        rep("findap-numba-vs-default", case,
            {"default": [i for i in range(n) if mask[i]][:40],
             "numba": [i for i in range(n) if mnl[i]][:40], "stol": stol,
             "subtol_drift": drift, "numba_miss": g["miss"]}, tags)


def _bins_spec(r, np, lo, hi, kind):
    """Return (argument for binify, kind).  lo/hi = data range on that axis."""
    if kind == "scalar":
        return int(r.integers(1, 51))
    span = hi - lo if hi > lo else 1.0
    nb_ = int(r.integers(1, 8))
    if kind == "cover":
        a, b = lo - span * float(r.uniform(0.05, 1)), hi + span * float(r.uniform(0.05, 1))
    elif kind == "touch":         # an outer edge exactly on a data extreme
        which = int(r.integers(0, 3))
        if not hi > lo and which == 2:
            which = 0
        a = lo if which in (0, 2) else lo - span * 0.3
        b = hi if which in (1, 2) else hi + span * 0.3
    else:                         # not covering
        which = int(r.integers(0, 3))
        a = lo + span * 0.3 if which in (0, 2) else lo - span * 0.3
        b = hi - span * 0.3 if which in (1, 2) else hi + span * 0.3
        if not a < b:
            a, b = lo + span * 0.1, lo + span * 0.2
    if not a < b:                 # range below the float spacing: widen by one ulp
        a, b = float(np.nextafter(a, -np.inf)), float(np.nextafter(b, np.inf))
    inner = np.sort(r.uniform(a, b, nb_ - 1)) if nb_ > 1 else np.array([])
    if nb_ > 1 and r.random() < 0.5:          # put interior edges on data-like values
        inner = np.unique(np.round(inner * 2) / 2)
        inner = inner[(inner > a) & (inner < b)]
    e = np.concatenate([[a], inner, [b]])
    if np.any(np.diff(e) <= 0):
        e = np.array([a, b])
    return e


def _one_sigcount(sh, rep, cp, cc, np, r, fam, ylist, yin, gen):
    from vf.oracles import astm_rainflow
    sel = cp.ref_findap(ylist, 1e-6)
    peaks = [ylist[i] for i in range(len(ylist)) if sel[i]]
    if len(peaks) < 2 or cp.dedup_zero_step(ylist, 1e-6):
        return
    cyc = astm_rainflow.rainflow(peaks)
    rows = [(c[0], c[1], c[2]) for c in cyc]
    amps = [c[0] for c in rows]
    means = [c[1] for c in rows]
    right = bool(r.integers(0, 2))
    kinds = ["scalar", "scalar", "cover", "touch", "notcover"]
    ka, km = kinds[int(r.integers(0, 5))], kinds[int(r.integers(0, 5))]
    ab = _bins_spec(r, np, min(amps), max(amps), ka)
    mb = _bins_spec(r, np, min(means), max(means), km)
    case = {"family": fam, "gen": gen, "via": "sigcount", "right": right,
            "ampbins": ab, "meanbins": mb,
            "y": ylist if len(ylist) <= 40 else {"len": len(ylist),
                                                 "sha": core.digest(ylist)}}
    ae = cp.auto_edges(ab, max(amps), min(amps), right) if ka == "scalar" else ab
    me = cp.auto_edges(mb, max(means), min(means), right) if km == "scalar" else mb
    below = ((ka == "scalar" and cp.pad_below_ulp(max(amps), min(amps), right))
             or (km == "scalar" and cp.pad_below_ulp(max(means), min(means), right)))
    tags = {"family": fam, "via": "sigcount", "right": right, "amp_kind": ka,
            "mean_kind": km, "auto_pad_below_ulp": bool(below)}
    sh.case(["sigcount", core.digest(ylist), right, core.jsonable(ab),
             core.jsonable(mb)], True)
    sh.count("mon:sigcount-vs-model")
    try:
        tab, ga, gm = cc.sigcount(yin.astype(float), ab, mb, right=right, retbins=True,
                                  use_pandas=False)
    except Exception as e:
        rep("exception:sigcount", case, {"exc": repr(e)[:300]},
            {**tags, "exc_type": type(e).__name__})
        return
    want, _ = cp.interval_table(rows, ae, me, right)
    want = np.array(want, float).reshape(len(me) - 1, len(ae) - 1)
    ok = (np.array_equal(np.asarray(ga, float), np.asarray(ae, float))
          and np.array_equal(np.asarray(gm, float), np.asarray(me, float))
          and np.asarray(tab).shape == want.shape and np.array_equal(tab, want))
    if not ok:
        rep("sigcount-vs-model", case, {"got": tab, "want": want, "ampb": ga,
                                        "meanb": gm}, tags)


# ------------------------------------------------------------------------------------
# binify / getbins

def _tables(sh, params, np):
    from vf.oracles import astm_rainflow
    s = params["slice"]
    r = core.rng(sh.seed, "C10", "tables", s)
    n = 1400 if sh.tier == "quick" else 10000
    for i in range(n):
        fam = i % 10
        L = int(r.integers(2, 50))
        if fam <= 5:
            if fam == 0:
                x = r.integers(-4, 5, L).astype(float)
            elif fam == 1:
                x = r.standard_normal(L)
            elif fam == 2:
                x = np.arange(1, L + 1) * np.where(np.arange(L) % 2 == 0, 1.0, -1.0)
            elif fam == 3:
                x = np.where(np.arange(L) % 2 == 0, 1.0, -1.0) * float(r.integers(1, 9))
            elif fam == 4:
                x = np.cumsum(r.integers(-1, 2, L)).astype(float)
            else:
                x = np.round(r.standard_normal(L) * 3) + float(r.integers(-5, 6)) * 1e6
            keep = np.concatenate([[True], np.diff(x) != 0])
            x = x[keep]
            if x.size < 2:
                x = np.array([0.0, 1.0])
            cyc = astm_rainflow.rainflow(x.tolist())
            rf = np.array([[c[0], c[1], c[2]] for c in cyc], float)
            name = "astm%d" % fam
        elif fam == 6:      # synthetic coarse table: many ties with half-integer edges
            k = int(r.integers(1, 30))
            rf = np.column_stack([r.integers(1, 9, k) / 2.0, r.integers(-6, 7, k) / 2.0,
                                  r.choice([0.5, 1.0], k)])
            name = "synthetic"
        elif fam == 7:      # all amplitudes (and/or means) equal: mx == mn
            k = int(r.integers(1, 12))
            rf = np.column_stack([np.full(k, float(r.choice([1.0, 2.5, 1e9]))),
                                  r.integers(-2, 3, k) * float(r.integers(0, 2)),
                                  r.choice([0.5, 1.0], k)])
            name = "equal-range"
        elif fam == 8:      # (mx-mn)*1e-3 below the spacing of floats at mn
            k = int(r.integers(2, 12))
            a0 = float(r.choice([1.0, 1000.0, 3.3]))
            ulp = np.spacing(a0)
            rf = np.column_stack([a0 + ulp * r.integers(0, 40, k),
                                  float(r.choice([0.0, 1000.0]))
                                  + np.spacing(1000.0) * r.integers(0, 30, k),
                                  r.choice([0.5, 1.0], k)])
            name = "ulp-range"
        else:               # single cycle, extra columns
            rf = np.array([[float(r.integers(1, 5)), float(r.integers(-3, 4)), 0.5,
                            7.0, 9.0]])
            name = "single-row"
        yield i, name, rf, r


def _run_binify(sh, rep, params, cc, nb):
    import numpy as np
    import pandas as pd
    from vf.oracles import cyclepipe as cp
    kinds = ["scalar", "cover", "touch", "notcover"]
    for i, name, rf, r in _tables(sh, params, np):
        rows = [tuple(float(v) for v in row[:3]) for row in rf]
        amps = [q[0] for q in rows]
        means = [q[1] for q in rows]
        amx, amn, mmx, mmn = max(amps), min(amps), max(means), min(means)
        sh.count("tables:" + name)
        for rep_i in range(3):
            q = 3 * i + rep_i                     # mixed-radix strata, all cells filled
            ka, km = kinds[q % 4], kinds[(q // 4) % 4]
            right, cb, up = bool((q // 16) % 2), bool((q // 32) % 2), bool((q // 64) % 2)
            ab = _bins_spec(r, np, amn, amx, ka)
            mb = _bins_spec(r, np, mmn, mmx, km)
            if rep_i == 2 and name != "ulp-range":
                mb, km = 1, "scalar"              # the common call: amplitude bins only
            case = {"slice": params["slice"], "i": i, "table": name, "right": right,
                    "check_bounds": cb, "use_pandas": up, "ampbins": ab,
                    "meanbins": mb, "rf": rf if rf.shape[0] <= 12 else
                    {"rows": int(rf.shape[0]), "sha": core.digest(rf.tolist())}}
            sh.case(["binify", core.digest(rf.tolist()), core.jsonable(ab),
                     core.jsonable(mb), right, cb, up], len(rows) >= 2, sample=case)
            ae = cp.auto_edges(ab, amx, amn, right) if ka == "scalar" else ab
            me = cp.auto_edges(mb, mmx, mmn, right) if km == "scalar" else mb
            cov_a = cp.covers(ae, amx, amn, right)
            cov_m = cp.covers(me, mmx, mmn, right)
            below = ((ka == "scalar" and cp.pad_below_ulp(amx, amn, right))
                     or (km == "scalar" and cp.pad_below_ulp(mmx, mmn, right)))
            tags = {"table": name, "right": right, "check_bounds": cb,
                    "amp_kind": ka, "mean_kind": km, "use_pandas": up,
                    "auto_pad_below_ulp": bool(below)}
            for ax, k_, c_ in (("amp", ka, cov_a), ("mean", km, cov_m)):
                sh.count("bins:%s:%s:right=%d:cb=%d" % (ax, k_, right, cb))
            if below:
                sh.count("cell:auto-pad-below-ulp")
            if amx == amn or mmx == mmn:
                sh.count("cell:mx==mn")
            _getbins_direct(sh, rep, cp, cc, np, case, tags, ab, ka, amx, amn, right)
            # -------- the call ---------------------------------------------------------
            results = {}
            for nm, mod in (("default", cc), ("numba", nb)):
                try:
                    results[nm] = mod.binify(rf, ab, mb, right=right, precision=3,
                                             retbins=True, use_pandas=up,
                                             check_bounds=cb)
                except Exception as e:
                    results[nm] = e
            got = results["default"]
            want, nout = cp.interval_table(rows, ae, me, right)
            want = np.array(want, float).reshape(len(me) - 1, len(ae) - 1)
            covered = cov_a and cov_m
            strict = cb or covered
            if not strict:
                # caller promised coverage (check_bounds=False) and broke the promise:
                # nothing is documented; a cycle can only be added somewhere or raise
                sh.count("mon:binify-unchecked-notcover")
                if isinstance(got, Exception):
                    if not isinstance(got, IndexError):
                        rep("exception:binify", case, {"exc": repr(got)[:300]},
                            {**tags, "exc_type": type(got).__name__})
                else:
                    t = np.asarray(got[0], float)
                    if t.shape != want.shape or np.any(t < want):
                        rep("binify-unchecked-loses-inrange", case,
                            {"got": t, "model": want}, tags)
                continue
            if isinstance(got, Exception):
                sh.count("mon:binify-vs-model")
                rep("exception:binify", case, {"exc": repr(got)[:300]},
                    {**tags, "exc_type": type(got).__name__})
                continue
            tab, ga, gm = got
            sh.count("mon:binify-edges")
            if not (np.array_equal(np.asarray(ga, float), np.asarray(ae, float))
                    and np.array_equal(np.asarray(gm, float), np.asarray(me, float))
                    and np.asarray(ga).ndim == 1 and np.asarray(gm).ndim == 1):
                rep("binify-edges", case, {"ampb": ga, "want_ampb": ae, "meanb": gm,
                                           "want_meanb": me}, tags)
                continue
            if ka == "scalar" or km == "scalar":
                sh.count("mon:auto-bins-cover")
                if below:
                    sh.count("mon:auto-bins-cover-below-ulp")
                if (ka == "scalar" and not cp.covers(ga, amx, amn, right)) or (
                        km == "scalar" and not cp.covers(gm, mmx, mmn, right)):
                    rep("auto-bins-cover", case,
                        {"ampb": ga, "amp_range": [amn, amx], "meanb": gm,
                         "mean_range": [mmn, mmx]}, tags)
            tv = tab.values if up else tab
            sh.count("mon:binify-vs-model")
            if not (isinstance(tv, np.ndarray) and tv.shape == want.shape
                    and np.array_equal(tv, want)):
                rep("binify-vs-model", case, {"got": tv, "want": want, "ampb": ga,
                                              "meanb": gm, "left_out": nout}, tags)
            if covered:
                sh.count("mon:binify-conservation")
                tot = float(sum(q[2] for q in rows))
                if float(np.sum(tv)) != tot:
                    rep("binify-conservation", case,
                        {"table_sum": float(np.sum(tv)), "count_sum": tot}, tags)
            if up:
                sh.count("mon:binify-pandas")
                lo, hi = ("(", "]") if right else ("[", ")")
                good = (isinstance(tab, pd.DataFrame)
                        and tab.columns.name == "Amp" and tab.index.name == "Mean"
                        and len(tab.columns) == len(ae) - 1
                        and len(tab.index) == len(me) - 1
                        and all(str(c).startswith(lo) and str(c).endswith(hi)
                                for c in list(tab.columns) + list(tab.index)))
                if good:
                    c0 = str(tab.columns[0])[1:-1].split(", ")
                    good = (c0 == ["%.3f" % ae[0], "%.3f" % ae[1]])
                if not good:
                    rep("binify-pandas", case, {"columns": list(map(str, tab.columns)),
                                                "index": list(map(str, tab.index))},
                        tags)
            # -------- numba-branch source of _binify / maxmin -----------------------------
            sh.count("mon:binify-numba-vs-default")
            gn = results["numba"]
            if isinstance(gn, Exception):
                rep("exception:binify-numba", case, {"exc": repr(gn)[:300]},
                    {**tags, "path": "numba", "exc_type": type(gn).__name__})
            else:
                tn = gn[0].values if up else gn[0]
                if not (np.array_equal(tn, tv) and np.array_equal(gn[1], ga)
                        and np.array_equal(gn[2], gm)):
                    rep("binify-numba-vs-default", case, {"numba": tn, "default": tv},
                        {**tags, "path": "numba"})
    _getbins_errors(sh, rep, cc)


def _getbins_direct(sh, rep, cp, cc, np, case, tags, spec, kind, mx, mn, right):
    """getbins alone: either argument order, with and without check_bounds."""
    sh.count("mon:getbins")
    want = cp.auto_edges(spec, mx, mn, right) if kind == "scalar" else np.asarray(spec)
    try:
        b1 = cc.getbins(spec, mx, mn, right)
        b2, oob = cc.getbins(spec, mn, mx, right, check_bounds=True)
    except Exception as e:
        rep("exception:getbins", case, {"exc": repr(e)[:300]},
            {**tags, "exc_type": type(e).__name__})
        return
    ok = (np.array_equal(np.asarray(b1, float), np.asarray(want, float))
          and np.array_equal(np.asarray(b2, float), np.asarray(want, float)))
    if not ok:
        rep("getbins-edges", case, {"got": b1, "got_swapped": b2, "want": want}, tags)
        return
    if kind == "scalar":
        if not (len(b1) == int(spec) + 1 and oob is False):
            rep("getbins-edges", case, {"len": len(b1), "out_of_bounds": oob}, tags)
    else:
        # documented: equal mx, mn are reset to mx+0.5, mn-0.5 before anything else
        exp = not (cp.covers(want, mx + 0.5, mn - 0.5, right) if mx == mn
                   else cp.covers(want, mx, mn, right))
        if bool(oob) != exp:
            rep("getbins-out-of-bounds-flag", case,
                {"flag": oob, "expected": exp, "edges": want, "mx": mx, "mn": mn}, tags)


def _getbins_errors(sh, rep, cc):
    for bad in ([1.0, 1.0, 2.0], [3.0, 2.0, 1.0], [0.0, 1.0, 0.5]):
        sh.count("mon:getbins-nonmonotone")
        try:
            cc.getbins(bad, 2.0, 0.0)
        except ValueError:
            continue
        except Exception as e:
            rep("getbins-nonmonotone", {"bins": bad}, {"exc": repr(e)[:200]}, {})
            continue
        rep("getbins-nonmonotone", {"bins": bad}, {"accepted": True}, {})


# ------------------------------------------------------------------------------------
# fdepsd

def _fde_options(sh, params):
    """Deterministic option list for this slice.  quick: cyclic strata (every option
    value and every resp x nbins pair inside any 42 consecutive indices); thorough: the
    full product, dealt over the slices."""
    s, ns = params["slice"], params["nslice"]
    if sh.tier == "quick":
        out = []
        for q in range(12):
            i = s * 12 + q + 72 * (sh.seed % 7)
            out.append({"resp": RESP[i % 2], "nbins": NBINS[(i // 2) % 4],
                        "T0": T0S[i % 3], "rolloff": ROLLOFF[i % 7],
                        "hpfilter": HPF[(i // 7 + i) % 2],
                        "winends": WINENDS[(i // 3) % 3], "idx": i})
        # every slice, every seed: the three runs in which `detrend` / `ppc` decide
        # (no detrending at all; 10 pts/cycle with ppc=8; 15 pts/cycle with ppc=20)
        for idx, roll in ((2, "none"), (22, "lanczos"), (28, "fft")):
            out.append({"resp": RESP[(s + idx) % 2], "nbins": NBINS[s % 4], "T0": T0S[s % 3],
                        "rolloff": roll, "hpfilter": None, "winends": None, "idx": idx})
        return out
    prod = list(itertools.product(RESP, NBINS, T0S, ROLLOFF, HPF, WINENDS))
    r = core.rng(sh.seed, "C10", "fde-product")
    out = []
    for rec in range(2):                      # the full product on two sets of records
        order = r.permutation(len(prod))
        for pos, k in enumerate(order):
            if pos % ns == s:
                p = prod[int(k)]
                out.append({"resp": p[0], "nbins": p[1], "T0": p[2], "rolloff": p[3],
                            "hpfilter": p[4], "winends": p[5],
                            "idx": int(k) + rec * len(prod)})
    return out


def _callable_roll(sig, sr, ppc, frq):
    import numpy as np
    factor = int(np.ceil(ppc / (sr / frq)))
    n = sig.shape[0]
    t = np.arange(n)
    tn = np.arange((n - 1) * factor + 1) / factor
    return np.interp(tn, t, sig), sr * factor


def _run_fdepsd(sh, rep, params, cc):
    import numpy as np
    import pyyeti.fdepsd as fd
    from vf.oracles import cyclepipe as cp
    opts = _fde_options(sh, params)
    for q, o in enumerate(opts):
        r = core.rng(sh.seed, "C10", "fde", params["slice"], o["idx"])
        _one_fdepsd(sh, rep, cp, cc, fd, np, r, o, params)
    _fde_injected(sh, rep, cp, cc, fd, np, params)


def _record(r, np, o):
    sr = float(r.choice([256.0, 500.0, 1000.0]))
    dur = int(r.integers(1, 5))
    n = int(sr * dur) + int(r.integers(0, 2))          # even and odd lengths
    t = np.arange(n) / sr
    sig = r.standard_normal(n)
    sig += float(r.uniform(0, 2)) * np.sin(2 * np.pi * float(r.uniform(10, 40)) * t)
    sig += float(r.uniform(-1, 1)) + float(r.uniform(-1, 1)) * t      # offset + trend
    up = (o["idx"] // 7) % 5                            # 0: no up-sampling needed
    fmax = sr / [20.0, 6.5, 3.4, 10.0, 15.0][up]        # 10, 15: decided by `ppc` (8 / 20)
    freq = np.unique(np.round([10.0 + float(r.uniform(0, 5)), fmax / 2.7, fmax], 3))
    if o["idx"] % 4 == 1:
        # analysis frequencies typed in as whole numbers (np.arange(20, 60, 10)): an
        # integer dtype must not leak into the result arrays
        fi = np.unique(np.round(freq)).astype(np.int64)
        if fi.size >= 2 and fi.min() > 0:
            freq = fi
    Q = float(r.choice([5.0, 10.0, 25.0, 50.0]))
    return sig, sr, freq, Q


def _ppc(o):
    return [12, 12, 8, 20, 12][o["idx"] % 5]


def _detrend(o):
    return o["idx"] % 3 != 2


def _kwargs(o):
    kw = {"resp": o["resp"], "nbins": o["nbins"], "T0": o["T0"],
          "hpfilter": o["hpfilter"], "parallel": "no", "ppc": _ppc(o)}
    if not _detrend(o):
        kw["detrend"] = False
    kw["rolloff"] = _callable_roll if o["rolloff"] == "callable" else o["rolloff"]
    if o["winends"] == "dict":
        kw["winends"] = ({"portion": 20, "ends": "both"} if o["idx"] % 2
                         else {"portion": 0.1})
    else:
        kw["winends"] = o["winends"]
    return kw


def _rel(a, b):
    import numpy as np
    a, b = np.asarray(a, float), np.asarray(b, float)
    with np.errstate(divide="ignore", invalid="ignore"):
        d = np.abs(a - b) / np.maximum(np.abs(b), 1e-300)
    d = np.where((a == b), 0.0, d)
    return d


def _one_fdepsd(sh, rep, cp, cc, fd, np, r, o, params):
    from vf.oracles import astm_rainflow
    sig, sr, freq, Q = _record(r, np, o)
    kw = _kwargs(o)
    resp, nbins, T0 = o["resp"], o["nbins"], o["T0"]
    case = {"slice": params["slice"], "options": o, "sr": sr, "n": int(sig.size),
            "freq": freq.tolist(), "Q": Q,
            "regen": "core.rng(seed,'C10','fde',slice,options.idx) -> _record"}
    tags = {"resp": resp, "nbins": nbins, "T0": T0, "rolloff": str(o["rolloff"]),
            "hpfilter": o["hpfilter"], "winends": str(o["winends"])}
    sh.case(["fdepsd", o, core.digest(sig[:16].tolist())], True, sample=case)
    for k_ in ("resp", "nbins", "T0", "rolloff", "hpfilter", "winends"):
        sh.count("opt:%s=%s" % (k_, o[k_]))
    sh.count("opt:resp=%s,nbins=%s" % (resp, nbins))
    sig_keep, freq_keep = np.array(sig, copy=True), np.array(freq, copy=True)
    try:
        fde = fd.fdepsd(sig, sr, freq, Q, **kw)
    except Exception as e:
        rep("exception:fdepsd", case, {"exc": repr(e)[:400]},
            {**tags, "exc_type": type(e).__name__})
        return
    sh.count("mon:fde-inputs-unmutated")
    if not (np.array_equal(sig, sig_keep) and np.array_equal(freq, freq_keep)
            and freq.dtype == freq_keep.dtype):
        rep("fde-inputs-unmutated", case, {"sig_changed": bool(not np.array_equal(
            sig, sig_keep))}, tags)
    LF = freq.size
    psd = fde.psd.values
    pk = fde.peakamp.values
    ba = fde.binamps.values
    cnt = fde.count.values
    bc = fde.bincount.values
    dis = fde.di_sig.values
    dit = fde.di_test.values
    vt = fde.var_test.values
    srsv = np.asarray(fde.srs.values, float)
    varv = np.asarray(fde.var.values, float)
    B = np.array([4.0, 8.0, 12.0])

    # -- shapes / labels -----------------------------------------------------------------
    sh.count("mon:fde-shapes")
    ok = (psd.shape == (LF, 5) and pk.shape == (LF, 5) and ba.shape == (LF, nbins)
          and cnt.shape == (LF, nbins) and bc.shape == (LF, nbins)
          and dis.shape == (LF, 3) and dit.shape == (LF, 3) and vt.shape == (LF, 3)
          and list(fde.psd.columns) == ["G1", "G2", "G4", "G8", "G12"]
          and np.array_equal(np.asarray(fde.psd.index, float), freq)
          and np.array_equal(fde.freq, freq) and fde.resp == resp
          and fde.parallel == "no")
    if not ok:
        rep("fde-shapes", case, {"psd": psd.shape, "count": cnt.shape}, tags)
        return
    finite = all(np.all(np.isfinite(a)) for a in (psd, pk, ba, cnt, bc, dis, dit, vt))
    sh.count("mon:fde-finite")
    if not finite:
        rep("fde-finite", case, {"psd": psd, "var_test": vt}, tags)
        return

    # -- counts ----------------------------------------------------------------------------
    sh.count("mon:fde-count-monotone")
    if nbins > 1 and np.any(np.diff(cnt, axis=1) > 0):
        rep("fde-count-monotone", case, {"count_head": cnt[:, :8]}, tags)
    sh.count("mon:fde-bincount")
    want_bc = np.hstack([cnt[:, :-1] - cnt[:, 1:], cnt[:, -1:]])
    if not (np.array_equal(bc, want_bc) and np.all(bc >= 0)
            and np.array_equal(bc.sum(axis=1), cnt[:, 0]) and np.all(cnt[:, -1] >= 0.5)):
        rep("fde-bincount", case, {"bincount_tail": bc[:, -4:], "count_tail": cnt[:, -4:],
                                   "sum": bc.sum(axis=1), "count0": cnt[:, 0]}, tags)
    want_ba = (np.arange(nbins, dtype=float) / nbins)[None, :] * pk[:, :1]
    sh.check_close("fde-binamps", ba, want_ba, 4 * np.spacing(np.abs(want_ba)) , case,
                   tags)
    # -- amplitude / srs / G2 >= G1 -----------------------------------------------------------
    sh.count("mon:fde-amp-le-srs")
    if np.any(pk[:, 0] > srsv) or np.any(pk[:, 0] <= 0):
        rep("fde-amp-le-srs", case, {"amax": pk[:, 0], "srs": srsv}, tags)
    sh.count("mon:fde-g2-ge-g1")
    if not (np.all(psd[:, 1] >= psd[:, 0]) and np.all(pk[:, 1] >= pk[:, 0])):
        rep("fde-g2-ge-g1", case, {"G1": psd[:, 0], "G2": psd[:, 1]}, tags)
    if np.any(psd[:, 1] > psd[:, 0] * (1 + 1e-9)):
        sh.count("cell:g2-above-g1")
    _g2_geometry(sh, rep, np, case, tags, ba, cnt, pk)

    # -- damage indicators -------------------------------------------------------------------
    want_di = np.array([[float(np.dot(ba[j] ** b, bc[j])) for b in B]
                        for j in range(LF)])
    sh.check_close("fde-di-sig", dis, want_di, 1e-11 * np.abs(want_di), case, tags)
    if nbins > 1:
        sh.count("mon:fde-var-test-damage")
        ratio = vt ** (B / 2) * dit / dis
        bad = np.abs(ratio - 1) > 1e-9
        if bad.any():
            rep("fde-var-test-damage", case, {"ratio": ratio}, tags)
        else:
            sh.worst("fde-var-test-damage", np.abs(ratio - 1).max() / 1e-9)
        # independent: PSD level whose T0-second Rayleigh damage equals di_sig
        Dth = np.array([[cp.test_damage(f, T0, b, resp) for b in B] for f in freq])
        s2 = (dis / Dth) ** (2 / B)
        wantG = np.array([[s2[j, c] / cp.miles_variance(1.0, freq[j], Q, resp)
                           for c in range(3)] for j in range(LF)])
        sh.check_close("fde-psd-damage-equivalence", psd[:, 2:], wantG,
                       1e-9 * np.abs(wantG), case, tags)
    else:
        sh.count("mon:fde-nbins1")
        if np.any(dis != 0) or np.any(psd[:, 2:] != 0) or np.any(psd[:, 1] != psd[:, 0]):
            rep("fde-nbins1", case, {"di_sig": dis, "psd": psd}, tags)
    # G1 from the documented Miles-type relation, peakamp <-> psd for every column
    lnN0 = np.log(freq * T0)
    wantG1 = np.array([pk[j, 0] ** 2 / (2 * lnN0[j])
                       / cp.miles_variance(1.0, freq[j], Q, resp) for j in range(LF)])
    sh.check_close("fde-g1-miles", psd[:, 0], wantG1, 1e-12 * wantG1, case, tags)
    want_pk = np.sqrt(2 * lnN0[:, None] * np.array(
        [[cp.miles_variance(psd[j, c], freq[j], Q, resp) for c in range(5)]
         for j in range(LF)]))
    sh.check_close("fde-peakamp-vs-psd", pk, want_pk, 1e-12 * np.abs(want_pk) + 1e-300,
                   case, tags)

    # -- independent recomputation from fde.sig / fde.sr ----------------------------------------
    osig = np.asarray(fde.sig, float)
    osr = float(fde.sr)
    for j in range(LF):
        y = cp.sdof_response(osig, osr, freq[j], Q, resp)
        ymax = float(np.abs(y).max())
        sh.check_close("fde-srs-vs-oracle", srsv[j], ymax, 1e-8 * ymax, case, tags)
        v = float(np.var(y, ddof=1))
        sh.check_close("fde-var-vs-oracle", varv[j], v, 1e-8 * v, case, tags)
        yl = y.tolist()
        counts = []
        for t_ in (1e-6, 1e-6 * (1 + 1e-5), 1e-6 * (1 - 1e-5)):
            sel = cp.ref_findap(yl, t_)
            counts.append(sum(sel))
        if len(set(counts)) != 1:
            sh.refused += 1
            sh.count("refused:fde-count-borderline")
            continue
        sel = cp.ref_findap(yl, 1e-6)
        peaks = [yl[i] for i in range(len(yl)) if sel[i]]
        cyc = astm_rainflow.rainflow(peaks)
        amp = np.array([c[0] for c in cyc])
        cn = np.array([c[2] for c in cyc])
        sh.check_equal("fde-total-count", float(cnt[j, 0]), float(cn.sum()),
                       {**case, "freq_index": j}, tags)
        sh.check_close("fde-amax-vs-oracle", pk[j, 0], amp.max(), 1e-8 * amp.max(),
                       case, tags)
        # whole cumulative row, allowing cycles within 1e-6 of an edge to fall either way
        sh.count("mon:fde-count-row")
        hi = np.array([cn[amp >= e * (1 - 2e-6)].sum() for e in ba[j]])
        lo = np.array([cn[amp >= e * (1 + 2e-6)].sum() for e in ba[j]])
        if np.any(cnt[j] > hi) or np.any(cnt[j] < lo):
            k_ = int(np.argmax((cnt[j] > hi) | (cnt[j] < lo)))
            rep("fde-count-row", {**case, "freq_index": j},
                {"bin": k_, "count": cnt[j, k_], "lo": lo[k_], "hi": hi[k_]}, tags)

    # -- preprocessing / sample rate ---------------------------------------------------------------
    _preprocessing(sh, rep, cp, np, case, tags, sig, sr, freq, o, kw, fde)

    # -- amplitude scaling by a power of two ----------------------------------------------------------
    k = float(2.0 ** int(r.choice([-3, 1, 4, 10])))
    try:
        f2 = fd.fdepsd(sig * k, sr, freq, Q, **kw)
    except Exception as e:
        rep("exception:fdepsd", {**case, "scaled_by": k}, {"exc": repr(e)[:400]},
            {**tags, "exc_type": type(e).__name__})
        return
    sh.count("mon:fde-scale-counts")
    if not (np.array_equal(f2.count.values, cnt) and np.array_equal(f2.bincount.values, bc)
            and np.array_equal(f2.binamps.values, ba * k)
            and np.array_equal(np.asarray(f2.sig), osig * k) and f2.sr == fde.sr):
        rep("fde-scale-counts", {**case, "scaled_by": k},
            {"count_equal": bool(np.array_equal(f2.count.values, cnt)),
             "sig_equal": bool(np.array_equal(np.asarray(f2.sig), osig * k))}, tags)
    for name, a2, a1, p in (("psd", f2.psd.values, psd, 2), ("peakamp", f2.peakamp.values,
                                                             pk, 1),
                            ("var_test", f2.var_test.values, vt, 2),
                            ("srs", f2.srs.values, srsv, 1), ("var", f2.var.values,
                                                              varv, 2)):
        sh.check_close("fde-scale-" + name, a2, a1 * k ** p, 1e-12 * np.abs(a1) * k ** p,
                       {**case, "scaled_by": k}, tags)
    sh.check_close("fde-scale-di_sig", f2.di_sig.values, dis * k ** B,
                   1e-12 * np.abs(dis) * k ** B, {**case, "scaled_by": k}, tags)
    sh.check_close("fde-scale-di_test", f2.di_test.values, dit, 1e-14 * np.abs(dit),
                   {**case, "scaled_by": k}, tags)


def _g2_geometry(sh, rep, np, case, tags, ba, cnt, pk):
    """G2 'bounds G1 and the lower-amplitude counts down to 1/3 of the maximum cycle
    amplitude': in the (amp^2, ln count) plane the line from (0, ln count0) to
    (peakamp.G2^2, 0) lies on or above every bin at amplitude >= Amax/3, and touches one
    of them when G2 > G1."""
    for j in range(ba.shape[0]):
        if cnt[j, 0] < 2 or ba.shape[1] < 2:
            continue
        amax, g2 = pk[j, 0], pk[j, 1]
        inr = ba[j] > amax / 3 * (1 + 1e-9)
        if not inr.any() or g2 <= 0:
            continue
        sh.count("mon:fde-g2-bounds-counts")
        y1 = np.log(cnt[j, 0])
        x = ba[j, inr] ** 2
        y = np.log(cnt[j, inr])
        line = y1 * (1 - x / g2 ** 2)
        slack = line - y
        tol = 1e-9 * y1
        if np.any(slack < -tol):
            rep("fde-g2-bounds-counts", {**case, "freq_index": j},
                {"worst_slack": float(slack.min()), "G1amp": amax, "G2amp": g2}, tags)
        elif g2 > amax * (1 + 1e-9):
            # touching bin may also be the one sitting numerically at Amax/3
            edge = np.abs(ba[j] - amax / 3) <= amax / 3 * 1e-9
            xe, ye = ba[j, edge] ** 2, np.log(cnt[j, edge])
            se = y1 * (1 - xe / g2 ** 2) - ye
            if not (np.any(np.abs(slack) <= tol) or np.any(np.abs(se) <= tol)):
                rep("fde-g2-bounds-counts", {**case, "freq_index": j},
                    {"not_tight": float(np.abs(slack).min()), "G1amp": amax,
                     "G2amp": g2}, tags)


def _preprocessing(sh, rep, cp, np, case, tags, sig, sr, freq, o, kw, fde):
    import scipy.signal as ss
    ppc = _ppc(o)
    sh.count("opt:ppc=%d" % ppc)
    sh.count("opt:detrend=%s" % _detrend(o))
    curppc = sr / freq.max()
    roll = o["rolloff"]
    upsampled = roll not in ("none", None, "prefilter") and curppc < ppc
    factor = int(np.ceil(ppc / curppc)) if upsampled else 1
    sh.count("mon:fde-sample-rate")
    if upsampled:
        sh.count("cell:upsampled")
    if float(fde.sr) != sr * factor:
        rep("fde-sample-rate", case, {"sr_out": fde.sr, "expected": sr * factor}, tags)
    if upsampled or roll == "prefilter":
        return
    x = np.asarray(sig, float)
    win, hp = kw["winends"], kw["hpfilter"]
    if _detrend(o) or win is not None or hp is not None:
        x = ss.detrend(x)     # documented: also whenever the ends are windowed / filtered
    else:
        sh.count("cell:fde-not-detrended")
    n = x.size
    if win == "auto":
        x = x * cp.front_window(n, min(int(0.25 * sr), 50, n))
    elif isinstance(win, dict):
        p = win["portion"]
        npts = max(3, int(p * n) if p <= 1 else int(p))
        w = cp.front_window(n, npts)
        if win.get("ends", "front") == "both":
            w = w * w[::-1]
        x = x * w
    if hp is not None:
        b, a = ss.butter(3, hp / (sr / 2), "high")
        x = ss.lfilter(b, a, x)
    got = np.asarray(fde.sig, float)
    sh.check_close("fde-preprocessing", got, x, 1e-12 * np.abs(x).max(), case, tags)


def _fde_injected(sh, rep, cp, cc, fd, np, params):
    """fdepsd with the cycle table under harness control (fdepsd's view of
    ``cyclecount.rainflow`` replaced for the call): cycles sit exactly on bin edges, so
    the documented 'cycles at the binamps amplitude and above' is observable."""
    import pandas as pd
    r = core.rng(sh.seed, "C10", "fde-inj", params["slice"])
    real = fd.cyclecount
    nrun = 6 if sh.tier == "quick" else 30
    for q in range(nrun):
        nbins = [2, 4, 8, 16, 7, 300][q % 6]
        resp = RESP[(q // 2) % 2]
        T0 = T0S[q % 3]
        amax = float(r.choice([4.0, 16.0, 0.5]))
        m = int(r.integers(3, 40))
        grid = np.arange(1, (nbins if nbins <= 16 else 16) + 1) / (
            nbins if nbins <= 16 else 16)
        amp = np.concatenate([r.choice(grid, m), [0.1, 1.0]]) * amax
        if q % 2:
            amp[: m // 2] *= float(r.uniform(0.3, 1.0))        # some off-grid cycles
        count = np.concatenate([r.choice([0.5, 1.0], m), [1.0, 0.5]])
        few = None
        if q % 3 == 2:
            # response with only a handful of reversal points (a short shock seen by a
            # low-frequency oscillator): total cycle counts of 0.5, 1.0, 1.5
            few = int(r.integers(0, 6))
            amp = amax * np.array([[1.0], [1.0, 1.0], [1.0, 0.5], [1.0],
                                   [1.0, 0.75, 0.4], [0.6, 1.0]][few])
            count = np.array([[1.0], [0.5, 0.5], [0.5, 0.5], [0.5],
                              [0.5, 0.5, 0.5], [1.0, 0.5]][few])
            sh.count("cell:injected-few-cycles:total=%g" % count.sum())
        table = pd.DataFrame({"amp": amp, "mean": np.zeros(amp.size), "count": count})
        sr = 256.0
        sig = r.standard_normal(300)
        freq = np.array([12.0, 20.0])
        Q = 10.0
        case = {"injected_table": {"amp": amp, "count": count}, "nbins": nbins,
                "resp": resp, "T0": T0}
        tags = {"resp": resp, "nbins": nbins, "T0": T0, "injected": True}
        sh.case(["fde-injected", amp.tolist(), count.tolist(), nbins, resp, T0], True)
        fd.cyclecount = types.SimpleNamespace(findap=real.findap,
                                              rainflow=lambda peaks: table.copy())
        try:
            fde = fd.fdepsd(sig, sr, freq, Q, resp=resp, nbins=nbins, T0=T0,
                            parallel="no")
        except Exception as e:
            rep("exception:fdepsd", case, {"exc": repr(e)[:400]},
                {**tags, "exc_type": type(e).__name__})
            continue
        finally:
            fd.cyclecount = real
        ba, cnt, bc = fde.binamps.values, fde.count.values, fde.bincount.values
        # NaN nowhere; +inf only in the G2 columns and only where the documented G2 line
        # is horizontal (a bin at >= Amax/3 holds every cycle, so the line through
        # (0, ln total) and that bin never reaches ln count = 0): G2 >= G1 and the
        # amplitude-squared scaling still hold for it, so the property does not exclude it
        sh.count("mon:fde-finite")
        P, K = fde.psd.values.astype(float), fde.peakamp.values.astype(float)
        horiz = np.array([bool(np.any((ba[j] >= K[j, 0] / 3) & (cnt[j] == cnt[j, 0])
                                      & (cnt[j, 0] != 1.0))) for j in range(freq.size)])
        okinf = np.zeros(P.shape, bool)
        okinf[:, 1] = horiz
        bad_ = False
        for a in (P, K):
            if np.any(np.isnan(a)) or np.any(np.isinf(a) & ~(okinf & (a > 0))):
                bad_ = True
        for a in (fde.di_sig, fde.di_test, fde.var_test):
            if not np.all(np.isfinite(np.asarray(a.values, float))):
                bad_ = True
        if bad_:
            rep("fde-finite", case, {"psd": P, "peakamp": K, "horizontal_g2_line": horiz},
                tags)
            continue
        if np.any(np.isinf(P[:, 1])):
            sh.count("cell:injected-g2-infinite-horizontal-line")
        sh.count("mon:fde-g2-ge-g1")
        if not (np.all(P[:, 1] >= P[:, 0]) and np.all(K[:, 1] >= K[:, 0])):
            rep("fde-g2-ge-g1", case, {"G1": P[:, 0], "G2": P[:, 1]}, tags)
        ties = 0
        sh.count("mon:fde-injected-count")
        for j in range(freq.size):
            want = np.array([sum(c for a, c in zip(amp.tolist(), count.tolist())
                                 if a >= e) for e in ba[j].tolist()])
            ties += sum(1 for e in ba[j].tolist() if e > 0 and e in set(amp.tolist()))
            wbc = np.concatenate([want[:-1] - want[1:], want[-1:]])
            if not (np.array_equal(cnt[j], want) and np.array_equal(bc[j], wbc)
                    and fde.peakamp.values[j, 0] == amp.max()):
                rep("fde-injected-count", {**case, "freq_index": j},
                    {"count": cnt[j][:20], "want": want[:20]}, tags)
        if ties:
            sh.count("cell:injected-edge-ties")
        B = np.array([4.0, 8.0, 12.0])
        want_di = np.array([[sum((e ** b) * c for e, c in zip(ba[j].tolist(),
                                                               bc[j].tolist()))
                             for b in B] for j in range(freq.size)])
        sh.check_close("fde-di-sig", fde.di_sig.values, want_di, 1e-11 * np.abs(want_di),
                       case, tags)
        Dth = np.array([[cp.test_damage(f, T0, b, resp) for b in B] for f in freq])
        s2 = (want_di / Dth) ** (2 / B)
        wantG = np.array([[s2[j, c] / cp.miles_variance(1.0, freq[j], Q, resp)
                           for c in range(3)] for j in range(freq.size)])
        sh.check_close("fde-psd-damage-equivalence", fde.psd.values[:, 2:], wantG,
                       1e-9 * np.abs(wantG), case, tags)
        _g2_geometry(sh, rep, np, case, tags, ba, cnt, fde.peakamp.values)


# ------------------------------------------------------------------------------------

def finalize(agg, tier):
    why = []
    c = agg["counters"]
    if not c.get("numba-branch-loaded"):
        why.append("numba-branch source never loaded")
    need = ["findap-shape", "findap-starts-at-0", "findap-alternation", "findap-extreme",
            "findap-default-vs-model", "findap-numba-vs-default", "sigcount-vs-model",
            "getbins", "getbins-nonmonotone", "binify-edges", "auto-bins-cover",
            "auto-bins-cover-below-ulp",
            "binify-vs-model", "binify-conservation", "binify-pandas",
            "binify-numba-vs-default", "binify-unchecked-notcover",
            "fde-shapes", "fde-count-monotone", "fde-bincount", "fde-binamps",
            "fde-amp-le-srs", "fde-g2-ge-g1", "fde-g2-bounds-counts", "fde-di-sig",
            "fde-var-test-damage", "fde-psd-damage-equivalence", "fde-nbins1",
            "fde-g1-miles", "fde-peakamp-vs-psd", "fde-srs-vs-oracle",
            "fde-var-vs-oracle", "fde-total-count", "fde-amax-vs-oracle",
            "fde-count-row", "fde-sample-rate", "fde-preprocessing",
            "fde-scale-counts", "fde-scale-psd", "fde-scale-di_sig",
            "fde-injected-count"]
    for k in need:
        if not c.get("mon:" + k):
            why.append(f"monitor {k} never evaluated")
    cells = (["family:" + f for f in FAMILIES + ["exhaustive"]]
             + ["tol:%g" % t for t in TOLS]
             + ["length:1", "length:2", "length:3", "cell:constant",
                "cell:subtol-drift-exceeds-tol", "cell:dedup-zero-step",
                "cell:first-change-is-last", "cell:input-2d", "cell:input-int",
                "cell:mx==mn", "cell:auto-pad-below-ulp", "cell:g2-above-g1",
                "cell:upsampled", "cell:injected-edge-ties"]
             + ["bins:%s:%s:right=%d:cb=%d" % (ax, k, rt, cb)
                for ax in ("amp", "mean") for k in ("scalar", "cover", "touch",
                                                     "notcover")
                for rt in (0, 1) for cb in (0, 1)]
             + ["opt:resp=%s" % v for v in RESP] + ["opt:nbins=%s" % v for v in NBINS]
             + ["opt:T0=%s" % v for v in T0S] + ["opt:rolloff=%s" % v for v in ROLLOFF]
             + ["opt:hpfilter=%s" % v for v in HPF]
             + ["opt:winends=%s" % v for v in WINENDS]
             + ["opt:resp=%s,nbins=%s" % (a, b) for a in RESP for b in NBINS])
    for k in cells:
        if not c.get(k):
            why.append(f"coverage cell {k} empty")
    ref = agg.get("refused", 0)
    if ref > 0.05 * max(1, c.get("mon:fde-srs-vs-oracle", 0)):
        why.append(f"{ref} fdepsd count recomputations refused as borderline")
    return why


def evidence_extra(agg, tier):
    c = agg["counters"]
    return {
        "fdepsd_option_values_hit": {k[4:]: v for k, v in sorted(c.items())
                                     if k.startswith("opt:")},
        "throttled_reports": {k[10:]: v for k, v in c.items()
                              if k.startswith("throttled:")},
        "numba_branch": "executed as plain Python under an identity stub",
    }
