"""C14 -- coordinate systems and rigid-body geometry: build_coords / mkusetcoordinfo /
addgrid / getcoordinates / mkcordcardinfo / rbgeom / rbgeom_uset / rbmove / rbcoords /
formrbe3 / replace_basic_cs against vf/oracles/coordsys.py (CORD2R/C/S chains resolved
from the A-B-C definition, displacement triads built from cross products).
"""
import math

from vf import core

ID = "C14"
LEVEL = "exploration"
RULE = ("geometry cases = chain of 1-6 CORD2R/C/S (random type mix, reference = previous/"
        "earlier/basic, A-B-C guarded against collinearity), model scale 0.1..3000, 2-8 "
        "grids each entered in any system and output in any system (>= 2e-3 x model size "
        "off every polar axis it is expressed in; a separate class ON the axes is only "
        "required not to raise), SPOINTs and q-set grids interleaved, three construction "
        "routes (build_coords+coordref, incremental 4x3 cards, systems found in the uset "
        "only), reference point as grid id and as xyz; RBE3 cases = dependent grid + 2-10 "
        "independent grids in 1-3 weight/DOF groups (123/12356/123456/...), dependent DOF "
        "123456/123/135, optional UM list, only configurations with cond(scaled rb_ind) < "
        "1e3.  distinct = digest of the generated inputs; non-trivial = at least one "
        "non-rectangular system or a chain deeper than one (geometry), every RBE3 case")
ASSUMPTIONS = [
    "CORD2x semantics are those of the docstrings / QRG: A origin, B on +z, C in the +x "
    "half of the xz-plane, angles in degrees, spherical theta measured from +z",
    "tolerance per quantity = 0.444 x spread of the ORACLE under 1e-13 relative input "
    "perturbations (3 copies) + 2e-13 x scale (DESIGN 4.2); conditioning never taken "
    "from pyYeti output, except cond of the pivot block of the UM step of formrbe3, "
    "which is read from the non-UM matrix after that matrix passed its own monitor",
    "replace_basic_cs is judged against its docstring: new_location = T @ old + A",
    "rows of c-set grids are not judged (docstring mentions 'left over c-set' zeros)",
]
MIN_NONTRIVIAL = {"quick": 1200, "thorough": 20000}
TIMEOUT = {"quick": 1800, "thorough": 10800}
NSHARD = {"quick": 16, "thorough": 16}
NGEO = {"quick": 1500, "thorough": 24000}
NRBE = {"quick": 900, "thorough": 12000}
FLOOR = 2e-13
PERT = 1e-13
KFAC = 200 * 2.220446049250313e-16 / PERT


def shards(tier, seed):
    n = NSHARD[tier]
    return [{"slice": s, "nslice": n} for s in range(n)]


def _allow(sh, key, n=6):
    # every finding these classes were rationed for has been repaired in the repository
    # (known_findings.json "fixed"): the classes are generated without a cap again
    sh.count("cell:finding-class-" + key)
    return True


# ------------------------------------------------------------------------------------
# generators (oracle-side only)
# ------------------------------------------------------------------------------------

def _rand_coords(r, ctype, L, onaxis=False):
    """Native coordinates of a random point of size ~L in a system of type ctype."""
    # special values on purpose: exact zeros and quadrant angles are where branch tests
    # (s > c, x != 0, abs(y) + abs(x) > tol ...) change sides; none of them is a singular
    # location (only the polar axis is)
    special = r.random() < 0.25
    quad = [-180.0, -90.0, 0.0, 90.0, 180.0, 270.0, 360.0]
    if ctype == 1:
        x = [float(v) for v in r.standard_normal(3) * L]
        if special:
            x[int(r.integers(3))] = 0.0
            if r.random() < 0.3:
                x[int(r.integers(3))] = 0.0
        return x
    if ctype == 2:
        R = 0.0 if onaxis else float(r.uniform(0.05, 2.0) * L)
        az = quad[int(r.integers(len(quad)))] if special else float(r.uniform(-200, 380))
        z = 0.0 if (special and r.random() < 0.3) else float(r.standard_normal() * L)
        return [R, az, z]
    R = float(r.uniform(0.05, 2.0) * L)
    th = float(r.uniform(0.5, 179.5))
    if special and r.random() < 0.4:
        th = 90.0
    if special and not onaxis:
        return [R, th, quad[int(r.integers(len(quad)))]]
    if onaxis:
        u = r.random()
        if u < 0.3:
            R = 0.0
        elif u < 0.65:
            th = 0.0
        else:
            th = 180.0
    return [R, th, float(r.uniform(-200, 380))]


def _gen_chain(r, cs, L, nsys=None, ids=None):
    """List of cards (cid, type, ref, A, B, C) in definition order."""
    import numpy as np
    nsys = nsys if nsys is not None else int(r.integers(1, 7))
    ids = ids or [int(x) for x in r.choice(np.arange(1, 400), nsys, replace=False)]
    cards = []
    for k in range(nsys):
        u = r.random()
        ref = 0 if (k == 0 or u < 0.15) else cards[k - 1][0] if u < 0.8 \
            else cards[int(r.integers(0, k))][0]
        ctype = int(r.integers(1, 4))
        for _ in range(200):
            done = cs.resolve(cards)
            rt = done[ref]["type"]
            A = _rand_coords(r, rt, L)
            B = _rand_coords(r, rt, L)
            C = _rand_coords(r, rt, L)
            a, b, c = (cs.to_basic(done[ref], p) for p in (A, B, C))
            sn, mn = cs.collinearity(a, b, c)
            if sn > 0.3 and mn > 0.3 * L:
                break
        else:
            raise RuntimeError("could not generate a non-collinear card")
        cards.append((ids[k], ctype, ref, A, B, C))
    return cards


def _perturb(r, v):
    import numpy as np
    v = np.asarray(v, float)
    return (v * (1 + PERT * r.uniform(-1, 1, v.shape))).tolist()


def _oracle_eval(cs, cards, grids, ref):
    """Everything the monitors need, from the inputs alone."""
    import numpy as np
    sy = cs.resolve(cards)
    out = {"sys": sy, "x": {}, "L": {}, "rho": {}}
    for g in grids:
        x = cs.to_basic(sy[g["cin"]], g["q"])
        out["x"][g["id"]] = x
        out["L"][g["id"]] = cs.triad(sy[g["cout"]], x)
        out["rho"][g["id"]] = min(cs.axis_distance(sy[g["cout"]], x),
                                  cs.axis_distance(sy[g["cin"]], x))
    p = np.asarray(ref, float)
    out["ref"] = p
    out["rb"] = {}
    for g in grids:
        L = out["L"][g["id"]]
        out["rb"][g["id"]] = None if L is None else \
            cs.rigid_block(L, out["x"][g["id"]] - p)
    return out


def _spread(np, base, perts, get):
    """max over perturbed copies of max|difference| of quantity get(o)."""
    b = get(base)
    if b is None:
        return None
    s = 0.0
    for p in perts:
        q = get(p)
        if q is None:
            return None
        s = max(s, float(np.max(np.abs(np.asarray(q) - np.asarray(b)))))
    return s


# ------------------------------------------------------------------------------------
# geometry family
# ------------------------------------------------------------------------------------

def _card43(card):
    import numpy as np
    return np.array([[card[0], card[1], card[2]], card[3], card[4], card[5]], float)


def _geo_case(sh, n2p, pd, np, cs, i):
    r = core.rng(sh.seed, "C14", "geo", i)
    L = float(10 ** r.uniform(-1, 3.5))
    if i % 4 == 3:
        # the same geometry in a large length unit (a part some mm across described in
        # km): rigid-body geometry is equivariant under a change of the unit of length
        L = float(10 ** r.uniform(-4.5, -2))
        sh.count("cell:geo-small-length-unit")
    cards = _gen_chain(r, cs, L)
    sy = cs.resolve(cards)
    cids = [c[0] for c in cards]
    cardof = {c[0]: c for c in cards}
    mag0 = max(float(np.max(np.abs(s["o"]))) for s in sy.values()) + L
    route = ("build_coords", "incremental", "uset-only")[i % 3]
    ng = int(r.integers(2, 8))
    gids = [int(x) for x in r.choice(np.arange(1, 3000), ng + len(cids) + 4, replace=False)]
    grids = []

    def make_grid(gid, cin, cout, onaxis):
        for _ in range(300):
            ax_in = onaxis == "in" and sy[cin]["type"] != 1
            q = _rand_coords(r, sy[cin]["type"], L, onaxis=ax_in)
            x = cs.to_basic(sy[cin], q)
            if onaxis == "out" and sy[cout]["type"] != 1:
                # put the point exactly on the output system's z axis: enter it in
                # that same system
                cin = cout
                q = _rand_coords(r, sy[cin]["type"], L, onaxis=True)
                x = cs.to_basic(sy[cin], q)
                return {"id": gid, "cin": cin, "cout": cout, "q": q, "onaxis": True}
            if ax_in:
                return {"id": gid, "cin": cin, "cout": cout, "q": q, "onaxis": True}
            lim = 2e-3 * (mag0 + float(np.max(np.abs(x))))
            if cs.axis_distance(sy[cin], x) >= lim and cs.axis_distance(sy[cout], x) >= lim:
                return {"id": gid, "cin": cin, "cout": cout, "q": q, "onaxis": False}
        raise RuntimeError("grid generation failed")

    allc = [0] + cids
    if route == "uset-only":        # every system is first met as an output system
        for c in cids:
            grids.append(make_grid(gids.pop(), 0, c, None))
    for _ in range(ng):
        cin = allc[int(r.integers(0, len(allc)))]
        cout = allc[int(r.integers(0, len(allc)))]
        u = r.random()
        onaxis = "in" if u < 0.05 else "out" if u < 0.10 else None
        grids.append(make_grid(gids.pop(), cin, cout, onaxis))
    # sets, q-set grids, spoints
    letters = "bmsor"
    for g in grids:
        u = r.random()
        g["set"] = "q" if u < 0.12 else letters[int(r.integers(0, 5))] if u < 0.7 else \
            "".join(letters[int(k)] for k in r.integers(0, 5, 6))
    if all(g["set"] == "q" or g["onaxis"] for g in grids):
        g = grids[-1]
        if g["onaxis"]:
            grids[-1] = g = make_grid(g["id"], g["cin"], g["cout"], None)
        g["set"] = "b"
    nsp = int(r.integers(0, 3))
    spoints = [(gids.pop(), "q" if r.random() < 0.7 else "s") for _ in range(nsp)]
    # reference point
    nonq = [g for g in grids if g["set"] != "q"]
    refgrid = nonq[int(r.integers(0, len(nonq)))]
    refxyz = [float(x) for x in r.standard_normal(3) * L]
    u = r.random()
    if u < 0.3:            # reference points with exactly-zero coordinates
        refxyz[int(r.integers(3))] = 0.0
        if u < 0.12:
            refxyz[int(r.integers(3))] = 0.0
        if u < 0.03:
            refxyz = [0.0, 0.0, 0.0]
    base = _oracle_eval(cs, cards, grids, refxyz)
    perts = []
    for k in range(3):
        pc = [(c[0], c[1], c[2], _perturb(r, c[3]), _perturb(r, c[4]), _perturb(r, c[5]))
              for c in cards]
        pg = [{**g, "q": _perturb(r, g["q"])} for g in grids]
        perts.append(_oracle_eval(cs, pc, pg, _perturb(r, refxyz)))
    mag = max([mag0] + [float(np.max(np.abs(x))) for x in base["x"].values()]
              + [float(np.max(np.abs(refxyz)))])
    types = sorted({c[1] for c in cards})
    depth = {0: 0}
    for c in cards:
        depth[c[0]] = depth[c[2]] + 1
    desc = {"seed": sh.seed, "geo": i, "L": L, "route": route,
            "cards": [[c[0], c[1], c[2]] + c[3] + c[4] + c[5] for c in cards],
            "grids": [[g["id"], g["cin"], g["cout"], g["set"]] + g["q"] for g in grids],
            "spoints": spoints, "refxyz": refxyz}
    nontrivial = any(t != 1 for t in types) or max(depth.values()) > 1
    sh.case(["geo", desc["cards"], desc["grids"], spoints, route], nontrivial, sample=desc)
    sh.count("cell:route-" + route)
    sh.count(f"cell:chain-depth-{max(depth.values())}")
    sh.count("cell:types-" + "".join("RCS"[t - 1] for t in types))
    for g in grids:
        sh.count("cell:grid-in%s-out%s" % ("RCS"[sy[g["cin"]]["type"] - 1],
                                           "RCS"[sy[g["cout"]]["type"] - 1]))
        if g["onaxis"]:
            sh.count("cell:grid-on-axis")
    tags = {"route": route, "types": types, "depth": max(depth.values()), "family": "geo"}
    case = {"geo": i, "seed": sh.seed, "route": route}

    def tol(spread, scale):
        return KFAC * spread + FLOOR * scale

    # ---------------------------------------------------------------- build the table
    try:
        coordref_full = n2p.build_coords(
            np.array([[c[0], c[1], c[2]] + c[3] + c[4] + c[5] for c in cards])[
                r.permutation(len(cards))])
    except Exception as e:
        sh.violation("exception:build_coords", case, {"exc": repr(e), "desc": desc}, tags)
        return
    # -- build_coords / mkusetcoordinfo 5x3 against the oracle ----------------------------
    def check_ci(kind, ci, cid):
        s = base["sys"][cid]
        ci = np.asarray(ci, float)
        if ci.shape != (5, 3):
            sh.violation(kind, {**case, "cid": cid}, {"shape": ci.shape}, tags)
            return
        sh.check_equal(kind + "-header", ci[0].tolist(), [float(cid), float(s["type"]), 0.0],
                       {**case, "cid": cid}, tags)
        so = _spread(np, base, perts, lambda o: o["sys"][cid]["o"])
        sE = _spread(np, base, perts, lambda o: o["sys"][cid]["E"])
        sh.check_close(kind + "-origin", ci[1], s["o"], tol(so, mag), {**case, "cid": cid},
                       tags)
        sh.check_close(kind + "-axes", ci[2:], s["E"], tol(sE, 1.0), {**case, "cid": cid},
                       tags)
    sh.check_equal("build_coords-keys", sorted(int(k) for k in coordref_full),
                   sorted([0] + cids), case, tags)
    for cid in cids:
        if cid in coordref_full:
            check_ci("build_coords", coordref_full[cid], cid)

    def add_spoints(uset, which):
        for sid, letter in which:
            sp = n2p.make_uset([[sid, 0]], letter)
            uset = sp if uset is None else pd.concat([uset, sp], axis=0)
        return uset

    nfirst = int(r.integers(0, len(spoints) + 1))
    try:
        uset = add_spoints(None, spoints[:nfirst])
        if route == "build_coords":
            cref = {k: np.array(v) for k, v in coordref_full.items()}
            k = int(r.integers(1, len(grids) + 1))
            for part in (grids[:k], grids[k:]):
                if part:
                    uset = n2p.addgrid(uset, [g["id"] for g in part],
                                       [g["set"] for g in part],
                                       [g["cin"] for g in part], [g["q"] for g in part],
                                       [g["cout"] for g in part], cref)
        elif route == "incremental":
            cref = {}
            for c in cards:
                ci = n2p.mkusetcoordinfo(_card43(c), None, cref)
                check_ci("mkusetcoordinfo", ci, c[0])
            for g in grids:
                cin = _card43(cardof[g["cin"]]) if g["cin"] and r.random() < 0.6 \
                    else g["cin"]
                cout = _card43(cardof[g["cout"]]) if g["cout"] and r.random() < 0.6 \
                    else g["cout"]
                uset = n2p.addgrid(uset, g["id"], g["set"], cin, g["q"], cout, cref)
        else:
            for g in grids[:len(cids)]:       # carriers: 4x3 card, no coordref
                uset = n2p.addgrid(uset, g["id"], g["set"], 0, g["q"],
                                   _card43(cardof[g["cout"]]))
            rest = grids[len(cids):]
            uset = n2p.addgrid(uset, [g["id"] for g in rest], [g["set"] for g in rest],
                               [g["cin"] for g in rest], [g["q"] for g in rest],
                               [g["cout"] for g in rest])
        uset = add_spoints(uset, spoints[nfirst:])
    except Exception as e:
        sh.violation("exception:addgrid", case, {"exc": repr(e), "desc": desc}, tags)
        return
    # ---------------------------------------------------------------- table structure
    want_idx = [(s, 0) for s, _ in spoints[:nfirst]] + \
        [(g["id"], d) for g in grids for d in range(1, 7)] + \
        [(s, 0) for s, _ in spoints[nfirst:]]
    got_idx = [(int(a), int(b)) for a, b in uset.index.tolist()]
    if not sh.check_equal("uset-index", got_idx, want_idx, case, tags):
        return
    vals = uset.loc[:, "x":"z"].values
    rowof = {g["id"]: got_idx.index((g["id"], 1)) for g in grids}
    # ---------------------------------------------------------------- M1 location, cs rows
    for g in grids:
        k = rowof[g["id"]]
        gc = {**case, "grid": g["id"], "cin": g["cin"], "cout": g["cout"]}
        gt = {**tags, "in_type": sy[g["cin"]]["type"], "out_type": sy[g["cout"]]["type"],
              "onaxis": g["onaxis"]}
        sx = _spread(np, base, perts, lambda o: o["x"][g["id"]])
        sh.check_close("location-basic", vals[k], base["x"][g["id"]], tol(sx, mag), gc, gt)
        s = base["sys"][g["cout"]]
        sh.check_equal("uset-cs-header", vals[k + 1].tolist(),
                       [float(g["cout"]), float(s["type"]), 0.0], gc, gt)
        so = _spread(np, base, perts, lambda o: o["sys"][g["cout"]]["o"])
        sE = _spread(np, base, perts, lambda o: o["sys"][g["cout"]]["E"])
        sh.check_close("uset-cs-origin", vals[k + 2], s["o"], tol(so, mag), gc, gt)
        sh.check_close("uset-cs-axes", vals[k + 3:k + 6], s["E"], tol(sE, 1.0), gc, gt)
    # ---------------------------------------------------------------- M2 getcoordinates
    out_systems = {g["cout"] for g in grids}
    crefq = {k: np.array(v) for k, v in coordref_full.items()}
    X = np.array([vals[rowof[g["id"]]] for g in grids])
    for c in allc:
        s = base["sys"][c]
        so = _spread(np, base, perts, lambda o: o["sys"][c]["o"])
        sE = _spread(np, base, perts, lambda o: o["sys"][c]["E"])
        how = int(r.integers(0, 4))
        if how == 0 and not (c in out_systems or c == 0):
            how = 3
        if how == 1 and c == 0:
            how = 2
        try:
            if how == 0:
                got = n2p.getcoordinates(uset, [g["id"] for g in grids], c)
            elif how == 1:
                got = n2p.getcoordinates(uset, [g["id"] for g in grids],
                                         _card43(cardof[c]), crefq)
            elif how == 2:
                got = n2p.getcoordinates(uset, X.copy(), c, crefq)
            else:
                got = np.array([n2p.getcoordinates(uset, g["id"], c, crefq)
                                for g in grids])
            got = np.asarray(got, float).reshape(len(grids), 3)
        except Exception as e:
            sh.count("mon:getcoordinates-no-exception")
            sh.violation("exception:getcoordinates", {**case, "csys": c, "how": how},
                         {"exc": repr(e), "desc": desc}, tags)
            continue
        sh.count("mon:getcoordinates-no-exception")
        sh.count(f"cell:getcoordinates-how{how}")
        # inter-point distances must not depend on the system the points are described
        # in: pyYeti's coordinates -> local rectangular vectors (no frame involved)
        lims = [2e-3 * (mag0 + float(np.max(np.abs(base["x"][g["id"]])))) for g in grids]
        keep = [j for j, g in enumerate(grids)
                if cs.axis_distance(s, base["x"][g["id"]]) >= lims[j]
                and np.all(np.isfinite(got[j]))]
        if len(keep) >= 2:
            V = np.array([cs.local_rect(s["type"], got[j]) for j in keep])
            Dl = np.sqrt(((V[:, None, :] - V[None, :, :]) ** 2).sum(-1))
            Pb = X[keep]
            Db = np.sqrt(((Pb[:, None, :] - Pb[None, :, :]) ** 2).sum(-1))
            sh.check_close("distances-invariant-under-description", Dl, Db,
                           10 * FLOOR * (mag + float(np.max(np.abs(V)))),
                           {**case, "csys": c, "how": how}, {**tags, "sys_type": s["type"]})
        for j, g in enumerate(grids):
            x = base["x"][g["id"]]
            lim = 2e-3 * (mag0 + float(np.max(np.abs(x))))
            offaxis = cs.axis_distance(s, x) >= lim
            if not offaxis:
                sh.count("cell:getcoordinates-on-axis-not-judged")
                continue
            gc = {**case, "grid": g["id"], "csys": c, "how": how}
            gt = {**tags, "sys_type": s["type"], "how": how}
            if not np.all(np.isfinite(got[j])):
                sh.violation("getcoordinates-inverse", gc, {"got": got[j]}, gt)
                continue
            back = cs.to_basic(s, got[j])
            sx = _spread(np, base, perts, lambda o: o["x"][g["id"]])
            v = float(np.max(np.abs(x - s["o"])))
            sh.check_close("getcoordinates-inverse", back, x,
                           tol(sx + so + sE * v, mag), gc, gt)
            # literal round trip inside pyYeti: query in system c, re-enter in system c
            if (i + j) % 3 == 0:
                try:
                    u2 = n2p.addgrid(None, 1, "b", c, got[j], 0, crefq)
                    x2 = u2.iloc[0, 1:].values.astype(float)
                except Exception as e:
                    sh.violation("exception:roundtrip", gc, {"exc": repr(e)}, gt)
                    continue
                sh.check_close("roundtrip-same-point", x2, vals[rowof[g["id"]]],
                               tol(2 * (sx + so + sE * v), mag), gc, gt)
    # ---------------------------------------------------------------- M10 mkcordcardinfo
    try:
        cci = n2p.mkcordcardinfo(uset)
        sh.check_equal("mkcordcardinfo-keys", sorted(int(k) for k in cci),
                       sorted(out_systems - {0}), case, tags)
        for c, (name, card) in cci.items():
            c = int(c)
            s = base["sys"][c]
            sh.check_equal("mkcordcardinfo-name", (name, card[0].tolist()),
                           ("CORD2" + "RCS"[s["type"] - 1], [float(c), float(s["type"]), 0.0]),
                           {**case, "cid": c}, tags)
            rs = cs.resolve([(c, s["type"], 0, card[1], card[2], card[3])])[c]
            so = _spread(np, base, perts, lambda o: o["sys"][c]["o"])
            sE = _spread(np, base, perts, lambda o: o["sys"][c]["E"])
            sh.check_close("mkcordcardinfo-origin", rs["o"], s["o"], tol(so, mag),
                           {**case, "cid": c}, tags)
            # the returned card has |AB| = |AC| = 1 at distance |A| from the origin:
            # resolving it costs eps * |A| in the axes (oracle-side conditioning)
            sh.check_close("mkcordcardinfo-axes", rs["E"], s["E"],
                           tol(4 * sE, 4.0 * (1.0 + float(np.max(np.abs(s["o"]))))),
                           {**case, "cid": c}, tags)
    except Exception as e:
        sh.violation("exception:mkcordcardinfo", case, {"exc": repr(e)}, tags)
    # ---------------------------------------------------------------- M4-M7 rigid body
    _rigid_body(sh, n2p, np, cs, r, uset, grids, spoints, got_idx, rowof, vals, base, perts,
                cards, refxyz, refgrid, mag, case, tags, desc)
    # ---------------------------------------------------------------- M9 replace_basic_cs
    _replace_basic(sh, n2p, np, cs, r, uset, grids, got_idx, rowof, vals, base, perts, L,
                   mag, case, tags, cids, refxyz)


def _rigid_body(sh, n2p, np, cs, r, uset, grids, spoints, got_idx, rowof, vals, base, perts,
                cards, refxyz, refgrid, mag, case, tags, desc):
    def tol(spread, scale):
        return KFAC * spread + FLOOR * scale
    floor6 = np.ones((6, 6))
    floor6[:3, 3:] = mag
    nrow = len(got_idx)
    X = np.array([vals[rowof[g["id"]]] for g in grids])
    results = {}
    for refkind in ("xyz", "grid"):
        if refkind == "xyz":
            refarg = list(refxyz) if r.random() < 0.5 else np.array(refxyz)
            b, ps = base, perts
        else:
            refarg = refgrid["id"]
            b = _oracle_eval(cs, cards, grids, base["x"][refgrid["id"]])
            ps = []
            for p in perts:       # same perturbed inputs, reference = perturbed grid
                q = dict(p)
                q["ref"] = p["x"][refgrid["id"]]
                q["rb"] = {g["id"]: (None if p["L"][g["id"]] is None else
                                     cs.rigid_block(p["L"][g["id"]],
                                                    p["x"][g["id"]] - q["ref"]))
                           for g in grids}
                ps.append(q)
        rc = {**case, "ref": refkind}
        try:
            rb = np.asarray(n2p.rbgeom_uset(uset, refarg), float)
        except Exception as e:
            sh.count("mon:rbgeom_uset-no-exception")
            sh.violation("exception:rbgeom_uset", rc, {"exc": repr(e), "desc": desc}, tags)
            continue
        sh.count("mon:rbgeom_uset-no-exception")
        sh.count("cell:refpoint-" + refkind)
        if not sh.check_equal("rbgeom_uset-shape", rb.shape, (nrow, 6), rc, tags):
            continue
        results[refkind] = (rb, b)
        # zero rows: spoints and q-set grids
        zero = [k for k, (n_, d) in enumerate(got_idx) if d == 0]
        for g in grids:
            if g["set"] == "q":
                zero += list(range(rowof[g["id"]], rowof[g["id"]] + 6))
        if zero:
            sh.check_equal("rbgeom_uset-zero-rows", bool(np.all(rb[zero] == 0)), True, rc,
                           tags)
            sh.count("cell:zero-rows-present")
        for g in grids:
            if g["set"] == "q":
                continue
            k = rowof[g["id"]]
            gc = {**rc, "grid": g["id"], "cout": g["cout"]}
            gt = {**tags, "out_type": base["sys"][g["cout"]]["type"], "ref": refkind,
                  "onaxis": g["onaxis"]}
            if g["onaxis"] or b["rb"][g["id"]] is None:
                sh.count("cell:rb-on-axis-not-judged")
                continue
            srb = _spread(np, b, ps, lambda o: o["rb"][g["id"]])
            sh.check_close("rbgeom_uset-block", rb[k:k + 6], b["rb"][g["id"]],
                           KFAC * srb + FLOOR * floor6, gc, gt)
            # agreement with rbgeom after transformation to basic
            Lg = b["L"][g["id"]]
            T2 = np.zeros((6, 6))
            T2[:3, :3] = Lg
            T2[3:, 3:] = Lg
            try:
                j = [h["id"] for h in grids].index(g["id"])
                if refkind == "grid":
                    jr = [h["id"] for h in grids].index(refgrid["id"])
                    rg = np.asarray(n2p.rbgeom(X, jr), float)[6 * j:6 * j + 6]
                else:
                    rg = np.asarray(n2p.rbgeom(X, refarg), float)[6 * j:6 * j + 6]
            except Exception as e:
                sh.violation("exception:rbgeom", gc, {"exc": repr(e)}, gt)
                continue
            sL = _spread(np, b, ps, lambda o: o["L"][g["id"]])
            sh.check_close("rbgeom_uset-vs-rbgeom-in-basic", T2 @ rb[k:k + 6], rg,
                           KFAC * (srb + sL * floor6) * 3 + 3 * FLOOR * floor6, gc, gt)
            sx = _spread(np, b, ps, lambda o: o["x"][g["id"]] - o["ref"])
            sh.check_close("rbgeom-block", rg, cs.rigid_block(np.eye(3),
                                                              b["x"][g["id"]] - b["ref"]),
                           KFAC * sx + FLOOR * floor6, gc, gt)
    # ---------------------------------------------------------------- rbmove
    if "xyz" in results and "grid" in results:
        rb_x, bx = results["xyz"]
        rb_g, bg = results["grid"]
        newref = vals[rowof[refgrid["id"]]]
        try:
            # reference points handed over as float arrays (what a caller looping over
            # several reference points holds); the call must leave its inputs alone
            a_old = np.array(refxyz, float)
            a_new = np.array(newref, float)
            keep = (a_old.copy(), a_new.copy(), np.array(rb_x, copy=True))
            moved = np.asarray(n2p.rbmove(rb_x, a_old, a_new), float)
            sh.check_equal("rbmove-inputs-unmutated",
                           bool(np.array_equal(a_old, keep[0]) and
                                np.array_equal(a_new, keep[1]) and
                                np.array_equal(np.asarray(rb_x), keep[2])), True, case, tags)
            back = np.asarray(n2p.rbmove(rb_g, newref, refxyz), float)
        except Exception as e:
            sh.violation("exception:rbmove", case, {"exc": repr(e)}, tags)
            moved = None
        if moved is not None:
            # terms added: |rb| * |lever| ~ mag in the translation-from-rotation block
            d = float(np.max(np.abs(np.asarray(refxyz) - newref)))
            t6 = np.ones((1, 6)) * FLOOR * 50
            t6[0, 3:] = FLOOR * 50 * (mag + d)
            sh.check_close("rbmove-equals-rb-about-new-ref", moved, rb_g, t6, case, tags)
            sh.check_close("rbmove-equals-rb-about-new-ref", back, rb_x, t6, case, tags)
    # ---------------------------------------------------------------- rbcoords
    for refkind, (rb, b) in results.items():
        rows = []
        expect = []
        judged = []
        for g in grids:
            k = rowof[g["id"]]
            rows += list(range(k, k + 6))
            if g["set"] == "q":
                expect.append(np.zeros(3))
                judged.append(True)
            else:
                expect.append(b["x"][g["id"]] - b["ref"])
                judged.append(not g["onaxis"])
        try:
            coords, maxdev, maxerr = n2p.rbcoords(rb[rows], verbose=0)
        except Exception as e:
            sh.violation("exception:rbcoords", {**case, "ref": refkind}, {"exc": repr(e)},
                         tags)
            continue
        coords = np.asarray(coords, float)
        for j, g in enumerate(grids):
            if not judged[j]:
                continue
            srb = 0.0 if g["set"] == "q" else \
                _spread(np, b, perts if refkind == "xyz" else [b], lambda o: o["rb"][g["id"]])
            sh.check_close("rbcoords-recovers-location", coords[j], expect[j],
                           10 * (KFAC * srb + FLOOR * mag) + 10 * FLOOR * mag,
                           {**case, "ref": refkind, "grid": g["id"]},
                           {**tags, "is_q": g["set"] == "q"})
        if all(judged):
            sh.check_close("rbcoords-maxdev", maxdev, 0.0, 1e-9 * mag,
                           {**case, "ref": refkind}, tags)


def _replace_basic(sh, n2p, np, cs, r, uset, grids, got_idx, rowof, vals, base, perts, L,
                   mag, case, tags, cids, refxyz):
    for _ in range(100):
        A, B, C = (r.standard_normal(3) * L for _ in range(3))
        sn, mn = cs.collinearity(A, B, C)
        if sn > 0.3 and mn > 0.3 * L:
            break
    newid = max(cids + [0]) + 1 + int(r.integers(0, 50))
    ns = cs.resolve([(newid, 1, 0, A, B, C)])[newid]
    Q, o = ns["E"], ns["o"]
    form = int(r.integers(0, 2))
    rc = {**case, "newid": newid, "A": A, "B": B, "C": C, "form": form}
    before = uset.copy()
    try:
        if form == 0:
            un = n2p.replace_basic_cs(uset, newid, np.vstack([A, B, C]))
        else:
            un = n2p.replace_basic_cs(uset, np.vstack([[newid, 1, 0], A, B, C]))
    except Exception as e:
        sh.count("mon:replace_basic_cs-no-exception")
        sh.violation("exception:replace_basic_cs", rc, {"exc": repr(e)}, tags)
        return
    sh.count("mon:replace_basic_cs-no-exception")
    sh.check_equal("replace_basic_cs-input-untouched", bool(before.equals(uset)), True, rc,
                   tags)
    idx2 = [(int(a), int(b)) for a, b in un.index.tolist()]
    if not sh.check_equal("replace_basic_cs-index", idx2, got_idx, rc, tags):
        return
    sh.check_equal("replace_basic_cs-nasset", un["nasset"].tolist(), uset["nasset"].tolist(),
                   rc, tags)
    v2 = un.loc[:, "x":"z"].values
    # perturbation spread of the new frame (A, B, C perturbed)
    sQ, so_ = 0.0, 0.0
    for k in range(3):
        p = cs.resolve([(newid, 1, 0, *(np.asarray(_perturb(r, P)) for P in (A, B, C)))])[newid]
        sQ = max(sQ, float(np.max(np.abs(p["E"] - Q))))
        so_ = max(so_, float(np.max(np.abs(p["o"] - o))))
    mag2 = mag + float(np.max(np.abs(o)))
    tloc = KFAC * (so_ + sQ * mag * 3) + 4 * FLOOR * mag2
    for g in grids:
        k = rowof[g["id"]]
        gc = {**rc, "grid": g["id"]}
        s = base["sys"][g["cout"]]
        sx = _spread(np, base, perts, lambda o_: o_["x"][g["id"]])
        so2 = _spread(np, base, perts, lambda o_: o_["sys"][g["cout"]]["o"])
        sE2 = _spread(np, base, perts, lambda o_: o_["sys"][g["cout"]]["E"])
        sh.check_close("replace_basic_cs-location", v2[k], o + Q @ base["x"][g["id"]],
                       tloc + KFAC * sx, gc, tags)
        sh.check_equal("replace_basic_cs-cs-header", v2[k + 1].tolist(),
                       [float(g["cout"] or newid), float(s["type"]), 0.0], gc, tags)
        sh.check_close("replace_basic_cs-cs-origin", v2[k + 2], o + Q @ s["o"],
                       tloc + KFAC * so2, gc, tags)
        sh.check_close("replace_basic_cs-cs-axes", v2[k + 3:k + 6], Q @ s["E"],
                       KFAC * (sQ * 3 + sE2 * 3) + 6 * FLOOR, gc, tags)
    # isometry, read from pyYeti's two tables only
    P1 = np.array([vals[rowof[g["id"]]] for g in grids])
    P2 = np.array([v2[rowof[g["id"]]] for g in grids])
    D1 = np.sqrt(((P1[:, None, :] - P1[None, :, :]) ** 2).sum(-1))
    D2 = np.sqrt(((P2[:, None, :] - P2[None, :, :]) ** 2).sum(-1))
    sh.check_close("replace_basic_cs-distances-preserved", D2, D1, 40 * FLOOR * mag2, rc, tags)
    T1 = [vals[rowof[g["id"]] + 3:rowof[g["id"]] + 6] for g in grids]
    T2 = [v2[rowof[g["id"]] + 3:rowof[g["id"]] + 6] for g in grids]
    rel1 = np.array([a.T @ b for a in T1 for b in T1])
    rel2 = np.array([a.T @ b for a in T2 for b in T2])
    sh.check_close("replace_basic_cs-relative-orientation-preserved", rel2, rel1,
                   40 * FLOOR, rc, tags)
    # the moved table is still a consistent uset: its rigid-body modes about the moved
    # reference are the old ones expressed for motions about the new axes
    try:
        rb_old = np.asarray(n2p.rbgeom_uset(uset, refxyz), float)
        rb_new = np.asarray(n2p.rbgeom_uset(un, o + Q @ np.asarray(refxyz)), float)
    except Exception as e:
        sh.violation("exception:rbgeom_uset-after-replace", rc, {"exc": repr(e)}, tags)
        rb_new = None
    if rb_new is not None:
        Q2 = np.zeros((6, 6))
        Q2[:3, :3] = Q.T
        Q2[3:, 3:] = Q.T
        rows = []
        for g in grids:
            if not g["onaxis"]:
                rows += list(range(rowof[g["id"]], rowof[g["id"]] + 6))
        # conditioning: near-axis triads of both tables; bounded by the rho guard (2e-3)
        t6 = np.ones((1, 6)) * 1e-9
        t6[0, 3:] = 1e-9 * mag2
        sh.check_close("replace_basic_cs-rigid-modes-follow", rb_new[rows],
                       (rb_old @ Q2)[rows], t6, rc, tags)
    # documented refusals
    for what, arg in (("id-in-use", ("used",)), ("type-not-1", (2, 0)), ("ref-not-0", (1, 5))):
        try:
            if what == "id-in-use":
                used = [c for c in {g["cout"] for g in grids} if c != 0]
                if not used:
                    continue
                n2p.replace_basic_cs(uset, used[0], np.vstack([A, B, C]))
            else:
                n2p.replace_basic_cs(uset, np.vstack([[newid, arg[0], arg[1]], A, B, C]))
            st = "accepted"
        except ValueError:
            st = "refused"
        except Exception as e:
            st = repr(e)
        sh.check_equal("replace_basic_cs-refusal", st, "refused", {**rc, "what": what}, tags)


# ------------------------------------------------------------------------------------
# RBE3 family
# ------------------------------------------------------------------------------------

def _digits(n):
    return [int(ch) for ch in str(n)]


def _rbe_case(sh, n2p, pd, np, cs, i):
    r = core.rng(sh.seed, "C14", "rbe3", i)
    L = float(10 ** r.uniform(-1, 3))
    nsys = int(r.integers(0, 4))
    cards = _gen_chain(r, cs, L, nsys=nsys) if nsys else []
    sy = cs.resolve(cards)
    allc = [0] + [c[0] for c in cards]
    nind = int(r.integers(2, 11))
    nextra = int(r.integers(0, 3))
    ids = [int(x) for x in r.choice(np.arange(1, 2000), nind + nextra + 2, replace=False)]
    mag0 = max(float(np.max(np.abs(s["o"]))) for s in sy.values()) + L
    grids = []
    for gid in ids[:nind + nextra + 1]:
        for _ in range(300):
            cin = allc[int(r.integers(0, len(allc)))]
            cout = allc[int(r.integers(0, len(allc)))]
            q = _rand_coords(r, sy[cin]["type"], L)
            x = cs.to_basic(sy[cin], q)
            lim = 2e-3 * (mag0 + float(np.max(np.abs(x))))
            if cs.axis_distance(sy[cout], x) >= lim and cs.axis_distance(sy[cin], x) >= lim:
                break
        grids.append({"id": gid, "cin": cin, "cout": cout, "q": q, "onaxis": False,
                      "set": "b"})
    order = r.permutation(len(grids))
    grids = [grids[int(k)] for k in order]          # table order
    pick = r.permutation(len(grids))
    dep = grids[int(pick[0])]
    ind = [grids[int(k)] for k in pick[1:1 + nind]]   # Ind_List order (not table order)
    # groups
    ngrp = int(r.integers(1, 4))
    ngrp = min(ngrp, len(ind))
    cuts = sorted(int(c) for c in r.choice(np.arange(1, len(ind)), ngrp - 1, replace=False)) \
        if ngrp > 1 else []
    groups = []
    prev = 0
    dofsets = [123, 12356, 123456, 123, 123456, 1235, 12346]
    for c in cuts + [len(ind)]:
        dofs = dofsets[int(r.integers(0, len(dofsets)))]
        wt = None if r.random() < 0.4 else float(r.uniform(0.2, 5.0))
        groups.append((dofs, wt, ind[prev:c]))
        prev = c
    ddof = [123456, 123456, 123, 135][int(r.integers(0, 4))]
    refp = cs.to_basic(sy[dep["cin"]], dep["q"])
    base = _oracle_eval(cs, cards, grids, refp)
    tindex = [(g["id"], d) for g in grids for d in range(1, 7)]
    rball = np.vstack([base["rb"][g["id"]] for g in grids])
    ipairs = sorted([(g["id"], d) for dofs, wt, gl in groups for g in gl for d in _digits(dofs)],
                    key=tindex.index)
    irows = [tindex.index(p) for p in ipairs]
    drows = [tindex.index((dep["id"], d)) for d in _digits(ddof)]
    # well-posedness: independent DOF must determine all six rigid motions
    Lc = max(float(np.max(np.abs(base["x"][g["id"]] - refp))) for g in ind)
    S = np.diag([1, 1, 1, 1 / Lc, 1 / Lc, 1 / Lc])
    rbi = rball[irows] @ S
    wrow = np.array([1.0 if wt is None else wt for dofs, wt, gl in groups for g in gl
                     for d in _digits(dofs)])
    cond = float(np.linalg.cond(rbi))
    if not (cond < 1e3):
        sh.refused += 1
        sh.count("cell:rbe3-refused-ill-posed")
        return
    # ---------------------------------------------------------------- UM selection
    um = None
    um_kind = "none"
    u = r.random()
    mpairs = None
    if u < 0.5:
        nd = len(_digits(ddof))
        for _ in range(40):
            kd = 0 if r.random() < 0.5 else int(r.integers(1, nd + 1))   # dep DOF kept in m
            md = sorted(int(x) for x in r.choice(_digits(ddof), kd, replace=False))
            pool = list(ipairs)
            sel = [pool[int(k)] for k in r.choice(len(pool), nd - kd, replace=False)] \
                if nd - kd <= len(pool) else None
            if sel is None:
                continue
            mp = [(dep["id"], d) for d in md] + sel
            # m-set rows must be able to carry a rigid motion uniquely together with
            # the rest: pivot check on the oracle rb (scaled)
            mrows = [tindex.index(p) for p in sel]
            if kd == 0:
                cnd = np.linalg.cond(rball[mrows] @ S) if nd == 6 else \
                    np.linalg.cond((rball[mrows] @ S) @ (rball[mrows] @ S).T)
                if nd == 6 and cnd < 50:
                    mpairs, um_kind = mp, "independent-only"
                    break
                continue
            mpairs = mp
            um_kind = "dependent-only" if kd == nd else "mixed"
            break
        if mpairs is not None:
            # UM list format [grid, dofs, grid, dofs...]; group per grid, random order
            byg = {}
            for gid, d in mpairs:
                byg.setdefault(gid, []).append(d)
            um = []
            for gid in [list(byg)[int(k)] for k in r.permutation(len(byg))]:
                um += [gid, int("".join(str(d) for d in sorted(byg[gid])))]
    ind_list = []
    for dofs, wt, gl in groups:
        ind_list.append(dofs if wt is None else [dofs, wt])
        gl_ids = [g["id"] for g in gl]
        ind_list.append(gl_ids if len(gl_ids) > 1 or r.random() < 0.5 else gl_ids[0])
    desc = {"seed": sh.seed, "rbe3": i, "L": L,
            "cards": [[c[0], c[1], c[2]] + c[3] + c[4] + c[5] for c in cards],
            "grids": [[g["id"], g["cin"], g["cout"]] + g["q"] for g in grids],
            "dep": dep["id"], "ddof": ddof, "ind_list": ind_list, "um": um}
    ddpairs = [(dep["id"], d) for d in _digits(ddof)]
    dpv_m = [ddpairs.index(p) for p in (mpairs or []) if p in ddpairs]
    ipv_m = [ipairs.index(p) for p in (mpairs or []) if p in ipairs]
    tags = {"family": "rbe3", "um": um_kind, "ddof": ddof, "ngroups": len(groups),
            "cond": cond, "um_dep_index_only_zero": sorted(dpv_m) == [0],
            "um_ind_index_only_zero": sorted(ipv_m) == [0] and sorted(dpv_m) not in ([], [0])}
    if tags["um_dep_index_only_zero"] and not _allow(sh, "rbe3-um-dep0", 4):
        um, um_kind, mpairs = None, "none", None
        tags.update(um="none", um_dep_index_only_zero=False, um_ind_index_only_zero=False)
        desc["um"] = None
    if tags["um_ind_index_only_zero"] and not _allow(sh, "rbe3-um-ind0", 4):
        um, um_kind, mpairs = None, "none", None
        tags.update(um="none", um_dep_index_only_zero=False, um_ind_index_only_zero=False)
        desc["um"] = None
    sh.case(["rbe3", desc], True, sample=desc)
    sh.count("cell:rbe3-um-" + um_kind)
    sh.count(f"cell:rbe3-ddof-{ddof}")
    sh.count(f"cell:rbe3-groups-{len(groups)}")
    for dofs, wt, gl in groups:
        sh.count(f"cell:rbe3-inddof-{dofs}")
    case = {"rbe3": i, "seed": sh.seed}
    try:
        cref = n2p.build_coords(np.array([[c[0], c[1], c[2]] + c[3] + c[4] + c[5]
                                          for c in cards])) if cards else None
        uset = n2p.addgrid(None, [g["id"] for g in grids], "b", [g["cin"] for g in grids],
                           [g["q"] for g in grids], [g["cout"] for g in grids], cref)
        if r.random() < 0.3:
            uset = pd.concat([uset, n2p.make_uset([[ids[-1], 0]], "q")], axis=0)
    except Exception as e:
        sh.violation("exception:rbe3-addgrid", case, {"exc": repr(e), "desc": desc}, tags)
        return
    # ---------------------------------------------------------------- plain RBE3
    try:
        R0 = np.asarray(n2p.formrbe3(uset, dep["id"], ddof, ind_list), float)
    except Exception as e:
        sh.count("mon:formrbe3-no-exception")
        sh.violation("exception:formrbe3", case, {"exc": repr(e), "desc": desc}, tags)
        return
    sh.count("mon:formrbe3-no-exception")
    if not sh.check_equal("formrbe3-shape", R0.shape, (len(drows), len(irows)), case, tags):
        return
    # rigid-body reproduction about two reference points (dependent grid and a far one).
    # Error is judged block-wise in consistent units: rows of translational DOF ~ 1,
    # rotational ~ 1/Lc; columns of unit translations ~ 1, unit rotations ~ lever arm.
    wsp = float(wrow.max() / wrow.min())
    kap = (cond ** 2) * wsp * 4      # solve error ~ eps * cond(weighted normal matrix)

    def unit_tol(pairs, lever):
        u = np.array([1.0 if d <= 3 else 1.0 / Lc for _, d in pairs])
        v = np.array([1.0, 1.0, 1.0, lever, lever, lever])
        return (50 * 2.2e-16 * kap + 20 * FLOOR) * np.outer(u, v)
    for refname, rbm in (("dep", rball), ("far", None)):
        lever = Lc
        if rbm is None:
            far = refp + r.standard_normal(3) * L
            rbm = np.vstack([cs.rigid_block(base["L"][g["id"]], base["x"][g["id"]] - far)
                             for g in grids])
            lever = Lc + float(np.max(np.abs(far - refp)))
        sh.check_close("formrbe3-reproduces-rigid-motion", R0 @ rbm[irows], rbm[drows],
                       unit_tol(ddpairs, lever), {**case, "ref": refname}, tags)
    if um is None:
        return
    # ---------------------------------------------------------------- UM option
    # conditioning of the pivot block of the UM step, read from the verified non-UM
    # matrix:  rows = dependent DOF not in the m-set, columns = independent DOF in it
    nd_rows = [k for k, p in enumerate(ddpairs) if p not in mpairs]
    im_cols = [k for k, p in enumerate(ipairs) if p in mpairs]
    if nd_rows and im_cols:
        # in consistent units (rotational rows x Lc, rotational columns / Lc); the pivot
        # block is judged against the size of the rows it is taken from, so that a 1x1
        # block holding a structural zero (cond == 1 by definition) counts as singular
        ur = np.array([1.0 if d <= 3 else Lc for _, d in ddpairs])
        uc = np.array([1.0 if d <= 3 else 1.0 / Lc for _, d in ipairs])
        Rs = R0 * np.outer(ur, uc)
        Cb = Rs[np.ix_(nd_rows, im_cols)]
        if Cb.shape[0] == Cb.shape[1]:
            smin = float(np.linalg.svd(Cb, compute_uv=False).min())
            big = float(np.abs(Rs[nd_rows]).max())
            cnd = big / smin if smin > 0 else float("inf")
        else:
            cnd = float("inf")
    else:
        cnd = 1.0
    if not (cnd < 1e3):
        sh.refused += 1
        sh.count("cell:rbe3-um-refused-ill-conditioned")
        return
    try:
        R1 = np.asarray(n2p.formrbe3(uset, dep["id"], ddof, ind_list, um), float)
    except Exception as e:
        sh.count("mon:formrbe3-um-no-exception")
        sh.violation("exception:formrbe3-um", case, {"exc": repr(e)[:300], "desc": desc}, tags)
        return
    sh.count("mon:formrbe3-um-no-exception")
    mrows = sorted(tindex.index(p) for p in mpairs)
    crow = sorted(set(irows + drows) - set(mrows))
    if not sh.check_equal("formrbe3-um-shape", R1.shape, (len(mrows), len(crow)), case, tags):
        return
    sh.check_close("formrbe3-um-reproduces-rigid-motion", R1 @ rball[crow], rball[mrows],
                   unit_tol([tindex[k] for k in mrows], Lc) * 10 * max(1.0, cnd), case,
                   tags)


# ------------------------------------------------------------------------------------

def run_shard(sh, params):
    import numpy as np
    import pandas as pd
    from vf.oracles import coordsys as cs
    if not cs.selfcheck():
        raise RuntimeError("coordsys oracle fails its closed-form self-check")
    import pyyeti.nastran.n2p as n2p
    s, ns = params["slice"], params["nslice"]
    for i in range(s, NGEO[sh.tier], ns):
        try:
            _geo_case(sh, n2p, pd, np, cs, i)
        except Exception as e:
            import traceback
            sh.violation("exception:harness-geo", {"geo": i, "seed": sh.seed},
                         {"exc": traceback.format_exc()[-1500:]}, {"family": "geo"})
    for i in range(s, NRBE[sh.tier], ns):
        try:
            _rbe_case(sh, n2p, pd, np, cs, i)
        except Exception as e:
            import traceback
            sh.violation("exception:harness-rbe3", {"rbe3": i, "seed": sh.seed},
                         {"exc": traceback.format_exc()[-1500:]}, {"family": "rbe3"})


MANDATORY_MON = [
    "build_coords-origin", "build_coords-axes", "mkusetcoordinfo-origin",
    "mkusetcoordinfo-axes", "uset-index", "location-basic", "uset-cs-header",
    "uset-cs-origin", "uset-cs-axes", "getcoordinates-inverse", "roundtrip-same-point",
    "distances-invariant-under-description",
    "mkcordcardinfo-origin", "mkcordcardinfo-axes", "rbgeom_uset-block",
    "rbgeom_uset-zero-rows", "rbgeom_uset-vs-rbgeom-in-basic", "rbgeom-block",
    "rbmove-equals-rb-about-new-ref", "rbcoords-recovers-location",
    "replace_basic_cs-location", "replace_basic_cs-cs-origin", "replace_basic_cs-cs-axes",
    "replace_basic_cs-distances-preserved",
    "replace_basic_cs-relative-orientation-preserved",
    "replace_basic_cs-rigid-modes-follow", "replace_basic_cs-refusal",
    "formrbe3-reproduces-rigid-motion", "formrbe3-um-reproduces-rigid-motion",
]
MANDATORY_CELL = (
    ["route-build_coords", "route-incremental", "route-uset-only", "grid-on-axis",
     "refpoint-xyz", "refpoint-grid", "zero-rows-present", "rbe3-um-none",
     "rbe3-um-independent-only", "rbe3-um-dependent-only", "rbe3-um-mixed",
     "rbe3-ddof-123456", "rbe3-ddof-123", "rbe3-ddof-135", "rbe3-inddof-123",
     "rbe3-inddof-12356", "rbe3-inddof-123456", "rbe3-groups-1", "rbe3-groups-2",
     "rbe3-groups-3"]
    + [f"chain-depth-{d}" for d in range(1, 7)]
    + [f"grid-in{a}-out{b}" for a in "RCS" for b in "RCS"]
    + [f"getcoordinates-how{k}" for k in range(4)])


def finalize(agg, tier):
    c = agg["counters"]
    why = [f"monitor {k} never evaluated" for k in MANDATORY_MON if not c.get("mon:" + k)]
    why += [f"coverage cell {k} empty" for k in MANDATORY_CELL if not c.get("cell:" + k)]
    nrbe = sum(v for k, v in c.items() if k.startswith("cell:rbe3-um-"))
    if agg["refused"] > 0.5 * max(1, nrbe + agg["refused"]):
        why.append(f"{agg['refused']} RBE3 configurations refused as ill-posed")
    return why


def evidence_extra(agg, tier):
    c = agg["counters"]
    return {"type_mixes": {k[11:]: v for k, v in c.items() if k.startswith("cell:types-")}}
