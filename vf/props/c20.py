"""C20 -- tolerance-limit k-factors and order statistics meet their definitions.

ksingle : F_{nct}(k sqrt(n); n-1, z_p sqrt(n)) = c, evaluated by mp quadrature of the
          definition of the non-central t (vf/oracles/stats_mp.py), judged in k-space
          through the slope dF/dt obtained from the same quadrature.
kdouble : its two documented equations with mp normal / chi-square.
grids   : strict monotonicity in p and in c, k(n) - z decreasing to 0 from above on the
          n ladder (c >= 1/2), broadcast array call == scalar calls.
order_stats : integer extremality of 'r' and 'n' with exact rational binomial tails,
          'c' against the exact tail, 'p' <-> 'c' inversion, broadcast == scalar.
"""
import itertools

from vf import core

ID = "C20"
LEVEL = "exploration"
RULE = ("(p, c, n) cells = stratified sample of the grid P x C x N "
        "(P = C = {.001,.003,.01,.03,.1,.25,.5,.75,.9,.95,.99,.999,.9999,.99999}, "
        "N = 2..50, 1e2, 1e3, 1e4, 1e6; strata = n-class x p-class x c-class) plus seeded "
        "logit-uniform off-grid cells, called as scalars and as row x column arrays; "
        "order-statistic queries = the same P, C with n in 1..50, 60, 100, 230, 700, 1e3, "
        "1e4, 1e6 and r in 1..50 for all four `which`.  distinct = distinct "
        "(function, p, c, n, r) descriptors; non-trivial = every cell (none is degenerate "
        "except p = c = 1/2 for ksingle, which is counted trivial)")
ASSUMPTIONS = [
    "mpmath's erf/erfc, log-gamma, exp and tanh-sinh quadrature at 25 digits (the "
    "quadrature's own error estimate is required to be < 1e-18; cross-checked at every "
    "run against closed-form central t for 1, 2, 3 d.o.f., reflection symmetry, a second "
    "chi-square route and published table values)",
    "Python floats are taken as the exact dyadic rationals they are (p, c as given)",
    "binomial comparisons too large for exact integers use a positive-term mp sum at "
    "100 digits and refuse when closer than 1e-60 relative",
]
MIN_NONTRIVIAL = {"quick": 3000, "thorough": 30000}
TIMEOUT = {"quick": 3600, "thorough": 28800}

PGRID = [0.001, 0.003, 0.01, 0.03, 0.1, 0.25, 0.5, 0.75, 0.9, 0.95, 0.99, 0.999,
         0.9999, 0.99999]
NLADDER = list(range(2, 51)) + [100, 1000, 10000, 1000000, 3000000]
TOLK = 1e-9          # relative accuracy demanded of k (see _judge_ksingle)


def _ncls(n):
    if n == 2:
        return "n2"
    if n <= 10:
        return "n3-10"
    if n <= 50:
        return "n11-50"
    return {100: "n1e2", 1000: "n1e3", 10000: "n1e4", 1000000: "n1e6",
            3000000: "n1e6"}.get(n, "nother")


def _pcls(p):
    return "lo" if p < 0.5 else ("half" if p == 0.5 else "hi")


def _budget(tier):
    # (ksingle cells, kdouble cells, order-stat queries per `which`)
    return {"quick": (960, 900, 700), "thorough": (12000, 12000, 6000)}[tier]


def shards(tier, seed):
    nks = 12 if tier == "quick" else 48
    out = [{"kind": "ks", "slice": i, "nslice": nks} for i in range(nks)]
    nkd = 2 if tier == "quick" else 16
    out += [{"kind": "kd", "slice": i, "nslice": nkd} for i in range(nkd)]
    out += [{"kind": "grid", "slice": 0, "nslice": 1}]
    nos = 2 if tier == "quick" else 8
    out += [{"kind": "os", "slice": i, "nslice": nos} for i in range(nos)]
    return out


# ------------------------------------------------------------------------- cells

def _cells(seed, what, total):
    """Deterministic stratified list of (p, c, n, family) of length `total`."""
    import numpy as np
    r = core.rng(seed, "C20", what, "cells")
    strata = {}
    for p, c, n in itertools.product(PGRID, PGRID, NLADDER):
        strata.setdefault((_ncls(n), _pcls(p), _pcls(c)), []).append((p, c, n))
    keys = sorted(strata)
    for k in keys:
        lst = strata[k]
        order = r.permutation(len(lst))
        strata[k] = [lst[i] for i in order]
    out = []
    ngrid = int(total * 0.8)
    depth = 0
    while len(out) < ngrid:
        added = False
        for k in keys:
            if depth < len(strata[k]):
                out.append(strata[k][depth] + ("grid",))
                added = True
                if len(out) >= ngrid:
                    break
        depth += 1
        if not added:
            break
    # off-grid: logit-uniform p, c inside the grid's range; n from ladder or random
    lo, hi = np.log(0.001 / 0.999), np.log(0.99999 / 0.00001)
    while len(out) < total:
        p = float(1 / (1 + np.exp(-r.uniform(lo, hi))))
        c = float(1 / (1 + np.exp(-r.uniform(lo, hi))))
        if r.random() < 0.5:
            n = int(NLADDER[int(r.integers(len(NLADDER)))])
        else:
            n = int(np.exp(r.uniform(np.log(2), np.log(200000))))
            n = max(n, 2)
        out.append((p, c, n, "offgrid"))
    return out


# ------------------------------------------------------------------------- ksingle

def _judge_ksingle(sh, S, mp, p, c, n, k, case, tags):
    """F(k sqrt n) = c, judged in k-space:  |F - c| <= TOLK * max(|t|, 1) * dF/dt.

    A relative error eps in k moves F by eps * t * dF/dt (t = k sqrt n); the factor
    max(|t|, 1) keeps an absolute scale where k ~ 0 (p ~ 1/2).  The slope comes from the
    oracle's own quadrature (never from pyYeti)."""
    sn = mp.sqrt(n)
    t = mp.mpf(k) * sn
    delta = S.nppf(p) * sn
    F, dF, qerr = S.nctcdf_slope(t, n - 1, delta)
    if not qerr < mp.mpf(10) ** -18:
        sh.refused += 1
        sh.count("refused:quad-error")
        return
    cm = mp.mpf(c)
    # beyond n = 1e6 (non-centrality in the thousands) SciPy's nct.ppf, which ksingle is
    # documented to be, is itself good to ~1e-8 only (6e-9 observed at n = 3e6, p = .9999);
    # the point of that rung is the sign / side of the factor, so k is judged to 1e-7 there
    tolk = TOLK if n <= 1000000 else 1e-7
    tol = tolk * max(abs(t), 1) * dF + mp.mpf(10) ** -17
    err = abs(F - cm)
    sh.count("mon:ksingle-nct-equation")
    ratio = float(err / tol)
    sh.worst("ksingle-nct-equation", ratio)
    sh.worst("ksingle-|F-c|/min(c,1-c)", float(err / min(cm, 1 - cm)) / 1e-6)
    if not ratio <= 1:
        sh.violation("ksingle-nct-equation", case,
                     {"k": k, "F": float(F), "c": c, "err": float(err),
                      "tol": float(tol), "k_rel_err_estimate":
                      float(err / (max(abs(t), 1) * dF)) if dF > 0 else "inf"}, tags)


def _nonfinite_rule(sh, p, c, n, k, case, tags):
    """NaN/inf from pyYeti is excluded only when SciPy's nct.ppf is NaN/inf by itself."""
    import numpy as np
    from scipy.stats import nct, norm
    raw = nct.ppf(c, n - 1, np.sqrt(n) * norm.ppf(p))
    if not np.isfinite(raw):
        sh.count("excluded:scipy-nct-nonfinite")
        return
    sh.violation("ksingle-nonfinite", case, {"k": k, "nct.ppf": raw}, tags)


def _run_ks(sh, params):
    import mpmath as mp
    import numpy as np
    from vf.oracles import stats_mp as S
    from pyyeti import stats
    mp.mp.dps = S.DPS
    nks, _, _ = _budget(sh.tier)
    cells = _cells(sh.seed, "ks", nks)[params["slice"]::params["nslice"]]
    for i, (p, c, n, fam) in enumerate(cells):
        case = {"f": "ksingle", "p": p, "c": c, "n": n}
        tags = {"f": "ksingle", "ncls": _ncls(n), "family": fam}
        sh.case(case, nontrivial=not (p == 0.5 and c == 0.5))
        sh.count(f"cell:ks:{_ncls(n)}:{_pcls(p)}:{_pcls(c)}")
        try:
            if i % 3 == 0:        # same cell through a broadcast row x column call
                pr = np.array([0.9, p])
                cc = np.array([[c], [0.5]])
                k = float(stats.ksingle(pr, cc, n)[0, 1])
                sh.count("form:array")
            elif i % 3 == 1:
                k = float(stats.ksingle(p, c, [n, 7])[0])
                sh.count("form:list-n")
            else:
                k = stats.ksingle(p, c, n)
                sh.count("form:scalar")
                if np.ndim(k) != 0:
                    sh.violation("ksingle-scalar-shape", case, {"type": repr(type(k))},
                                 tags)
                k = float(k)
        except Exception as e:
            sh.violation("exception:ksingle", case, {"exc": repr(e)}, tags)
            continue
        if not np.isfinite(k):
            _nonfinite_rule(sh, p, c, n, k, case, tags)
            continue
        _judge_ksingle(sh, S, mp, p, c, n, k, case, tags)


# ------------------------------------------------------------------------- kdouble

def _judge_kdouble(sh, S, mp, p, c, n, k, case, tags):
    """Both documented equations, each judged with the sensitivity of the oracle:
    (1) with r = k sqrt(chi2_{1-c,n-1}/(n-1)):  Phi(1/sqrt n + r) - Phi(1/sqrt n - r) = p
    (2) with r solving (1):  chi2cdf((n-1) (r/k)^2; n-1) = 1-c."""
    nu = n - 1
    km = mp.mpf(k)
    onec = 1 - mp.mpf(c)
    pm = mp.mpf(p)
    # (1)
    chi = S.chi2ppf(onec, nu)
    r_impl = km * mp.sqrt(chi / nu)
    cov = S.coverage2(n, r_impl)
    sn = 1 / mp.sqrt(mp.mpf(n))
    dcov = mp.npdf(sn + r_impl) + mp.npdf(sn - r_impl)        # d cov / d r
    tol1 = TOLK * r_impl * dcov + mp.mpf(10) ** -17
    e1 = abs(cov - pm)
    sh.count("mon:kdouble-coverage-equation")
    sh.worst("kdouble-coverage-equation", float(e1 / tol1))
    if not e1 <= tol1:
        sh.violation("kdouble-coverage-equation", case,
                     {"k": k, "r_implied": float(r_impl), "coverage": float(cov),
                      "p": p, "err": float(e1), "tol": float(tol1)}, tags)
    # (2)
    r = S.getr(n, pm)
    x = nu * (r / km) ** 2
    F = S.chi2cdf(x, nu)
    slope = 2 * x * mp.exp(S.chi2logpdf(x, nu))               # |dF / d ln k|
    tol2 = TOLK * slope + mp.mpf(10) ** -17
    e2 = abs(F - onec)
    sh.count("mon:kdouble-chi2-equation")
    sh.worst("kdouble-chi2-equation", float(e2 / tol2))
    if not e2 <= tol2:
        sh.violation("kdouble-chi2-equation", case,
                     {"k": k, "r": float(r), "chi2cdf": float(F), "1-c": float(onec),
                      "err": float(e2), "tol": float(tol2)}, tags)


def _run_kd(sh, params):
    import mpmath as mp
    import numpy as np
    from vf.oracles import stats_mp as S
    from pyyeti import stats
    mp.mp.dps = S.DPS
    _, nkd, _ = _budget(sh.tier)
    cells = _cells(sh.seed, "kd", nkd)[params["slice"]::params["nslice"]]
    for i, (p, c, n, fam) in enumerate(cells):
        case = {"f": "kdouble", "p": p, "c": c, "n": n}
        tags = {"f": "kdouble", "ncls": _ncls(n), "family": fam}
        sh.case(case, True)
        sh.count(f"cell:kd:{_ncls(n)}:{_pcls(p)}:{_pcls(c)}")
        try:
            if i % 3 == 0:
                # broadcast call whose other elements converge at a different pace
                pr = np.array([0.5, p, 0.99999])
                cc = np.array([[c], [0.5]])
                k = float(stats.kdouble(pr, cc, [[n], [3]])[0, 1])
                sh.count("form:array")
            elif i % 3 == 1:
                k = float(stats.kdouble([p], c, n)[0])
                sh.count("form:list-p")
            else:
                if i % 2:
                    # history: a loosely converged request for the same (p, n) first,
                    # then the default-tolerance one that is judged (and once more a
                    # loose one in between): nothing of the loose call may be reused
                    c0 = 0.5 if c != 0.5 else 0.9
                    stats.kdouble(p, c0, n, tol=0.1)
                    if i % 4 == 3:
                        stats.kdouble(p, c, n)
                        stats.kdouble(p, c0, n, tol=0.3)
                    sh.count("cell:kd:after-loose-tolerance-call")
                    case = dict(case, after_loose_call=True)
                k = float(stats.kdouble(p, c, n))
                sh.count("form:scalar")
        except Exception as e:
            sh.violation("exception:kdouble", case, {"exc": repr(e)}, tags)
            continue
        if not (np.isfinite(k) and k > 0):
            sh.violation("kdouble-nonfinite", case, {"k": k}, tags)
            continue
        _judge_kdouble(sh, S, mp, p, c, n, k, case, tags)


# ------------------------------------------------------------------------- grids

def _run_grid(sh, params):
    import mpmath as mp
    import numpy as np
    from vf.oracles import stats_mp as S
    from pyyeti import stats
    mp.mp.dps = S.DPS
    if not S.selfcheck():
        raise RuntimeError("stats_mp oracle fails its own cross-checks")
    sh.count("oracle-selfcheck")
    r = core.rng(sh.seed, "C20", "grid")
    nrep = 2 if sh.tier == "quick" else 12
    for rep in range(nrep):
        if rep == 0:
            P = np.array(PGRID)
            C = np.array(PGRID)
        else:      # seeded refinement of the grids (sorted, distinct, well separated)
            lo, hi = np.log(0.001 / 0.999), np.log(0.99999 / 0.00001)
            P = np.unique(np.round(1 / (1 + np.exp(-np.sort(r.uniform(lo, hi, 16)))), 6))
            C = np.unique(np.round(1 / (1 + np.exp(-np.sort(r.uniform(lo, hi, 16)))), 6))
            P = np.unique(np.concatenate([P, [0.5]]))
            C = np.unique(np.concatenate([C, [0.5]]))
        N = np.array(NLADDER)
        zs = np.array([float(S.nppf(float(p))) for p in P])
        zd = np.array([float(S.nppf((1 + mp.mpf(float(p))) / 2)) for p in P])
        for name, f, z in (("ksingle", stats.ksingle, zs), ("kdouble", stats.kdouble, zd)):
            case0 = {"f": name, "P": P.tolist(), "C": C.tolist(), "N": "ladder"}
            tags = {"f": name, "grid": True}
            try:
                # the arguments as float64 arrays a caller keeps and reuses: they must come
                # back untouched, and the same call again must give the same bits
                Pa, Ca = P[:, None, None].copy(), C[None, :, None].copy()
                Na = N[None, None, :].astype(float)
                keep = [x.copy() for x in (Pa, Ca, Na)]
                K = f(Pa, Ca, Na)
                same_args = all(a.tobytes() == b.tobytes() for a, b in zip((Pa, Ca, Na), keep))
                K2 = f(Pa, Ca, Na)
                sh.count("mon:args-unmutated-and-repeatable")
                if not same_args or np.asarray(K2).tobytes() != np.asarray(K).tobytes():
                    sh.violation("args-unmutated-and-repeatable", case0,
                                 {"arguments_unchanged": bool(same_args),
                                  "second_call_same_bits": bool(
                                      np.asarray(K2).tobytes() == np.asarray(K).tobytes())},
                                 tags)
                K = f(P[:, None, None], C[None, :, None], N[None, None, :])
            except Exception as e:
                sh.violation("exception:" + name + "-grid", case0, {"exc": repr(e)}, tags)
                continue
            sh.case([name, "grid", P.tolist(), C.tolist()], True, sample=case0)
            if K.shape != (P.size, C.size, N.size):
                sh.violation("broadcast-shape", case0, {"shape": K.shape}, tags)
                continue
            if not np.all(np.isfinite(K)):
                # isolated NaN of SciPy's own nct.ppf (huge noncentrality) are recorded
                # and masked; anything else that is not finite is judged
                judged_bad = 0
                for ip_, ic_, in_ in np.argwhere(~np.isfinite(K)):
                    raw = np.nan
                    if name == "ksingle":
                        from scipy.stats import nct, norm
                        raw = nct.ppf(C[ic_], N[in_] - 1, np.sqrt(N[in_]) * norm.ppf(P[ip_]))
                    if name == "ksingle" and not np.isfinite(raw):
                        sh.count("excluded:scipy-nct-nonfinite")
                    else:
                        judged_bad += 1
                        sh.violation(name + "-grid-nonfinite",
                                     {"f": name, "p": P[ip_], "c": C[ic_], "n": int(N[in_])},
                                     {"k": K[ip_, ic_, in_], "nct.ppf": raw}, tags)
                if judged_bad:
                    continue
            # -- strictly increasing in p and in c ------------------------------------
            for ax, nm in ((0, "p"), (1, "c")):
                d = np.diff(K, axis=ax)
                sh.count(f"mon:{name}-monotone-{nm}", d.size)
                d = np.where(np.isfinite(d), d, np.inf)       # masked SciPy NaN cells
                if not np.all(d > 0):
                    i = np.unravel_index(np.argmin(d), d.shape)
                    sh.violation(f"{name}-monotone-{nm}", case0,
                                 {"index": [int(j) for j in i], "diff": d[i],
                                  "p": P[i[0]], "c": C[i[1]], "n": int(N[i[2]])}, tags)
            # -- n ladder: k(n) - z strictly decreasing to 0 from above (c >= 1/2) -----
            D = K - z[:, None, None]
            for ip, p in enumerate(P):
                for ic, c in enumerate(C):
                    if c < 0.5:
                        continue
                    if name == "ksingle" and p < 0.5:
                        # z_p < 0: by the reflection T(-delta) = -T(delta) the approach is
                        # from below at c = 1/2 and not monotone just above it --
                        # mathematics, not pyYeti (confirmed in mp below)
                        sh.count("ladder-skipped:ksingle-p<half")
                        continue
                    d = D[ip, ic]
                    if not np.all(np.isfinite(d)):
                        sh.count("ladder-skipped:masked-nonfinite")
                        continue
                    lc = {"f": name, "p": float(p), "c": float(c), "n": "ladder"}
                    if name == "ksingle" and p == 0.5 and c == 0.5:
                        sh.count("mon:ksingle-median-zero")
                        if not np.all(np.abs(K[ip, ic]) <= 1e-15):
                            sh.violation("ksingle-median-zero", lc, {"k": K[ip, ic]}, tags)
                        continue
                    sh.count(f"mon:{name}-ladder")
                    ok_pos = np.all(d > 0)
                    ok_dec = np.all(np.diff(d) < 0)
                    # 1e2 -> 1e4 -> 1e6: at least a factor 5 per factor 100 in n
                    # (1/sqrt(n) law gives 10, the c = 1/2 line gives 100)
                    i2, i4, i6 = (int(np.where(N == v)[0][0]) for v in (100, 10000, 1000000))
                    ok_rate = d[i4] <= d[i2] / 5 and d[i6] <= d[i4] / 5
                    sh.worst(f"{name}-ladder-rate", max(d[i4] / d[i2], d[i6] / d[i4]) * 5
                             if d[i2] > 0 and d[i4] > 0 else float("inf"))
                    if not (ok_pos and ok_dec and ok_rate):
                        sh.violation(f"{name}-ladder", lc,
                                     {"positive": bool(ok_pos), "decreasing": bool(ok_dec),
                                      "rate": bool(ok_rate), "k-z": d}, tags)
            # -- broadcast == scalar calls ---------------------------------------------
            step = 3 if sh.tier == "quick" else 2
            for ip in range(rep % step, P.size, step):
                for ic in range((rep + 1) % step, C.size, step):
                    for i_n in range((ip + ic) % 4, N.size, 4):
                        try:
                            ks = f(float(P[ip]), float(C[ic]), int(N[i_n]))
                        except Exception as e:
                            sh.violation("exception:" + name, {"p": P[ip], "c": C[ic],
                                                               "n": int(N[i_n])},
                                         {"exc": repr(e)}, tags)
                            continue
                        bc = {"f": name, "p": float(P[ip]), "c": float(C[ic]),
                              "n": int(N[i_n]), "vs": "grid element"}
                        if name == "ksingle":
                            sh.check_equal("ksingle-broadcast-bits", np.float64(ks).tobytes(),
                                           np.float64(K[ip, ic, i_n]).tobytes(), bc, tags)
                        else:
                            # Newton runs until ALL elements converge: extra iterations
                            # move the last bits of the others; tol = 1e-12 on r
                            sh.check_close("kdouble-broadcast", ks, K[ip, ic, i_n],
                                           1e-10 * abs(K[ip, ic, i_n]), bc, tags)
    # -- the mathematical remark used above, checked on the oracle itself ----------------
    for p, c, n in ((0.1, 0.5, 10), (0.01, 0.5, 1000)):
        k = float(stats.ksingle(p, c, n))
        F = S.nctcdf(mp.mpf(float(S.nppf(p))) * mp.sqrt(n), n - 1, S.nppf(p) * mp.sqrt(n))
        sh.count("mon:oracle-remark-p<half")
        # F(z_p sqrt n) > 1/2  <=>  the median of T lies below z_p sqrt n
        if not (F > 0.5 and k < float(S.nppf(p))):
            sh.violation("oracle-remark-p<half", {"p": p, "c": c, "n": n},
                         {"F_at_z": float(F), "k": k}, {})


# ------------------------------------------------------------------------- order stats

OS_N = list(range(1, 51)) + [60, 100, 230, 700, 1000, 10000, 1000000]


def _os_queries(seed, tier, which, total, sl, nsl):
    """Deterministic list of (p, c, n, r) for one `which`."""
    import numpy as np
    r = core.rng(seed, "C20", "os", which)
    out = []
    lo, hi = np.log(0.001 / 0.999), np.log(0.99999 / 0.00001)
    for i in range(total):
        if i % 5 == 4:
            p = float(np.round(1 / (1 + np.exp(-r.uniform(lo, hi))), 7))
            c = float(np.round(1 / (1 + np.exp(-r.uniform(lo, hi))), 7))
        else:
            p = PGRID[int(r.integers(len(PGRID)))]
            c = PGRID[int(r.integers(len(PGRID)))]
        if i % 11 == 0:
            p = c = 0.5                      # exact ties live here
        n = OS_N[int(r.integers(len(OS_N)))]
        if i % 7 == 3:
            n = int(r.integers(1, 3000))
        # keep the exact evaluation affordable: expected rank n(1-p) <= ~5000
        while n * (1 - p) > 5000:
            p = PGRID[min(PGRID.index(p) + 1, len(PGRID) - 1)] if p in PGRID else 0.999
        rr = int(r.integers(1, 51))
        if i % 13 == 5:
            # extreme confidence with large samples and low ranks (1 - c down to 1e-9,
            # also its mirror image): closed-form inverses of the binomial tail lose
            # their accuracy here long before the defining sum does
            c = [0.999999, 0.9999999, 1 - 1e-9, 1e-6, 1e-9, 0.99999][int(r.integers(6))]
            n = [20000, 100000, 1000000, 50000][int(r.integers(4))]
            rr = int(r.integers(1, 13))
            while n * (1 - p) > 5000:
                p = PGRID[min(PGRID.index(p) + 1, len(PGRID) - 1)] if p in PGRID else 0.9999
        out.append((p, c, n, rr))
    return out[sl::nsl]


def _near_tie(mp, conf, c):
    """conf and c agree to round-off of the floating-point evaluation (either tail):
    the integer decision is then not defined by the inputs to working precision
    (e.g. p = 0.001, c = 0.999, n = 1: 1 - fl(0.001) exceeds fl(0.999) by 9e-19).
    Exact rational ties are NOT excused here -- they are judged (and are a finding)."""
    cm = mp.mpf(c)
    return abs(conf - cm) <= mp.mpf(10) ** -12 * min(cm, 1 - cm)


def _cmp(sh, S, r, n, p, c):
    v = S.conf_cmp(r, n, p, c)
    if v is None:
        sh.refused += 1
        sh.count("refused:binomial-undecidable")
    return v


def _run_os(sh, params):
    import mpmath as mp
    import numpy as np
    from vf.oracles import stats_mp as S
    from pyyeti import stats
    mp.mp.dps = S.DPS
    _, _, nq = _budget(sh.tier)
    sl, nsl = params["slice"], params["nslice"]

    # ---- which = 'r' --------------------------------------------------------------
    for (p, c, n, _) in _os_queries(sh.seed, sh.tier, "r", nq, sl, nsl):
        case = {"which": "r", "p": p, "c": c, "n": n}
        tags = {"which": "r"}
        sh.case(case, True)
        try:
            R = stats.order_stats("r", p=p, c=c, n=n)
        except Exception as e:
            sh.violation("exception:order_stats-r", case, {"exc": repr(e)}, tags)
            continue
        if not (isinstance(R, (int, np.integer)) and 0 <= R <= n):
            sh.violation("order-r-type-range", case, {"R": R, "type": repr(type(R))}, tags)
            continue
        R = int(R)
        s_here = _cmp(sh, S, R, n, p, c) if R >= 1 else 1
        s_next = _cmp(sh, S, R + 1, n, p, c)
        if s_here is None or s_next is None:
            continue
        sh.count("mon:order-r-extremal")
        sh.count("cell:os-r:zero" if R == 0 else "cell:os-r:positive")
        if s_here < 0:
            cv = S.conf_value(R, n, p)
            if _near_tie(mp, cv, c):
                sh.count("near-tie-accepted:r")
            else:
                sh.violation("order-r-fails-confidence", case,
                             {"R": R, "conf(R)": float(cv), "c": c}, tags)
        if s_next >= 0:
            cv = S.conf_value(R + 1, n, p)
            if s_next > 0 and _near_tie(mp, cv, c):
                sh.count("near-tie-accepted:r")
            else:
                tags2 = dict(tags, exact_tie=bool(s_next == 0), R_zero=bool(R == 0))
                sh.violation("order-r-next-also-meets", case,
                             {"R": R, "conf(R+1)": float(cv), "c": c,
                              "conf(R+1)-c sign": s_next}, tags2)

    # ---- which = 'n' --------------------------------------------------------------
    for (p, c, _, r) in _os_queries(sh.seed, sh.tier, "n", nq, sl, nsl):
        case = {"which": "n", "p": p, "c": c, "r": r}
        s_min = _cmp(sh, S, r, r, p, c)          # does n = r already meet c ?
        tags = {"which": "n", "n_equals_r_suffices": bool(s_min is not None and s_min >= 0),
                "n_equals_r_strictly": bool(s_min is not None and s_min > 0)}
        sh.case(case, True)
        sh.count("cell:os-n:n=r-suffices" if tags["n_equals_r_suffices"]
                 else "cell:os-n:interior")
        try:
            Nn = stats.order_stats("n", p=p, c=c, r=r)
        except Exception as e:
            sh.count("mon:order-n-extremal")
            sh.violation("exception:order_stats-n", case, {"exc": repr(e)}, tags)
            continue
        if np.ndim(Nn) != 0 or int(Nn) != Nn or Nn < r:
            sh.violation("order-n-type-range", case, {"N": Nn}, tags)
            continue
        Nn = int(Nn)
        s_here = _cmp(sh, S, r, Nn, p, c)
        s_prev = _cmp(sh, S, r, Nn - 1, p, c) if Nn - 1 >= r else -1
        if s_here is None or s_prev is None:
            continue
        sh.count("mon:order-n-extremal")
        if s_here < 0:
            cv = S.conf_value(r, Nn, p)
            if _near_tie(mp, cv, c):
                sh.count("near-tie-accepted:n")
            else:
                sh.violation("order-n-fails-confidence", case,
                             {"N": Nn, "conf(N)": float(cv), "c": c}, tags)
        if s_prev >= 0:
            cv = S.conf_value(r, Nn - 1, p)
            if s_prev > 0 and _near_tie(mp, cv, c):
                sh.count("near-tie-accepted:n")
            else:
                sh.violation("order-n-smaller-also-meets", case,
                             {"N": Nn, "conf(N-1)": float(cv), "c": c},
                             dict(tags, exact_tie=bool(s_prev == 0)))

    # ---- which = 'c' and 'p' ----------------------------------------------------------
    for iq_, (p, c, n, r) in enumerate(_os_queries(sh.seed, sh.tier, "cp", nq, sl, nsl)):
        if iq_ % 6 == 5 and r > n:
            # a rank above the sample size (all ranks r >= 1 are quantified over): the
            # confidence is exactly 0 -- a number, not nan
            sh.count("cell:os-c:rank-above-sample-size")
        else:
            r = min(r, n)
        case = {"which": "c", "p": p, "n": n, "r": r}
        tags = {"which": "c"}
        sh.case(case, True)
        want = S.conf_value(r, n, p)
        if want is None:
            sh.refused += 1
            continue
        try:
            got = stats.order_stats("c", p=p, n=n, r=r)
            got = float(got)
        except Exception as e:
            sh.violation("exception:order_stats-c", case, {"exc": repr(e)}, tags)
            continue
        # relative accuracy of both tails (conf and 1-conf), where they are not ~0
        w = float(want)
        sh.count("mon:order-c-exact-tail")
        # relative to the smaller tail (a confidence of 1e-20 is a number, not zero) plus
        # the representation error of the value itself (a confidence within 1e-16 of 1
        # cannot be told from 1)
        tol = 1e-9 * min(w, 1 - w) + 4 * 2.220446049250313e-16 * w + 1e-300
        e = float(abs(mp.mpf(got) - want))
        sh.worst("order-c-exact-tail", e / tol)
        if not e <= tol:
            sh.violation("order-c-exact-tail", case, {"got": got, "want": w, "err": e,
                                                      "tol": tol}, tags)
        # 'p' inverts 'c'
        if not (1e-12 < c < 1) or r > n:
            continue
        case = {"which": "p", "c": c, "n": n, "r": r}
        tags = {"which": "p"}
        sh.case(case, True)
        try:
            pg = float(stats.order_stats("p", c=c, n=n, r=r))
        except Exception as e:
            sh.violation("exception:order_stats-p", case, {"exc": repr(e)}, tags)
            continue
        if pg in (0.0, 1.0):
            # an end point is within the root finder's documented resolution (2e-12 in p)
            # iff the confidence equation is already met 8e-12 inside the interval
            from fractions import Fraction
            pin = Fraction(8, 10 ** 12)
            cin = S.conf_value(r, n, 1 - pin if pg == 1.0 else pin)
            sh.count("mon:order-p-endpoint")
            ok_end = cin is not None and ((cin >= mp.mpf(c)) if pg == 1.0
                                          else (cin <= mp.mpf(c)))
            if not ok_end:
                sh.violation("order-p-range", case, {"p": pg, "conf 8e-12 inside":
                                                     None if cin is None else float(cin)},
                             tags)
            continue
        if not 0 < pg < 1:
            sh.violation("order-p-range", case, {"p": pg}, tags)
            continue
        cv = S.conf_value(r, n, pg)
        if cv is None:
            sh.refused += 1
            continue
        # conditioning on the oracle: conf is monotone in p; brentq's absolute xtol is
        # 2e-12 (+ 4 eps relative), so p is defined to ~4e-12; slope by a 1e-9 step
        # (exact rationals: pg + h rounds back to pg in floats when 1 - pg is ~1e-8)
        from fractions import Fraction
        hq = Fraction(min(pg, 1 - pg)) / 10**9
        c_hi = S.conf_value(r, n, Fraction(pg) + hq)
        c_lo = S.conf_value(r, n, Fraction(pg) - hq)
        slope = abs(c_hi - c_lo) / (2 * mp.mpf(hq.numerator) / mp.mpf(hq.denominator))
        tol = float(slope) * 8e-12 + 1e-14
        e = float(abs(cv - mp.mpf(c)))
        sh.count("mon:order-p-solves-confidence")
        sh.worst("order-p-solves-confidence", e / tol)
        if not e <= tol:
            sh.violation("order-p-solves-confidence", case,
                         {"p": pg, "conf(p)": float(cv), "c": c, "err": e, "tol": tol}, tags)
        try:
            cback = float(stats.order_stats("c", p=pg, n=n, r=r))
        except Exception as e:
            sh.violation("exception:order_stats-c", case, {"exc": repr(e)}, tags)
            continue
        sh.check_close("order-c-of-p-roundtrip", cback, c,
                       tol + 1e-9 * min(c, 1 - c), case, tags)

    # ---- broadcast == element-wise scalar calls, bit for bit --------------------------
    rg = core.rng(sh.seed, "C20", "os-bc", sl)
    nb = 6 if sh.tier == "quick" else 40
    for i in range(nb):
        pr = np.array(sorted(set(PGRID[int(j)] for j in rg.integers(4, len(PGRID), 4))))
        cc = np.array(sorted(set(PGRID[int(j)] for j in rg.integers(2, len(PGRID), 3))))
        nn = np.array(sorted(set(int(OS_N[int(j)]) for j in rg.integers(20, len(OS_N) - 1, 3))))
        rr = np.array(sorted(set(int(j) for j in rg.integers(1, 13, 3))))
        ccn = cc[cc >= 0.1] if np.any(cc >= 0.1) else np.array([0.5])
        plans = [
            ("r", dict(p=pr[None, :], c=0.9, n=nn[:, None]), ("n", nn), ("p", pr)),
            ("r", dict(p=0.99, c=cc[:, None], n=nn[None, :]), ("c", cc), ("n", nn)),
            ("c", dict(p=pr[None, :], n=int(nn[-1]), r=rr[:, None]), ("r", rr), ("p", pr)),
            ("p", dict(c=cc[None, :], n=int(nn[-1]), r=rr[:, None]), ("r", rr), ("c", cc)),
            # c >= 0.1 > (1-p): keeps clear of the known n = r bracket failure
            ("n", dict(c=ccn[None, :], p=0.99, r=rr[:, None]), ("r", rr), ("c", ccn)),
            # first element answered by the 'n = r already suffices' shortcut (an integer),
            # the others by the root search
            ("n", dict(c=0.5, p=np.array([[0.05, 0.9, 0.99]]), r=rr[:, None]), ("r", rr),
             ("p", np.array([0.05, 0.9, 0.99]))),
            ("n", dict(c=0.9, p=pr[pr >= 0.9][None, :] if np.any(pr >= 0.9) else
                       np.array([[0.95]]), r=rr[:, None]), ("r", rr),
             ("p", pr[pr >= 0.9] if np.any(pr >= 0.9) else np.array([0.95]))),
        ]
        for ip_, (which, kw, (rowname, rows), (colname, cols)) in enumerate(plans):
            layout = "broadcast-views"
            if (i + ip_) % 3 == 1:
                # the same request with every array argument a full 2-D table that is NOT
                # C-ordered (a transposed table / DataFrame.values / Fortran array)
                shp = (len(rows), len(cols))
                kw = {k: (v if np.ndim(v) == 0 else np.asfortranarray(
                    np.broadcast_to(v, shp).copy())) for k, v in kw.items()}
                layout = "fortran-2d"
            elif (i + ip_) % 3 == 2:
                shp = (len(rows), len(cols))
                kw = {k: (v if np.ndim(v) == 0 else np.ascontiguousarray(
                    np.broadcast_to(v, shp).T).T) for k, v in kw.items()}
                layout = "transposed-view"
            sh.count("cell:os-broadcast:" + layout)
            case = {"which": which, "layout": layout,
                    "broadcast": {k: np.asarray(v).ravel().tolist() for k, v in kw.items()}}
            tags = {"which": which, "broadcast": True}
            sh.case(case, True)
            try:
                A = np.asarray(stats.order_stats(which, **kw))
            except Exception as e:
                sh.violation("exception:order_stats-broadcast", case, {"exc": repr(e)},
                             tags)
                continue
            if A.shape != (len(rows), len(cols)):
                sh.violation("order-broadcast-shape", case, {"shape": A.shape}, tags)
                continue
            want = np.empty(A.shape, dtype=A.dtype)
            try:
                for a, rv in enumerate(rows):
                    for b, cv_ in enumerate(cols):
                        k2 = {k: (v if np.ndim(v) == 0 else None) for k, v in kw.items()}
                        k2[rowname] = rv.item()
                        k2[colname] = cv_.item()
                        want[a, b] = stats.order_stats(which, **k2)
            except Exception as e:
                sh.violation("exception:order_stats-scalar", case, {"exc": repr(e)}, tags)
                continue
            sh.check_equal("order-broadcast-bits", A, want, case, tags)


def run_shard(sh, params):
    kind = params["kind"]
    if kind == "ks":
        _run_ks(sh, params)
    elif kind == "kd":
        _run_kd(sh, params)
    elif kind == "grid":
        _run_grid(sh, params)
    else:
        _run_os(sh, params)


MANDATORY = ["ksingle-nct-equation", "kdouble-coverage-equation", "kdouble-chi2-equation",
             "ksingle-monotone-p", "ksingle-monotone-c", "kdouble-monotone-p",
             "kdouble-monotone-c", "ksingle-ladder", "kdouble-ladder",
             "ksingle-broadcast-bits", "kdouble-broadcast", "order-r-extremal",
             "order-n-extremal", "order-c-exact-tail", "order-p-solves-confidence",
             "order-c-of-p-roundtrip", "order-broadcast-bits", "oracle-remark-p<half"]


def finalize(agg, tier):
    why = []
    c = agg["counters"]
    for k in MANDATORY:
        if not c.get("mon:" + k):
            why.append(f"monitor {k} never evaluated")
    if not c.get("oracle-selfcheck"):
        why.append("oracle self-check did not run")
    for f in ("ks", "kd"):
        for nc in ("n2", "n3-10", "n11-50", "n1e2", "n1e3", "n1e4", "n1e6"):
            for pc in ("lo", "half", "hi"):
                for cc in ("lo", "half", "hi"):
                    if not c.get(f"cell:{f}:{nc}:{pc}:{cc}"):
                        why.append(f"cell {f}:{nc}:{pc}:{cc} empty")
    for k in ("cell:os-r:zero", "cell:os-r:positive", "cell:os-n:interior",
              "cell:os-n:n=r-suffices", "form:array", "form:scalar"):
        if not c.get(k):
            why.append(f"{k} empty")
    if agg["refused"] > 0.05 * max(agg["evaluations"], 1):
        why.append(f"oracle refused {agg['refused']} cases")
    return why


def evidence_extra(agg, tier):
    c = agg["counters"]
    return {"scipy_nct_nonfinite_excluded": c.get("excluded:scipy-nct-nonfinite", 0),
            "ksingle_ladder_cells_skipped_p_below_half":
                c.get("ladder-skipped:ksingle-p<half", 0),
            "k_relative_tolerance": TOLK}
