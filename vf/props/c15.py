"""C15 -- Norton-Thevenin coupling (frclim.ntfl / calcAM) == the directly coupled system.

Source and Load substructures (6-DOF-per-node joint/lump models restricted to 1, 3 or 6
DOF per node, free-free, proportional / non-proportional / gyroscopic-like non-symmetric
/ complex damping) are handed to ``ntfl`` in physical, modal and Craig-Bampton form, with
the boundary given as a partition vector (cb.cbtf route), as a recovery matrix (SolveUnc
``pre_eig`` route; FreqDirect fallback for non-symmetric stiffness) or as a precomputed
apparent-mass array.  The oracle (``vf.oracles.nt_coupled``) assembles the physically
coupled system from exactly the matrices that were passed, solves it densely per
frequency and recovers the interface force from the Load's own dynamic stiffness.
"""
import warnings

from vf import core

ID = "C15"
LEVEL = "exploration"
RULE = ("pairs = seeded Source/Load substructures (dim 1/3/6 DOF per node, 2-6 nodes, "
        "1-6 interface DOF, statically determinate / redundant / under-determinate "
        "interfaces, Load possibly without interior DOF) x damping family x the form "
        "each is handed over in (physical+recovery matrix, modal+recovery matrix, "
        "CB+partition vector in sorted/unsorted/interleaved layouts, CB+recovery matrix, "
        "non-symmetric K -> FreqDirect, precomputed AM array) x frequency vectors through "
        "the coupled resonances x complex external forces on random Source DOF.  distinct = "
        "distinct (pair index, forms) descriptors; non-trivial = non-zero external force, "
        "at least one frequency accepted by the conditioning test")
ASSUMPTIONS = [
    "numpy.linalg.solve / scipy.linalg.eigh are trusted as the reference linear algebra",
    "no modal truncation: CB and modal forms keep every mode, so both routes are exact",
    "the reference is computed from exactly the matrices handed to pyYeti (CB / modal "
    "transformations are done by the harness before both)",
    "conditioning is measured on the oracle's own evaluation of the Norton-Thevenin "
    "formulas (inputs, free acceleration and accelerances perturbed by 1e-13); "
    "frequencies whose amplification exceeds 1e6 are refused",
    "complex or non-symmetric terms are confined to damping (and a circulatory stiffness "
    "part for the FreqDirect fallback); Hermitian-complex K/M with pre_eig is a C02 finding",
]
MIN_NONTRIVIAL = {"quick": 200, "thorough": 5000}
TIMEOUT = {"quick": 1500, "thorough": 10800}
AMBIENT = {"tests": ['test_frclim.py', 'test_ntfl_rbdamping.py'], "monitors": ['ntfl'], "quick": False}
NSLICE = {"quick": 16, "thorough": 16}
NPAIR = {"quick": 640, "thorough": 8000}
AMP_LIMIT = 1e6
# multiple of the first-order round-off estimate (3 perturbed copies sample the spread; a
# factor 200 left the unchanged tree at 0.3 of the tolerance and once at 5)
SAFETY = 1000
DELTA = 1e-13

FORMS_SRC = ["phys-drm", "cb-pv", "modal-drm", "cb-drm", "phys-drm", "cb-pv",
             "nonsym-k", "am-array"]
FORMS_LOAD = ["cb-pv", "phys-drm", "cb-pv", "modal-drm", "nonsym-k", "cb-drm",
              "phys-drm", "cb-pv", "am-array"]


def shards(tier, seed):
    ns = NSLICE[tier]
    return [{"slice": s, "nslice": ns} for s in range(ns)]


# ======================================================================================
# generators
# ======================================================================================

def _logu(r, lo, hi, size=None):
    import numpy as np
    return np.exp(r.uniform(np.log(lo), np.log(hi), size))


def _spd6(r, tlo, thi, rlo, rhi):
    """6x6 SPD joint matrix: translational / rotational magnitudes from the ranges."""
    import numpy as np
    q, _ = np.linalg.qr(r.standard_normal((3, 3)))
    q2, _ = np.linalg.qr(r.standard_normal((3, 3)))
    X = np.zeros((6, 6))
    X[:3, :3] = q @ np.diag(_logu(r, tlo, thi, 3)) @ q.T
    X[3:, 3:] = q2 @ np.diag(_logu(r, rlo, rhi, 3)) @ q2.T
    c = 0.2 * np.sqrt(np.outer(np.diag(X)[:3], np.diag(X)[3:])) * r.uniform(-1, 1, (3, 3))
    X[:3, 3:] = c
    X[3:, :3] = c.T
    return X


def gen_struct(r, dim, N, iface_nodes_pos, damp, nonsym_k=False, dashpot_body=False):
    """One free-free substructure whose first len(iface_nodes_pos) nodes sit at the
    given positions (the interface nodes).  Returns physical M, B, K and node positions."""
    import numpy as np
    from vf.oracles import nt_coupled as nt
    pos = [np.array(p, float) for p in iface_nodes_pos]
    while len(pos) < N:
        p = r.uniform(-1.5, 1.5, 3)
        if dim == 3:
            p[2] = 0.0
        pos.append(p)
    pairs = [(i, i + 1) for i in range(N - 1)]
    for _ in range(int(r.integers(0, 3))):
        if N >= 3:
            a, b = sorted(int(x) for x in r.choice(N, 2, replace=False))
            if (a, b) not in pairs:
                pairs.append((a, b))
    kel, cel = [], []
    for (i, j) in pairs:
        c = (pos[i] + pos[j]) / 2 + 0.2 * r.uniform(-1, 1, 3)
        if dim == 3:
            c[2] = 0.0
        k6 = _spd6(r, 2e4, 1e6, 2e3, 5e4)
        kel.append((i, j, c, k6))
        if damp == "prop":
            continue
        c6 = _spd6(r, 5.0, 200.0, 0.5, 20.0)
        if damp in ("gyro", "complex"):
            S = r.uniform(-1, 1, (6, 6))
            S = (S - S.T) * 0.5 * np.sqrt(np.outer(np.diag(c6), np.diag(c6)))
            c6 = c6 + S                       # non-symmetric, still rigid-invariant
        if damp == "complex":
            c6 = c6 * (1 + 0.3j * r.uniform(-1, 1)) + 0.2j * np.abs(c6) * \
                r.uniform(-1, 1, (6, 6))
        cel.append((i, j, c, c6))
    if dashpot_body and damp != "prop":
        # one more body, tied to the structure through a viscous joint ONLY: the
        # stiffness null space is then larger than the set of undamped rigid-body
        # modes (0 is a defective eigenvalue of the state matrix); the response at
        # f > 0 is perfectly well defined all the same
        j = int(r.integers(len(iface_nodes_pos), N)) if N > len(iface_nodes_pos) \
            else int(r.integers(0, N))
        p = pos[j] + r.uniform(-0.5, 0.5, 3)
        if dim == 3:
            p[2] = 0.0
        pos.append(p)
        c = (pos[j] + p) / 2
        cel.append((j, N, c, _spd6(r, 5.0, 200.0, 0.5, 20.0)))
        N += 1
    K = nt.assemble(pos, kel, dim)
    alpha = None
    if damp == "prop":
        alpha = float(_logu(r, 3e-5, 4e-4))
        B = K * alpha
    else:
        B = nt.assemble(pos, [(i, j, c, np.asarray(X)) for (i, j, c, X) in cel], dim) \
            if not np.iscomplexobj(cel[0][3]) else _assemble_complex(nt, pos, cel, dim)
    masses = []
    for _ in range(N):
        q, _ = np.linalg.qr(r.standard_normal((3, 3)))
        masses.append((float(_logu(r, 1.0, 20.0)), q @ np.diag(_logu(r, 0.05, 1.5, 3)) @ q.T,
                       np.array([0.15, 0.15, 0.0 if dim == 3 else 0.15])
                       * r.uniform(-1, 1, 3)))
    M = nt.mass_matrix(pos, masses, dim)
    if nonsym_k:
        # circulatory (follower-force like) part, rigid-invariant: K becomes non-symmetric
        cir = []
        for (i, j, c, k6) in kel:
            S = r.uniform(-1, 1, (6, 6))
            cir.append((i, j, c, 0.05 * (S - S.T) * np.sqrt(np.outer(np.diag(k6),
                                                                   np.diag(k6)))))
        K = K + nt.assemble(pos, cir, dim)
        if dim == 1 and N >= 3:
            # a 1x1 skew matrix vanishes: use a cyclic antisymmetric part on three
            # nodes instead (zero row and column sums: still rigid-invariant)
            a, b, c = (int(x) for x in r.choice(N, 3, replace=False))
            s_ = 0.05 * np.abs(K).max() * r.uniform(0.5, 1.0)
            for (u, v) in ((a, b), (b, c), (c, a)):
                K[u, v] += s_
                K[v, u] -= s_
    return M, B, K, pos, alpha


def _assemble_complex(nt, pos, els, dim):
    import numpy as np
    re = nt.assemble(pos, [(i, j, c, np.real(X)) for (i, j, c, X) in els], dim)
    im = nt.assemble(pos, [(i, j, c, np.imag(X)) for (i, j, c, X) in els], dim)
    return re + 1j * im


def gen_pair(seed, i):
    """Pair number i: everything derives from (seed, i)."""
    import numpy as np
    from vf.oracles import nt_coupled as nt
    r = core.rng(seed, "C15", "pair", i)
    dim = [1, 1, 3, 6, 1, 3, 1, 6][i % 8]
    rr = (i // 8) % 6 + 1                      # requested number of interface DOF 1..6
    damp = ["prop", "elements", "gyro", "complex", "gyro", "elements"][(i // 3) % 6]
    nper = dim
    # interface definition: list of (node, local dof) in order
    if dim == 1:
        iface = [(q, 0) for q in range(rr)]
    else:
        nfull, rest = divmod(rr, nper)
        iface = [(q, d) for q in range(nfull) for d in range(nper)]
        if rest:
            loc = sorted(int(x) for x in r.choice(nper, rest, replace=False))
            iface += [(nfull, d) for d in loc]
    nif_nodes = max(q for q, _ in iface) + 1
    ipos = []
    for _ in range(nif_nodes):
        p = r.uniform(-0.5, 0.5, 3)
        if dim == 3:
            p[2] = 0.0
        ipos.append(p)
    nmax = {1: 6, 3: 4, 6: 3}[dim]
    Ns = int(r.integers(max(2, nif_nodes), max(2, nif_nodes) + 3))
    Ns = max(nif_nodes + (1 if r.random() < 0.85 else 0), min(Ns, max(nmax, nif_nodes)))
    noq = (i % 7 == 5)                          # Load without interior DOF
    if noq and all(sum(1 for q, _ in iface if q == nd) == nper for nd in range(nif_nodes)):
        Nl = nif_nodes
    else:
        noq = False
        Nl = int(r.integers(nif_nodes + 1, max(nif_nodes + 1, nmax) + 1))
    fsrc = FORMS_SRC[(i // 2) % len(FORMS_SRC)]
    fload = FORMS_LOAD[(i // 5) % len(FORMS_LOAD)]
    if noq and (i // 7) % 4 != 3:
        fload = "cb-pv"          # every DOF a boundary DOF: cbtf's branch without a q-set
    dash = bool(fsrc == "phys-drm" and damp in ("elements", "gyro") and i % 4 == 1)
    Ms, Bs, Ks, ps, als = gen_struct(r, dim, max(Ns, 2), ipos, damp,
                                     nonsym_k=fsrc == "nonsym-k", dashpot_body=dash)
    if noq:
        Ml, Bl, Kl, pl, all_ = _lump_only(r, dim, ipos)
    else:
        Ml, Bl, Kl, pl, all_ = gen_struct(r, dim, max(Nl, 2), ipos, damp,
                                          nonsym_k=fload == "nonsym-k")
    bs = np.array([q * nper + d for q, d in iface])
    bl = bs.copy()
    nrb = dim
    # does the interface restrain every rigid-body mode?  (needed for CB forms)
    def restrained(K, b):
        o = np.setdiff1d(np.arange(K.shape[0]), b)
        if o.size == 0:
            return True
        Ko = K[np.ix_(o, o)]
        Ko = (Ko + Ko.T) / 2
        w = np.linalg.eigvalsh(Ko)
        return bool(w.min() > 1e-7 * w.max())
    determinate = ((rr == nrb and nif_nodes == 1) or (dim == 1 and rr == 1)) and not dash
    us = 1.0
    return dict(i=i, dim=dim, r=rr, damp=damp, iface=iface, noq=noq, unit_scale=us,
                dashpot_body=dash,
                S=(Ms, Bs, Ks), L=(Ml, Bl, Kl), bs=bs, bl=bl, pos_s=ps, pos_l=pl,
                fsrc=fsrc, fload=fload, nrb=nrb, determinate=determinate,
                alpha_s=als, alpha_l=all_,
                cb_ok_s=restrained(Ks, bs), cb_ok_l=restrained(Kl, bl), ipos=ipos)


def _lump_only(r, dim, ipos):
    """Load made of lumps on the interface nodes only (plus joints between them)."""
    import numpy as np
    N = len(ipos)
    if N == 1:
        from vf.oracles import nt_coupled as nt
        q, _ = np.linalg.qr(r.standard_normal((3, 3)))
        M = nt.mass_matrix([np.array(ipos[0], float)],
                           [(float(_logu(r, 1.0, 20.0)),
                             q @ np.diag(_logu(r, 0.05, 1.5, 3)) @ q.T,
                             0.1 * r.uniform(-1, 1, 3) * np.array([1, 1, 0 if dim == 3 else 1]))],
                           dim)
        n = M.shape[0]
        return M, np.zeros((n, n)), np.zeros((n, n)), [np.array(ipos[0], float)], None
    return gen_struct(r, dim, N, ipos, "elements")


def make_form(np, nt, r, form, M, B, K, b, cb_ok, alpha=None, determinate=False):
    """Hand-over form of one substructure.

    Returns dict(arg=[m, b, k, bdof] for pyYeti, mats=(M, B, K) as passed (dense),
    T = recovery matrix (r x n) equivalent to bdof, tf = map physical force -> passed
    coordinates (n_passed x n_phys), form = actual form, sel = boundary index vector in
    passed coordinates or None)."""
    n = K.shape[0]
    rr = len(b)
    if form in ("cb-pv", "cb-drm") and not cb_ok:
        form = "phys-drm"
    if form == "nonsym-k" or form == "phys-drm" or form == "am-array":
        order = np.arange(n)
        if r.random() < 0.5:
            order = r.permutation(n)
        Mp, Bp, Kp = nt.permute(M, B, K, order)
        inv = np.argsort(order)
        bnew = inv[b]
        T = np.zeros((rr, n))
        T[np.arange(rr), bnew] = 1.0
        P = np.zeros((n, n))
        P[np.arange(n), order] = 1.0              # passed = P @ physical
        m_arg = Mp
        if form == "phys-drm" and not np.any(Mp - np.diag(np.diag(Mp))) and r.random() < 0.6:
            m_arg = np.diag(Mp).copy()        # lumped masses handed over as a 1-D vector
        return dict(arg=[m_arg, Bp, Kp, T], mats=(Mp, Bp, Kp), T=T, tf=P, form=form,
                    sel=bnew, mass_1d=bool(m_arg.ndim == 1))
    if form == "modal-drm":
        from scipy.linalg import eigh
        w, phi = eigh((K + K.T) / 2, (M + M.T) / 2)
        Bm = phi.T @ B @ phi
        T = phi[b, :].copy()
        kd = w.copy()
        # rigid-body modes: exactly zero stiffness and damping (true analytically; SolveUnc
        # treats |k| < 0.005 as rigid-body and would ignore the round-off sized values)
        rbm = np.abs(kd) < 1e-7 * np.abs(kd).max()
        kd[rbm] = 0.0
        Bm[rbm, :] = 0.0
        Bm[:, rbm] = 0.0
        if alpha is not None:
            # proportional damping is exactly diagonal in modal space; hand it over so
            # (round-off sized off-diagonals would sit inside ytools.isdiag's 1e-12 band)
            Bm = np.diag(alpha * kd)
        return dict(arg=[None, Bm, kd, T], mats=(np.eye(n), Bm, np.diag(kd)), T=T,
                    tf=phi.T.copy(), form=form, sel=None)
    # Craig-Bampton forms
    Mcb, Bcb, Kcb, Tcb, w = nt.cb_reduce(M, B, K, b)
    nq = n - rr
    # exactly CB: identity modal mass, diagonal modal stiffness (true analytically)
    if nq:
        Mcb[rr:, rr:] = np.eye(nq)
        Kcb[rr:, rr:] = np.diag(w)
    Mcb = (Mcb + Mcb.T) / 2
    if determinate:
        # constraint modes are rigid-body modes: no elastic or damping force on the b-set
        Kcb[:rr, :rr] = 0.0
        Bcb[:rr, :] = 0.0
        Bcb[:, :rr] = 0.0
    if alpha is not None:
        Bcb = alpha * Kcb
    # normalisation of the fixed-interface modes: y_q = cq * y_q' (unit modal mass is a
    # convention, not part of the CB form).  With cq = 1e-3 the modal stiffness of a
    # 10 Hz mode is 4e-3: absolute thresholds (rigid-body auto-detection |k| < 0.005)
    # must not start to matter.
    cq = [1.0, 1.0, 1e-3, 1e-2, 1.0, 30.0][int(r.integers(6))]
    if form != "cb-pv":
        cq = 1.0     # (recovery-matrix form: eigensolution of the whole matrices; a badly
        #              scaled q-block there is an ill-conditioned input, not a unit choice)
    if nq and cq != 1.0:
        Dq = np.ones(n)
        Dq[rr:] = cq
        Mcb, Bcb, Kcb = (X * np.outer(Dq, Dq) for X in (Mcb, Bcb, Kcb))
        Tcb = Tcb * Dq[None, :]
    # layout of the b-set inside the CB matrices and its order in the partition vector
    lay = int(r.integers(3))
    if lay == 0:
        where = np.arange(rr)                      # b-set first
    elif lay == 1:
        where = nq + np.arange(rr)                 # b-set last
    else:
        where = np.sort(r.choice(n, rr, replace=False))   # interleaved
    if r.random() < (0.9 if nq == 0 else 0.6):
        where = r.permutation(where)               # unsorted partition vector
    order = np.empty(n, int)                       # new position p holds old dof order[p]
    rest = np.setdiff1d(np.arange(n), where)
    order[where] = np.arange(rr)
    order[rest] = rr + np.arange(nq)
    Mp, Bp, Kp = nt.permute(Mcb, Bcb, Kcb, order)
    P = np.zeros((n, n))
    P[np.arange(n), order] = 1.0
    tf = P @ Tcb.T
    T = np.zeros((rr, n))
    T[np.arange(rr), where] = 1.0
    if form == "cb-pv":
        pv = where.copy()
        if rr == 1 and r.random() < 0.5:
            pv = int(pv[0])
        # cbtf solves on the q-set only: eigensolver-type (norm-wise) backward error is
        # relative to that block, element-wise everywhere else
        return dict(arg=[Mp, Bp, Kp, pv], mats=(Mp, Bp, Kp), T=T, tf=tf, form=form,
                    sel=where, lay=lay, unsorted=bool(np.any(np.diff(where) < 0)),
                    pert_blocks=[rest.copy()], cq=cq)
    return dict(arg=[Mp, Bp, Kp, T], mats=(Mp, Bp, Kp), T=T, tf=tf, form=form, sel=where)


# ======================================================================================
# oracle-side Norton-Thevenin evaluation (for conditioning only) and reference values
# ======================================================================================

def _nt_eval(np, nt, S, L, As, W):
    """SAM, LAM, A, F by the NT formulas from dense accelerances (oracle's own code)."""
    SAM, LAM = nt.apparent_mass(*S, W), nt.apparent_mass(*L, W)
    A = np.linalg.solve(SAM + LAM, SAM @ As)
    return SAM, LAM, A, LAM @ A


def _perturbed(np, O, rp, X4, dense_blocks):
    M, B, K, T = X4
    out = []
    for X in (M, B, K):
        Xp = O.perturb(rp, X, DELTA)
        # pre_eig / complex-mode routes rest on eigensolvers: backward error relative to
        # the norm of the whole matrix
        Xp = O.perturb_normwise(rp, Xp, dense_blocks, DELTA, scale="global")
        out.append(Xp)
    out.append(O.perturb(rp, T, DELTA))
    return tuple(out)


def route_error(np, O, f, freq):
    """Magnitude bound (r x nf x r) on the round-off of the route pyYeti takes for this
    hand-over form: error of the accelerance H_bb for recovery-matrix forms ("H"), error
    of the apparent mass itself for the partition-vector form ("AM").  It is the C02
    model of SolveUnc's complex-mode route (oracles.freq_direct.modal_route_bound, x30),
    applied to the elastic modal block that route diagonalises; zero when that block has
    diagonal damping (closed-form route) or when FreqDirect is used."""
    from scipy.linalg import eigh
    M, B, K = f["mats"]
    T = f["T"]
    r, n = T.shape
    W = 2 * np.pi * np.asarray(freq, float)
    nf = W.size
    E = np.zeros((r, nf, r))
    if f["form"] != "cb-pv":
        # recovery-matrix routes form H_bb (unit-force solutions) and invert it: plain
        # round-off of H_bb, relative to its largest entry, is amplified by cond(H_bb)
        # when the caller propagates E through |AM| E |AM|
        with np.errstate(all="ignore"):
            for j in range(nf):
                if W[j] == 0:
                    continue
                try:
                    H = -(W[j] ** 2) * (T @ np.linalg.solve(
                        -(W[j] ** 2) * M + 1j * W[j] * B + K, T.T.astype(complex)))
                    E[:, j, :] = 50 * 2.220446049250313e-16 * np.abs(H).max()
                except np.linalg.LinAlgError:
                    E[:, j, :] = np.inf
    if f["form"] == "nonsym-k":
        return "H", E

    def isdiag(X):
        off = np.abs(X - np.diag(np.diag(X)))
        return off.size == 0 or off.max() <= 1e-10 * max(np.abs(np.diag(X)).max(), 1e-300)
    if f["form"] == "cb-pv":
        b = np.asarray(f["sel"], int)
        q = np.setdiff1d(np.arange(n), b)
        if q.size == 0:
            return "AM", E
        qq, qb, bq = np.ix_(q, q), np.ix_(q, b), np.ix_(b, q)
        if isdiag(B[qq]) and isdiag(M[qq]) and isdiag(K[qq]):
            return "AM", E
        with np.errstate(all="ignore"):
            for k in range(r):
                Wz = np.where(W == 0, 1.0, W)
                F = (1j * B[qb][:, [k]] / Wz[None, :] - M[qb][:, [k]] * np.ones((1, nf)))
                bnd, cU = O.modal_route_bound(M[qq], B[qq], K[qq], F, freq)
                rowm = np.abs(M[bq]).sum(axis=1)
                rowb = np.abs(B[bq]).sum(axis=1)
                E[:, :, k] = 30 * (rowm[:, None] * W[None, :] ** 2
                                   + rowb[:, None] * np.abs(W)[None, :]) * bnd[None, :]
        return "AM", E
    # recovery-matrix forms: SolveUnc(pre_eig=True)
    w, phi = eigh((K + K.T).real / 2, (M + M.T).real / 2)
    Bfull = phi.T @ B @ phi
    # modes that go through the complex eigen-solution: all but the rigid-body modes of
    # the documented rule (stiffness AND damping rows/columns below 0.005); a mode without
    # stiffness but with damping (a body held by a dashpot only) is one of them, and the
    # eigenvector conditioning it brings is part of the route's error
    lowk = np.abs(w) < 0.005
    lowb = (np.abs(Bfull).max(axis=0) < 0.005) & (np.abs(Bfull).max(axis=1) < 0.005)
    el = np.nonzero(~(lowk & lowb))[0]
    if el.size == 0:
        return "H", E
    E = E.copy()
    Bm = Bfull[np.ix_(el, el)]
    if isdiag(Bm):
        return "H", E
    Tm = (T @ phi)[:, el]
    rows = np.abs(Tm).sum(axis=1)
    with np.errstate(all="ignore"):
        for k in range(r):
            F = np.outer(Tm[k], np.ones(nf)).astype(complex)
            bnd, cU = O.modal_route_bound(None, Bm, np.diag(w[el]).astype(complex), F, freq)
            E[:, :, k] += 30 * rows[:, None] * (W[None, :] ** 2) * bnd[None, :]
    return "H", E


class PairRef:
    """Reference A, F, AMs for one pair/force/frequency set + conditioned tolerances."""

    def __init__(self, np, nt, O, fs_, fl_, fpass, freq, rkey):
        self.freq = np.asarray(freq, float)
        W = 2 * np.pi * self.freq
        nf = W.size
        S = fs_["mats"] + (fs_["T"],)
        L = fl_["mats"] + (fl_["T"],)
        r = fs_["T"].shape[0]
        self.r = r
        self.As = np.zeros((r, nf), complex)
        self.A = np.zeros((r, nf), complex)
        self.F = np.zeros((r, nf), complex)
        self.SAM = np.zeros((r, nf, r), complex)
        self.LAM = np.zeros((r, nf, r), complex)
        self.R = np.zeros((r, nf), complex)
        sR = np.zeros((r, nf))
        self.selfgap = 0.0
        sA = np.zeros((r, nf))
        sF = np.zeros((r, nf))
        floorA = np.zeros(nf)
        EPS_LD = float(np.finfo(np.longdouble).eps)
        sS = np.zeros((r, nf, r))
        sL = np.zeros((r, nf, r))
        rp = core.rng(*rkey)
        ns, nl = S[0].shape[0], L[0].shape[0]
        copies = [(_perturbed(np, O, rp, S, fs_.get("pert_blocks", [np.arange(ns)])),
                   _perturbed(np, O, rp, L, fl_.get("pert_blocks", [np.arange(nl)])))
                  for _ in range(3)]
        with np.errstate(all="ignore"):
            for j, Wj in enumerate(W):
                f = fpass[:, j]
                try:
                    self.As[:, j] = nt.free_accel(*S, Wj, f)
                    A, F = nt.coupled_dual(S, L, Wj, f)
                    if fs_["sel"] is not None and fl_["sel"] is not None:
                        A2, F2 = nt.coupled_primal(S[:3], L[:3], fs_["sel"], fl_["sel"],
                                                   Wj, f)
                        sc = max(np.abs(A2).max(), 1e-300), max(np.abs(F2).max(), 1e-300)
                        self.selfgap = max(self.selfgap, np.abs(A - A2).max() / sc[0],
                                           np.abs(F - F2).max() / sc[1])
                        A, F = A2, F2
                    self.A[:, j], self.F[:, j] = A, F
                    # accuracy of the ORACLE itself: free and coupled accelerations are
                    # refined in extended precision (eps 1.1e-19) relative to the largest
                    # acceleration anywhere in the source, so an interface that moves
                    # 1e-10 of the interior is known to 1e-9 only
                    amax = Wj ** 2 * float(np.abs(np.linalg.solve(
                        nt.dyn(S[0], S[1], S[2], Wj), f.astype(complex))).max())
                    floorA[j] = 16 * EPS_LD * amax
                    SAM, LAM, An, Fn = _nt_eval(np, nt, S, L, self.As[:, j], Wj)
                    self.SAM[:, j, :], self.LAM[:, j, :] = SAM, LAM
                    Rn = np.diag(np.linalg.solve(SAM + LAM, SAM))
                    self.R[:, j] = Rn
                except np.linalg.LinAlgError:
                    sA[:, j] = sF[:, j] = np.inf
                    sS[:, j, :] = sL[:, j, :] = np.inf
                    continue
                for (Sp, Lp) in copies:
                    try:
                        Asp = self.As[:, j] * (1 + DELTA * rp.choice([-1.0, 1.0], r))
                        Wp = Wj * (1 + DELTA * rp.choice([-1.0, 1.0]))   # full size: one scalar, no averaging
                        S1, L1, A1, F1 = _nt_eval(np, nt, Sp, Lp, Asp, Wp)
                    except np.linalg.LinAlgError:
                        sA[:, j] = sF[:, j] = np.inf
                        continue
                    sA[:, j] = np.maximum(sA[:, j], np.abs(A1 - An))
                    sF[:, j] = np.maximum(sF[:, j], np.abs(F1 - Fn))
                    sS[:, j, :] = np.maximum(sS[:, j, :], np.abs(S1 - SAM))
                    sR[:, j] = np.maximum(sR[:, j], np.abs(
                        np.diag(np.linalg.solve(S1 + L1, S1)) - Rn))
                    sL[:, j, :] = np.maximum(sL[:, j, :], np.abs(L1 - LAM))
        self.tolA, self.ampA = self._coltol(np, self.A, sA)
        self.tolF, self.ampF = self._coltol(np, self.F, sF)
        self.tolS, self.ampS = self._amtol(np, self.SAM, sS)
        self.tolL, self.ampL = self._amtol(np, self.LAM, sL)
        self.tolR, _ = self._coltol(np, self.R, sR)
        self.base_tolS, self.base_tolL = self.tolS.copy(), self.tolL.copy()
        # round-off of the route pyYeti takes, propagated to first order through
        # AM = H^-1, A = TAM^-1 SAM As, F = LAM A  (magnitudes)
        with np.errstate(all="ignore"):
            dAM = []
            for f_, AM in ((fs_, self.SAM), (fl_, self.LAM)):
                kind, E = route_error(np, O, f_, self.freq)
                if kind == "H":
                    aAM = np.abs(AM)
                    E = np.einsum("ifk,kfl,lfm->ifm", aAM, E, aAM)
                dAM.append(np.where(np.isfinite(E), E, np.inf))
            dS, dL = dAM
            dA = np.zeros((r, nf))
            dF = np.zeros((r, nf))
            dR = np.zeros((r, nf))
            for j in range(nf):
                try:
                    Ti = np.abs(np.linalg.inv(self.SAM[:, j, :] + self.LAM[:, j, :]))
                except np.linalg.LinAlgError:
                    dA[:, j] = dF[:, j] = np.inf
                    continue
                # admissible error of the apparent masses = route model + the conditioned
                # round-off part their own monitors allow (base_tol*); whatever SAM / LAM
                # may be off by propagates into A and F through the documented formula
                ES = dS[:, j, :] + self.base_tolS[j]
                EL = dL[:, j, :] + self.base_tolL[j]
                dA[:, j] = Ti @ (ES @ np.abs(self.As[:, j] - self.A[:, j])
                                 + EL @ np.abs(self.A[:, j]))
                dF[:, j] = EL @ np.abs(self.A[:, j]) \
                    + np.abs(self.LAM[:, j, :]) @ dA[:, j]
                Mr = np.linalg.solve(self.SAM[:, j, :] + self.LAM[:, j, :],
                                     self.SAM[:, j, :])
                dR[:, j] = np.diag(Ti @ (dS[:, j, :] @ np.abs(np.eye(r) - Mr)
                                         + dL[:, j, :] @ np.abs(Mr)))
            self.tolS = self.tolS + dS.max(axis=(0, 2))
            self.tolL = self.tolL + dL.max(axis=(0, 2))
            floorA = np.where(np.isfinite(floorA), floorA, 0.0)
            self.oracle_floorA = floorA
            self.tolA = self.tolA + dA.max(axis=0) + floorA
            self.tolF = self.tolF + dF.max(axis=0) \
                + np.abs(self.LAM).sum(axis=2).max(axis=0) * floorA
            self.tolR = np.where(np.isfinite(dR.max(axis=0)), self.tolR + dR.max(axis=0), 0.0)
            # frequencies where that model allows more than 1e-6 are refused
            for t_, ref_, amp_ in ((floorA, np.abs(self.A).max(axis=0), "ampA"),
                                   (dS.max(axis=(0, 2)), np.abs(self.SAM).max(axis=(0, 2)),
                                    "ampS"),
                                   (dL.max(axis=(0, 2)), np.abs(self.LAM).max(axis=(0, 2)),
                                    "ampL"),
                                   (dA.max(axis=0), np.abs(self.A).max(axis=0), "ampA"),
                                   (dF.max(axis=0), np.abs(self.F).max(axis=0), "ampF")):
                bad = ~(t_ <= 1e-6 * ref_)
                setattr(self, amp_, np.where(bad & (ref_ > 0), np.inf, getattr(self, amp_)))
            self.tolS = np.where(np.isfinite(self.tolS), self.tolS, 0.0)
            self.tolL = np.where(np.isfinite(self.tolL), self.tolL, 0.0)
            self.tolA = np.where(np.isfinite(self.tolA), self.tolA, 0.0)
            self.tolF = np.where(np.isfinite(self.tolF), self.tolF, 0.0)
        self.ok = (self.ampA <= AMP_LIMIT) & (self.ampF <= AMP_LIMIT) \
            & (self.ampS <= AMP_LIMIT) & (self.ampL <= AMP_LIMIT)

    @staticmethod
    def _coltol(np, ref, sig):
        scale = np.abs(ref).max(axis=0)
        sg = np.where(np.isfinite(sig), sig, np.inf).max(axis=0)
        with np.errstate(all="ignore"):
            tol = SAFETY * (sg / DELTA) * 2.220446049250313e-16 + 1e-13 * scale
            amp = np.where(scale > 0, sg / (DELTA * scale), np.where(sg > 0, np.inf, 0.0))
        amp = np.where(np.isfinite(amp), amp, np.inf)
        return tol, amp

    @staticmethod
    def _amtol(np, ref, sig):
        scale = np.abs(ref).max(axis=(0, 2))
        sg = np.where(np.isfinite(sig), sig, np.inf).max(axis=(0, 2))
        with np.errstate(all="ignore"):
            tol = SAFETY * (sg / DELTA) * 2.220446049250313e-16 + 1e-13 * scale
            amp = np.where(scale > 0, sg / (DELTA * scale), np.where(sg > 0, np.inf, 0.0))
        amp = np.where(np.isfinite(amp), amp, np.inf)
        return tol, amp


# ======================================================================================
# shard driver
# ======================================================================================

class Routes:
    """Counting wrappers on cb.cbtf, ode.SolveUnc, ode.FreqDirect (package attributes)."""

    def __init__(self, sh):
        from pyyeti import cb, ode, frclim
        self.sh, self.cb, self.ode = sh, cb, ode
        self.last = []
        outer = self
        self.orig = (cb.cbtf, ode.SolveUnc, ode.FreqDirect)
        orig_cbtf, SU, FD = self.orig

        def cbtf(*a, **k):
            outer.sh.count("route:cbtf-call")
            outer.last.append("cbtf")
            return orig_cbtf(*a, **k)

        class SolveUncC(SU):
            def __init__(self, *a, **k):
                if k.get("pre_eig"):
                    outer.sh.count("route:SolveUnc-pre_eig-construct")
                    outer.last.append("SolveUnc")
                else:
                    outer.sh.count("route:SolveUnc-other-construct")
                super().__init__(*a, **k)
                if k.get("pre_eig"):
                    pc = getattr(self, "pc", None)
                    if pc is not None and getattr(pc, "eig_success", True) is False:
                        outer.last.append("SolveUnc:eig-failed")

        class FreqDirectC(FD):
            def __init__(self, *a, **k):
                outer.sh.count("route:FreqDirect-construct")
                outer.last.append("FreqDirect")
                super().__init__(*a, **k)
        SolveUncC.__name__, FreqDirectC.__name__ = "SolveUnc", "FreqDirect"
        cb.cbtf, ode.SolveUnc, ode.FreqDirect = cbtf, SolveUncC, FreqDirectC
        if frclim.cb is not cb or frclim.ode is not ode:
            raise RuntimeError("frclim does not call through the wrapped packages")

    def restore(self):
        self.cb.cbtf, self.ode.SolveUnc, self.ode.FreqDirect = self.orig


def _tags(p, fs_, fl_):
    return {"dim": p["dim"], "r": p["r"], "damp": p["damp"], "unit_scale": p["unit_scale"],
            "src_form": fs_["form"],
            "load_form": fl_["form"], "noq": bool(p["noq"]),
            "determinate": bool(p["determinate"]),
            "src_unsorted_bset": bool(fs_.get("unsorted", False)),
            "load_unsorted_bset": bool(fl_.get("unsorted", False))}


def _freqs(np, nt, r, p, fs_, fl_):
    """Frequencies through the coupled resonances of the pair."""
    from scipy.linalg import eigh
    Ms, Bs, Ks = p["S"]
    Ml, Bl, Kl = p["L"]
    out = []
    for (M, K) in ((Ms, Ks), (Ml, Kl)):
        w = eigh((K + K.T).real / 2, (M + M.T).real / 2, eigvals_only=True)
        out += [np.sqrt(x) / 2 / np.pi for x in w if x > 1e-6 * max(abs(w).max(), 1e-30)]
    # coupled system (interface merged) natural frequencies
    ns, nl = Ms.shape[0], Ml.shape[0]
    bs, bl = p["bs"], p["bl"]
    os_ = np.setdiff1d(np.arange(ns), bs)
    ol = np.setdiff1d(np.arange(nl), bl)
    n = os_.size + len(bs) + ol.size
    Ls = np.zeros((ns, n))
    Ls[os_, np.arange(os_.size)] = 1
    Ls[bs, os_.size + np.arange(len(bs))] = 1
    Ll = np.zeros((nl, n))
    Ll[bl, os_.size + np.arange(len(bs))] = 1
    Ll[ol, os_.size + len(bs) + np.arange(ol.size)] = 1
    Kc = Ls.T @ (Ks + Ks.T).real / 2 @ Ls + Ll.T @ (Kl + Kl.T).real / 2 @ Ll
    Mc = Ls.T @ Ms @ Ls + Ll.T @ Ml @ Ll
    wc = eigh(Kc, Mc, eigvals_only=True)
    cres = [np.sqrt(x) / 2 / np.pi for x in wc if x > 1e-6 * max(abs(wc).max(), 1e-30)]
    allf = np.array(out + cres)
    lo, hi = (allf.min(), allf.max()) if allf.size else (1.0, 100.0)
    nf = int(r.integers(20, 31))
    freq = list(_logu(r, max(0.2 * lo, 1e-2), 3 * hi, nf))
    k = min(len(cres), nf // 3)
    if k:
        pick = r.choice(len(cres), k, replace=False)
        for q, idx in enumerate(pick):
            freq[q] = cres[idx]                 # coupled resonance hit exactly
    freq = np.array(freq)
    if r.random() < 0.6:
        freq = np.sort(freq)
    return freq, float(lo)


def run_pair(sh, np, nt, O, frclim, routes, i):
    p = gen_pair(sh.seed, i)
    r = core.rng(sh.seed, "C15", "forms", i)
    Ms, Bs, Ks = p["S"]
    Ml, Bl, Kl = p["L"]
    fs_ = make_form(np, nt, r, p["fsrc"], Ms, Bs, Ks, p["bs"], p["cb_ok_s"],
                    p["alpha_s"], p["determinate"])
    fl_ = make_form(np, nt, r, p["fload"], Ml, Bl, Kl, p["bl"], p["cb_ok_l"],
                    p["alpha_l"], p["determinate"])
    tags = _tags(p, fs_, fl_)
    case = {"pair": i, "dim": p["dim"], "r": p["r"], "damp": p["damp"],
            "src": fs_["form"], "load": fl_["form"], "ns": int(Ms.shape[0]),
            "nl": int(Ml.shape[0])}
    freq, flo = _freqs(np, nt, r, p, fs_, fl_)
    nf = freq.size
    ns = Ms.shape[0]
    # external force on random Source DOF (physical), complex, frequency dependent
    nfd = int(r.integers(1, min(ns, 3) + 1))
    fd = r.choice(ns, nfd, replace=False)
    fphys = np.zeros((ns, nf), complex)
    fphys[fd] = _logu(r, 0.1, 100.0) * (r.standard_normal((nfd, nf))
                                        + 1j * r.standard_normal((nfd, nf)))
    fpass = fs_["tf"] @ fphys
    ref = PairRef(np, nt, O, fs_, fl_, fpass, freq, (sh.seed, "C15", "pert", i))
    if ref.selfgap > 1e-6:
        raise RuntimeError(f"oracle primal/dual assemblies disagree: {ref.selfgap}")
    ok = ref.ok
    if p.get("dashpot_body"):
        # graded by eigenvector conditioning by design (see route_error): these pairs do
        # not enter the refusal quota of the ordinary ones
        sh.count("mon:freq-accepted-dashpot-body", int(ok.sum()))
        sh.count("mon:freq-refused-dashpot-body", int((~ok).sum()))
    else:
        sh.count("mon:freq-accepted", int(ok.sum()))
        sh.count("mon:freq-refused", int((~ok).sum()))
    sh.case(["pair", i, fs_["form"], fl_["form"]], bool(np.any(fphys) and ok.any()),
            sample=case)
    if not ok.any():
        sh.refused += 1
        return
    for k_ in ("dim:%d" % p["dim"], "r:%d" % p["r"], "damp:" + p["damp"],
               "src:" + fs_["form"], "load:" + fl_["form"]):
        sh.count(k_)
    if p["noq"]:
        sh.count("cell:load-without-interior-dof")
    if p.get("dashpot_body"):
        sh.count("cell:source-with-dashpot-only-body")
    if fs_.get("unsorted") or fl_.get("unsorted"):
        sh.count("cell:unsorted-bset")
    if p["noq"] and fl_.get("unsorted"):
        sh.count("cell:unsorted-bset-no-qset")
    if not p["determinate"]:
        sh.count("cell:redundant-or-partial-interface")

    # ---- the call --------------------------------------------------------------------
    def arg_of(f):
        if f["form"] != "am-array":
            return [x if x is None else (np.array(x) if not np.isscalar(x) else x)
                    for x in f["arg"]]
        routes.last.clear()
        with warnings.catch_warnings():
            warnings.simplefilter("ignore")
            with np.errstate(all="ignore"):
                return frclim.calcAM(f["arg"], freq.copy())
    try:
        Sarg, Larg = arg_of(fs_), arg_of(fl_)
        routes.last.clear()
        # the free acceleration as the caller holds it: every third pair Fortran-ordered
        As_in = np.asfortranarray(ref.As.copy()) if i % 3 == 2 else ref.As.copy()
        f_in = freq.copy()
        held = [x for arg in (Sarg, Larg) if isinstance(arg, list)
                for x in arg if hasattr(x, "tobytes")] + [As_in, f_in]
        snaps = [np.array(x, copy=True) for x in held]
        with warnings.catch_warnings():
            warnings.simplefilter("ignore")
            with np.errstate(all="ignore"):
                res = frclim.ntfl(Sarg, Larg, As_in, f_in)
        sh.count("mon:ntfl-inputs-unmutated")
        if any(not np.array_equal(a, b, equal_nan=True) for a, b in zip(held, snaps)):
            sh.violation("ntfl-inputs-unmutated", case,
                         {"changed": [k_ for k_, (a, b) in enumerate(zip(held, snaps))
                                      if not np.array_equal(a, b, equal_nan=True)]}, tags)
    except Exception as e:
        sh.violation("exception:ntfl", case, {"exc": repr(e)[:400]}, tags)
        return
    used = list(routes.last)
    # route expectation (what the docstring promises for each boundary form)
    exp = []
    for f in (fs_, fl_):
        Kp = f["mats"][2]
        nonsym = bool(np.abs(Kp - Kp.T).max() > 1e-3 * np.abs(Kp).max())
        if f["form"] == "nonsym-k" and not nonsym:
            f["form"] = tags["src_form" if f is fs_ else "load_form"] = "phys-drm"
        exp += {"cb-pv": ["cbtf"], "phys-drm": ["SolveUnc"], "modal-drm": ["SolveUnc"],
                "cb-drm": ["SolveUnc"], "nonsym-k": ["FreqDirect"],
                "am-array": []}[f["form"]]
    seen = [u for u in used if u in ("SolveUnc", "FreqDirect")] \
        + (["cbtf"] if "cbtf" in used else [])
    for name in ("cbtf", "SolveUnc", "FreqDirect"):
        if name in exp:
            sh.count("route-observed:" + name if name in seen else "route-missed:" + name)
            if name not in seen:
                sh.violation("route", case, {"expected": exp, "used": used}, tags)

    m2 = ok[None, :]
    m3 = ok[None, :, None]

    def close2(kind, got, want, tol):
        got = np.asarray(got)
        if got.shape != want.shape:
            sh.violation(kind + "-shape", case, {"got": got.shape, "want": want.shape}, tags)
            return
        sh.check_close(kind, np.where(m2, got, 0), np.where(m2, want, 0),
                       np.where(m2, tol[None, :], 0), case, tags)

    def close3(kind, got, want, tol):
        got = np.asarray(got)
        if got.shape != want.shape:
            sh.violation(kind + "-shape", case, {"got": got.shape, "want": want.shape}, tags)
            return
        sh.check_close(kind, np.where(m3, got, 0), np.where(m3, want, 0),
                       np.where(m3, tol[None, :, None], 0), case, tags)
    close2("A-vs-coupled", res.A, ref.A, ref.tolA)
    close2("F-vs-coupled", res.F, ref.F, ref.tolF)
    close3("SAM-vs-inv-accelerance", res.SAM, ref.SAM, ref.tolS)
    close3("LAM-vs-inv-accelerance", res.LAM, ref.LAM, ref.tolL)
    sh.check_equal("TAM-eq-SAM-plus-LAM", np.asarray(res.TAM),
                   np.asarray(res.SAM) + np.asarray(res.LAM), case, tags)
    # R = diag((SAM+LAM)^-1 SAM) from the oracle's condensed apparent masses
    close2("R-ratio", res.R, ref.R, ref.tolR)
    if not np.array_equal(np.asarray(res.freq), freq):
        sh.violation("freq-copy", case, {}, tags)
    # axis order evidence: how non-symmetric the apparent masses really were
    if ref.r >= 2:
        asym = 0.0
        for AM in (ref.SAM, ref.LAM):
            X = AM[:, ok, :]
            asym = max(asym, float(np.abs(X - X.transpose(2, 1, 0)).max()
                                   / max(np.abs(X).max(), 1e-300)))
        if asym > 1e-3:
            sh.count("cell:nonsymmetric-AM-observed")

    # ---- a free acceleration handed over with a REAL (or integer) dtype: the coupling is
    # linear in As, A = TAM^-1 SAM As, so the answer follows from pyYeti's own (already
    # judged) apparent masses; the imaginary part of the result must not be lost
    if i % 4 == 2:
        As_r = np.ascontiguousarray(ref.As.real) if i % 8 == 2 else \
            np.round(4 * ref.As.real / max(np.abs(ref.As.real).max(), 1e-300)).astype(np.int64)
        try:
            with warnings.catch_warnings():
                warnings.simplefilter("ignore")
                with np.errstate(all="ignore"):
                    res_r = frclim.ntfl(arg_of(fs_), arg_of(fl_), As_r.copy(), freq.copy())
        except Exception as e:
            sh.violation("exception:ntfl-real-As", case, {"exc": repr(e)[:400]}, tags)
            res_r = None
        if res_r is not None:
            SAMp, TAMp = np.asarray(res.SAM), np.asarray(res.TAM)
            LAMp = np.asarray(res.LAM)
            wantA = np.zeros(ref.A.shape, complex)
            wantF = np.zeros(ref.A.shape, complex)
            for j in range(freq.size):
                if ok[j]:
                    wantA[:, j] = np.linalg.solve(TAMp[:, j, :], SAMp[:, j, :] @ As_r[:, j])
                    wantF[:, j] = LAMp[:, j, :] @ wantA[:, j]
            sh.count("cell:ntfl-As-dtype:" + As_r.dtype.kind)
            scA = np.abs(wantA).max(axis=0) + 1e-300
            scF = np.abs(wantF).max(axis=0) + 1e-300
            condT = np.array([np.linalg.cond(TAMp[:, j, :]) if ok[j] else 1.0
                              for j in range(freq.size)])
            close2("ntfl-real-As-A", res_r.A, wantA, 1e-12 * condT * scA)
            close2("ntfl-real-As-F", res_r.F, wantF, 1e-12 * condT * scF)

    # ---- calcAM directly: both boundary forms of the same model must agree, index order --
    for f, name in ((fs_, "src"), (fl_, "load")):
        if f["form"] in ("cb-pv", "cb-drm") and (i % 2 == 0):
            want = ref.SAM if name == "src" else ref.LAM
            try:
                with warnings.catch_warnings():
                    warnings.simplefilter("ignore")
                    with np.errstate(all="ignore"):
                        Mp, Bp, Kp = f["mats"]
                        am_pv = frclim.calcAM([Mp, Bp, Kp, f["sel"].copy()], freq.copy())
                        am_dr = frclim.calcAM([Mp, Bp, Kp, f["T"].copy()], freq.copy())
            except Exception as e:
                sh.violation("exception:calcAM", case, {"exc": repr(e)[:400]}, tags)
                continue
            # tolerances per route: `tol` carries the route model of the form that was
            # used in the ntfl call; rebuild it for the other boundary form
            base = ref.base_tolS if name == "src" else ref.base_tolL
            with np.errstate(all="ignore"):
                _, Epv = route_error(np, O, {**f, "form": "cb-pv"}, freq)
                _, Edr = route_error(np, O, {**f, "form": "cb-drm"}, freq)
                aAM = np.abs(want)
                Edr = np.einsum("ifk,kfl,lfm->ifm", aAM, Edr, aAM)
            tpv = base + np.where(np.isfinite(Epv), Epv, 0).max(axis=(0, 2))
            tdr = base + np.where(np.isfinite(Edr), Edr, 0).max(axis=(0, 2))
            close3("calcAM-pv-vs-inv-accelerance", am_pv, want, tpv)
            close3("calcAM-drm-vs-inv-accelerance", am_dr, want, tdr)
            sh.count("cell:both-routes-same-model")

    # ---- history: the answer depends on the VALUES handed over, not on object identity ---
    # (a model updated in place between two calls must be solved as it is now)
    if i % 2 == 1:
        for f, name in ((fs_, "src"), (fl_, "load")):
            if f["form"] in ("am-array",):
                continue
            args = arg_of(f)
            try:
                with warnings.catch_warnings():
                    warnings.simplefilter("ignore")
                    with np.errstate(all="ignore"):
                        am0 = np.array(frclim.calcAM(args, freq.copy()), copy=True)
                        kk = args[2]
                        kk *= 1.25                       # stiffness updated in place
                        if args[1] is not None and not np.isscalar(args[1]):
                            args[1] *= 0.5               # damping too
                        am1 = np.array(frclim.calcAM(args, freq.copy()), copy=True)
                        fresh = [x if (x is None or np.isscalar(x)) else np.array(x)
                                 for x in args]
                        am2 = np.asarray(frclim.calcAM(fresh, freq.copy()))
            except Exception as e:
                sh.violation("exception:calcAM-history", case, {"exc": repr(e)[:400]}, tags)
                continue
            sh.count("mon:calcAM-inplace-update")
            if am1.shape != am2.shape or am1.tobytes() != am2.tobytes():
                sh.violation("calcAM-inplace-update", case,
                             {"which": name, "form": f["form"],
                              "maxdiff": float(np.abs(am1 - am2).max()),
                              "same_as_before_update": bool(am1.tobytes() == am0.tobytes())},
                             tags)
            elif am1.tobytes() != am0.tobytes():
                sh.count("cell:calcAM-inplace-update-changed-answer")

    # ---- history on a caller-supplied solver (the `fs` argument): one SolveUnc made with
    # a time step serves a frequency solve, a transient run and a frequency solve again;
    # apparent mass is a property of the structure, not of what the solver did before
    if i % 3 != 1:
        import pyyeti.ode as ode_
        for f, name in ((fs_, "src"), (fl_, "load")):
            if f["form"] not in ("phys-drm", "modal-drm", "cb-drm"):
                continue
            args = arg_of(f)
            want = ref.SAM if name == "src" else ref.LAM
            tol = ref.tolS if name == "src" else ref.tolL
            hh = 1.0 / (20.0 * float(np.abs(freq).max() or 1.0))
            try:
                with warnings.catch_warnings():
                    warnings.simplefilter("ignore")
                    with np.errstate(all="ignore"):
                        solver = routes.orig[1](args[0], args[1], args[2], hh, pre_eig=True)
                        am_a = np.array(frclim.calcAM(args, freq.copy(), solver), copy=True)
                        nd = np.asarray(args[2]).shape[0]
                        ft = core.rng(sh.seed, "C15", "fs-hist", i).standard_normal(
                            (nd, 24))
                        sol_t = solver.tsolve(ft)
                        am_b = np.array(frclim.calcAM(args, freq.copy(), solver), copy=True)
                        solver.tsolve(ft[:, :5])
                        am_c = np.asarray(frclim.calcAM(args, freq.copy(), solver))
            except Exception as e:
                sh.violation("exception:calcAM-fs-history", case,
                             {"exc": repr(e)[:400], "which": name, "form": f["form"]}, tags)
                continue
            close3("calcAM-fs-vs-inv-accelerance", am_a, want, tol)
            # the same with a FreqDirect the caller already used: the result it holds
            # (the free acceleration, typically) must survive calcAM's unit-load solves
            try:
                with warnings.catch_warnings():
                    warnings.simplefilter("ignore")
                    with np.errstate(all="ignore"):
                        fdx = routes.orig[2](args[0], args[1], args[2])
                        Fx = core.rng(sh.seed, "C15", "fs-fd", i).standard_normal(
                            (np.asarray(args[2]).shape[0], freq.size))
                        s0 = fdx.fsolve(Fx, freq.copy())
                        keep_ = {q: np.array(getattr(s0, q), copy=True) for q in "dva"}
                        am_f = np.asarray(frclim.calcAM(args, freq.copy(), fdx))
                sh.count("mon:calcAM-fs-earlier-result-unmutated")
                bad_ = [q for q in "dva" if not np.array_equal(np.asarray(getattr(s0, q)),
                                                               keep_[q], equal_nan=True)]
                if bad_:
                    sh.violation("calcAM-fs-earlier-result-unmutated", case,
                                 {"changed": bad_, "which": name}, tags)
                close3("calcAM-fs-vs-inv-accelerance", am_f, want, tol)
            except Exception as e:
                sh.violation("exception:calcAM-fs-freqdirect", case,
                             {"exc": repr(e)[:300]}, tags)
            sh.count("mon:calcAM-fs-history")
            sh.count("cell:calcAM-fs-history:" + ("complex-modes" if not
                                                  solver.unc else "uncoupled"))
            for lab, am_x in (("after-tsolve", am_b), ("after-second-tsolve", am_c)):
                if am_x.shape != am_a.shape or am_x.tobytes() != am_a.tobytes():
                    sh.violation("calcAM-fs-history", case,
                                 {"which": name, "form": f["form"], "when": lab,
                                  "maxdiff": float(np.nanmax(np.abs(am_x - am_a)))
                                  if am_x.shape == am_a.shape else None}, tags)
                    break

    # ---- low-frequency limit: AM -> RB^T M RB for a statically determinate interface ----
    if p["determinate"]:
        from vf.oracles import nt_coupled
        for f, name, (M, B, K), pos in ((fs_, "src", p["S"], p["pos_s"]),
                                        (fl_, "load", p["L"], p["pos_l"])):
            if f["form"] in ("am-array", "nonsym-k"):
                continue
            node = p["iface"][0][0]
            RB = nt_coupled.rigid_modes(pos, pos[node], p["dim"])
            if p["dim"] == 1:
                RB = np.ones((M.shape[0], 1))
            Mrb = RB.T @ M @ RB
            flim = np.array([1e-4])
            bsel = p["bs"] if name == "src" else p["bl"]
            o = np.setdiff1d(np.arange(M.shape[0]), bsel)
            ffix = 1e3
            if o.size:
                from scipy.linalg import eigh
                wf = eigh((K[np.ix_(o, o)] + K[np.ix_(o, o)].T).real / 2,
                          M[np.ix_(o, o)], eigvals_only=True)
                ffix = float(np.sqrt(max(wf.min(), 1e-12)) / 2 / np.pi)
            try:
                with warnings.catch_warnings():
                    warnings.simplefilter("ignore")
                    with np.errstate(all="ignore"):
                        am = frclim.calcAM([x if x is None else np.array(x) if not
                                            np.isscalar(x) else x for x in f["arg"]], flim)
            except Exception as e:
                sh.violation("exception:calcAM-lowfreq", case, {"exc": repr(e)[:400]}, tags)
                continue
            # neglected term ~ (f / f_first_elastic)^2 of the rigid-body mass
            bound = 100 * (1e-4 / ffix) ** 2 * np.abs(Mrb).max() + 1e-9 * np.abs(Mrb).max()
            sh.check_close("AM-lowfreq-vs-rigid-mass", np.asarray(am)[:, 0, :], Mrb + 0j,
                           bound, case, tags)
            # exactly 0 Hz: a free component accelerates as a rigid body (a = F/m); the
            # apparent mass there IS the rigid-body mass, no neglected term
            try:
                with warnings.catch_warnings():
                    warnings.simplefilter("ignore")
                    with np.errstate(all="ignore"):
                        # 0 Hz anywhere in the vector (first, last, in the middle)
                        z0 = [np.array([0.0, 1e-4]), np.array([1e-4, 0.0]),
                              np.array([2e-4, 0.0, 1e-4])][i % 3]
                        am0 = frclim.calcAM([x if x is None else np.array(x) if not
                                             np.isscalar(x) else x for x in f["arg"]],
                                            z0.copy())
            except Exception as e:
                sh.violation("exception:calcAM-zero-hz", case, {"exc": repr(e)[:400]}, tags)
                continue
            sh.count("cell:zero-hz-position-%d" % int(np.argmin(z0)))
            sh.check_close("AM-zero-hz-vs-rigid-mass",
                           np.asarray(am0)[:, int(np.argmin(z0)), :], Mrb + 0j,
                           1e-9 * np.abs(Mrb).max(), dict(case, zero_hz_at=int(np.argmin(z0))),
                           tags)


def run_defective_chains(sh, np, nt, frclim, routes, sl):
    """Sources that carry a body through a viscous joint only: m1 --c1-- m2 --k,c-- m3 ...
    The stiffness null space is larger than the set of undamped rigid-body modes, so 0 is
    a defective eigenvalue of the modal state matrix.  calcAM is documented to try
    SolveUnc(pre_eig=True) and, *if SolveUnc fails*, FreqDirect.  Monitor at the hook: a
    SolveUnc whose eigensolution reported failure (pc.eig_success False) must be followed
    by a FreqDirect in the same call, and the apparent mass then is the inverse boundary
    accelerance to direct-solve accuracy.  (Where the eigensolver does not notice the
    defect the answer is graded by eigenvector conditioning -- C01's domain -- and is not
    judged here.)"""
    import warnings
    nrun = 6 if sh.tier == "quick" else 60
    for q in range(nrun):
        r = core.rng(sh.seed, "C15", "defective-chain", sl, q)
        n = 3 if q % 3 else 4
        masses = _logu(r, 1.0, 12.0, n)
        ks = np.concatenate([[0.0], _logu(r, 1e4, 1e5, n - 2)])
        cs = _logu(r, 1.0, 300.0, n - 1)
        M = np.diag(masses)
        K = np.zeros((n, n))
        C = np.zeros((n, n))
        for i_, (k_, c_) in enumerate(zip(ks, cs)):
            for X, v in ((K, k_), (C, c_)):
                X[i_, i_] += v
                X[i_ + 1, i_ + 1] += v
                X[i_, i_ + 1] -= v
                X[i_ + 1, i_] -= v
        T = np.zeros((1, n))
        T[0, n - 1] = 1.0
        freq = np.sort(_logu(r, 0.3, 40.0, 6))
        case = {"defective_chain": [sl, q], "masses": masses, "ks": ks, "cs": cs}
        tags = {"family": "defective-chain", "n": n}
        sh.case(["defective-chain", sl, q], True, sample=case)
        routes.last.clear()
        try:
            with warnings.catch_warnings():
                warnings.simplefilter("ignore")
                with np.errstate(all="ignore"):
                    am = np.asarray(frclim.calcAM([M.copy(), C.copy(), K.copy(), T.copy()],
                                                  freq.copy()))
        except Exception as e:
            sh.violation("exception:calcAM-defective-chain", case, {"exc": repr(e)[:300]},
                         tags)
            continue
        used = list(routes.last)
        failed = "SolveUnc:eig-failed" in used
        sh.count("cell:defective-chain:" + ("eig-failure-reported" if failed
                                            else "eig-failure-not-noticed"))
        if not failed:
            continue
        sh.count("mon:calcAM-eig-failure-falls-back")
        if "FreqDirect" not in used[used.index("SolveUnc:eig-failed"):]:
            sh.violation("calcAM-eig-failure-falls-back", case, {"route": used}, tags)
        want = np.zeros((1, freq.size, 1), complex)
        for j, f_ in enumerate(freq):
            want[:, j, :] = nt.apparent_mass(M, C, K, T, 2 * np.pi * f_)
        sh.check_close("calcAM-defective-vs-inv-accelerance", am, want,
                       1e-9 * np.abs(want), case, tags)


def run_shard(sh, params):
    import numpy as np
    from vf.oracles import nt_coupled as nt
    from vf.oracles import freq_direct as O
    from pyyeti import frclim
    routes = Routes(sh)
    try:
        sl, ns = params["slice"], params["nslice"]
        npair = NPAIR[sh.tier] // ns
        run_defective_chains(sh, np, nt, frclim, routes, sl)
        for i in range(sl * npair, (sl + 1) * npair):
            run_pair(sh, np, nt, O, frclim, routes, i)
    finally:
        routes.restore()


MANDATORY_MON = ["calcAM-eig-failure-falls-back", "calcAM-inplace-update", "calcAM-fs-history", "AM-zero-hz-vs-rigid-mass", "A-vs-coupled", "F-vs-coupled", "SAM-vs-inv-accelerance",
                 "LAM-vs-inv-accelerance", "TAM-eq-SAM-plus-LAM", "R-ratio",
                 "calcAM-pv-vs-inv-accelerance", "calcAM-drm-vs-inv-accelerance",
                 "AM-lowfreq-vs-rigid-mass"]
MANDATORY_CELLS = (["route-observed:cbtf", "route-observed:SolveUnc",
                    "route-observed:FreqDirect", "route:cbtf-call",
                    "route:SolveUnc-pre_eig-construct", "route:FreqDirect-construct"]
                   + ["dim:1", "dim:3", "dim:6"] + ["r:%d" % q for q in range(1, 7)]
                   + ["damp:prop", "damp:elements", "damp:gyro", "damp:complex"]
                   + ["src:phys-drm", "src:cb-pv", "src:modal-drm", "src:cb-drm",
                      "src:nonsym-k", "src:am-array", "load:phys-drm", "load:cb-pv",
                      "load:modal-drm", "load:cb-drm", "load:nonsym-k", "load:am-array"]
                   + ["cell:load-without-interior-dof", "cell:unsorted-bset",
                      "cell:unsorted-bset-no-qset", "cell:nonsymmetric-AM-observed",
                      "cell:both-routes-same-model",
                      "cell:redundant-or-partial-interface"])


def finalize(agg, tier):
    c = agg["counters"]
    why = []
    for k in MANDATORY_MON:
        if not c.get("mon:" + k):
            why.append(f"monitor {k} never evaluated")
    for k in MANDATORY_CELLS:
        if not c.get(k):
            why.append(f"coverage cell {k} empty")
    acc, ref = c.get("mon:freq-accepted", 0), c.get("mon:freq-refused", 0)
    if acc + ref and ref > 0.25 * (acc + ref):
        why.append(f"oracle refused {ref} of {acc + ref} frequencies (> 25 %)")
    return why


def evidence_extra(agg, tier):
    c = agg["counters"]
    return {"routes": {k: v for k, v in c.items() if k.startswith("route")},
            "frequencies_accepted": c.get("mon:freq-accepted", 0),
            "frequencies_refused": c.get("mon:freq-refused", 0)}
