"""C19 -- PSD and signal utilities conserve what they claim.

psd.area / psd.interp : mp integral / value of the log-log interpolant (vf/oracles/psd_ref.py)
psd.rescale           : every output band's mean-square == overlap integral of the
                        band-constant input density (independent band-edge model)
dsp.resample          : length, constants, retained originals, documented FIR, documented
                        pipeline, rigorous steady-state bound for sinusoids, new positions
dsp.fixtime           : uniform time base, source-sample identity (nearest / previous),
                        tie rule on dyadic grids, drop-outs, base, unchanged uniform data
"""
import math

from vf import core

ID = "C19"
LEVEL = "exploration"
RULE = ("specs: 2-12 break points, slopes -40..+40 dB/oct plus s = -1 exactly (power-of-two "
        "ratios) and s = -1 +- {1e-7,1e-5,1e-3} x {0.5,1,2}, 1-3 PSD columns, array / tuple "
        "/ list forms, NaN frequencies; rescale: exact-linear, round-off-linear, log and "
        "irregular input scales x n_oct in {1,2,3,6,12,24} or explicit linear/log/irregular "
        "freq (inside / overlapping both ends) x extendends x frange; resample: p,q in 1..12, "
        "n 1..500 (longer for sinusoids), pts 5..65, 1-3 dims and every axis; fixtime: "
        "value = sample id signals from 10 families (uniform, jitter, gaps, repeats, shifts, "
        "drop-outs, unsorted, mixtures) x nearest / hold-previous x base x sr forms.  "
        "distinct = distinct seeded case descriptors (kind, slice, index, family); "
        "non-trivial = at least 2 segments / 2 output bands / n >= 4 samples / one "
        "irregularity, as applicable")
ASSUMPTIONS = [
    "mpmath log/exp/expm1 at 40 digits on the exact values of the float inputs",
    "band-edge rule of a centre-frequency scale as documented: equal steps (to 1e-12 "
    "relative) -> arithmetic mid points, otherwise geometric mid points",
    "the Kaiser window and sinc are taken from their definitions (numpy.i0, sin); "
    "numpy.convolve is trusted for the pipeline reference",
    "numba is not installed: fixtime's NumPy branches of _find_closest_*_times are the "
    "ones observed",
]
MIN_NONTRIVIAL = {"quick": 10000, "thorough": 120000}
TIMEOUT = {"quick": 3600, "thorough": 28800}
AMBIENT = {"tests": ['test_dsp.py', 'test_srs.py'], "monitors": ['resample'], "quick": False}
EPS = 2.220446049250313e-16

BUDGET = {   # cases per kind
    "quick": {"spec": 8000, "rescale": 1400, "resample": 3000, "fixtime": 1200},
    "thorough": {"spec": 100000, "rescale": 17500, "resample": 37500, "fixtime": 15000},
}
NSHARD = {"quick": {"spec": 4, "rescale": 2, "resample": 4, "fixtime": 4},
          "thorough": {"spec": 12, "rescale": 6, "resample": 20, "fixtime": 10}}


def shards(tier, seed):
    out = []
    for kind, n in NSHARD[tier].items():
        out += [{"kind": kind, "slice": i, "nslice": n} for i in range(n)]
    return out


def _ulp(x):
    return math.ulp(abs(float(x))) if x == x else float("nan")


# =====================================================================================
#  specs: area + interp
# =====================================================================================

NEAR = [(d, m) for d in (1e-7, 1e-5, 1e-3) for m in (0.5, 1.0, 2.0)]


def _make_spec(r):
    """-> freq (list), cols (list of lists), slope classes per column/segment."""
    import numpy as np
    nbp = int(r.integers(2, 13))
    ncol = int(r.integers(1, 4))
    f = [float(10.0 ** r.uniform(-1, 2.5))]
    kinds = []
    for _ in range(nbp - 1):
        u = r.random()
        if u < 0.3:
            ratio = float(2 ** int(r.integers(1, 3)))       # exact ratios 2, 4
            kinds.append("pow2")
        elif u < 0.45:
            ratio = float(1 + 10.0 ** r.uniform(-3, -1.3))  # close break points
            kinds.append("close")
        else:
            ratio = float(r.uniform(1.05, 8))
            kinds.append("gen")
        f.append(f[-1] * ratio)
    cols, cls = [], []
    for _ in range(ncol):
        p = [float(10.0 ** r.uniform(-4, 2))]
        cc = []
        for i in range(nbp - 1):
            ratio = f[i + 1] / f[i]
            u = r.random()
            if u < 0.18 and kinds[i] == "pow2":
                p2 = p[-1] / ratio                            # s = -1 exactly
                cc.append("m1-exact")
            elif u < 0.18:
                p2 = p[-1] * f[i] / f[i + 1]                  # s = -1 to rounding
                cc.append("m1-rounded")
            elif u < 0.5:
                d, m = NEAR[int(r.integers(len(NEAR)))]
                sg = 1.0 if r.random() < 0.5 else -1.0
                s = -1.0 + sg * d * m
                p2 = p[-1] * ratio ** s
                cc.append(f"near{d:g}")
            else:
                db = float(r.uniform(-40, 40))
                s = db / (10 * math.log10(2))
                # keep magnitudes finite and far from denormals
                if not 1e-30 < p[-1] * ratio ** s < 1e30:
                    s = -s
                p2 = p[-1] * ratio ** s
                cc.append("generic")
            p.append(float(p2))
        cols.append(p)
        cls.append(cc)
    return f, cols, cls


def _seg_tol(f1, p1, f2, p2, area_mp, mp):
    """Tolerance of one segment from the documented formula's own conditioning.

    branch |s+1| < 1e-5 (documented approximation p1 f1 ln(f2/f1)): neglected term
        area * (x/2)(1+|x|), x = (s+1) ln(f2/f1)   [|x|/2 <= 5e-6 ln(f2/f1)]
    otherwise (f2 p2 - f1 p1)/(s+1): round-off of the two products and of s+1,
        4 eps [ (|f2 p2| + |f1 p1|)/|s+1| + |area| ((1+|s|)/L + 2|s| + 2)/|s+1| ].
    In a 1e-6-relative zone around the threshold either branch is accepted."""
    L = math.log(f2 / f1)
    from vf.oracles import psd_ref as R
    s = float(R.seg_slope(f1, p1, f2, p2))
    e = abs(s + 1.0)
    a = abs(float(area_mp))
    x = e * L
    t_branch = a * (x / 2 * (1 + x) + 8 * EPS * (1 + 1 / L))
    if e > 0:
        t_formula = 4 * EPS * ((abs(f2 * p2) + abs(f1 * p1)) / e
                               + a * ((1 + abs(s)) / L + 2 * abs(s) + 2) / e)
    else:
        t_formula = 0.0
    if e < 1e-5 * (1 - 1e-6):
        return t_branch, "branch", s
    if e > 1e-5 * (1 + 1e-6):
        return t_formula, "formula", s
    return max(t_branch, t_formula), "threshold-zone", s


def _run_spec(sh, params):
    import mpmath as mp
    import numpy as np
    from vf.oracles import psd_ref as R
    from pyyeti import psd
    if not R.selfcheck():
        raise RuntimeError("psd_ref fails its self-check")
    sh.count("oracle-selfcheck:psd_ref")
    n = BUDGET[sh.tier]["spec"]
    sl, ns = params["slice"], params["nslice"]
    for i in range(sl, n, ns):
        r = core.rng(sh.seed, "C19", "spec", i)
        f, cols, cls = _make_spec(r)
        intspec = r.random() < 0.12
        if intspec:
            # a specification typed in with whole numbers and kept in an integer array /
            # int lists (np.array([[20, 1], [100, 1], [150, 10], [1000, 10]]))
            nb = len(f)
            fi = np.cumsum(r.integers(1, 60, nb)) + int(r.integers(1, 30))
            f = [float(x) for x in fi]
            cols = [[float(x) for x in r.integers(1, 25, nb)] for _ in cols]
            cls = [["generic"] * (nb - 1) for _ in cols]
        ncol = len(cols)
        form = ["array", "tuple1d", "tuple2d", "list2d"][int(r.integers(4))]
        if form == "tuple1d":
            cols, cls, ncol = cols[:1], cls[:1], 1
        with_nan = r.random() < 0.06 and len(f) >= 3 and not intspec
        F = np.array(f)
        Pm = np.array(cols).T                       # (nfreq, ncol)
        Fin, Pin = F, Pm
        if intspec:
            Fin, Pin = F.astype(np.int64), Pm.astype(np.int64)
            sh.count("cell:spec-integer-dtype")
        if with_nan:                                # documented: NaN frequencies are deleted
            k = int(r.integers(1, len(f)))
            Fin = np.insert(F, k, np.nan)
            Pin = np.insert(Pm, k, 123.0, axis=0)
        if form == "array":
            spec = np.column_stack([Fin, Pin])
        elif form == "tuple1d":
            spec = (Fin, Pin[:, 0])
        elif form == "tuple2d":
            spec = (Fin, Pin)
        else:
            spec = [Fin.tolist(), Pin.tolist()]
        case = {"kind": "spec", "index": i, "form": form, "freq": f, "psd": cols,
                "nan_row": bool(with_nan)}
        tags = {"kind": "spec", "form": form, "ncol": ncol, "nan_row": bool(with_nan)}
        sh.case(["spec", i, f, cols], nontrivial=len(f) >= 3, sample=case)
        sh.count("form:" + form)
        sh.count(f"ncol:{ncol}")
        if with_nan:
            sh.count("form:nan-frequency")

        # ---------------- area ----------------------------------------------------------
        want, tol, segs_all, pure = [], [], [], []
        for c in range(ncol):
            tot, segs = R.spec_area(f, cols[c])
            t = 0.0
            only_formula = True
            for j in range(len(f) - 1):
                tj, where, s = _seg_tol(f[j], cols[c][j], f[j + 1], cols[c][j + 1],
                                        segs[j], mp)
                t += tj
                only_formula &= where == "formula"
                sh.count("slope:" + cls[c][j])
                sh.count("areabranch:" + where)
            t += 2 * EPS * len(segs) * float(sum(abs(x) for x in segs))
            want.append(float(tot))
            tol.append(t)
            segs_all.append(segs)
            pure.append(only_formula)
        try:
            got = psd.area(spec)
        except Exception as e:
            sh.violation("exception:area", case, {"exc": repr(e)}, tags)
            got = None
        if got is not None:
            tg = dict(tags, classes=sorted({x for cc in cls for x in cc}))
            sh.check_close("area-vs-integral", np.asarray(got, float), np.array(want),
                           np.array(tol), case, tg)
            # report the relative size too (evidence), separately per regime
            rel = np.abs(np.asarray(got, float) - np.array(want)) / np.abs(want)
            sh.worst("info:area-max-relative-error/1e-6", float(rel.max()) / 1e-6)
            # margins per regime: columns made of closed-form segments only (round-off
            # level) versus columns that contain the documented |s+1| < 1e-5 approximation
            # (whose bound IS the neglected term, so the ratio approaches 1 by nature)
            if np.shape(got) == (ncol,):
                for c in range(ncol):
                    ratio = abs(float(got[c]) - want[c]) / tol[c]
                    sh.worst("area:closed-form-columns" if pure[c]
                             else "area:columns-with-approximation-branch", ratio)

        # ---------------- additivity: split a segment at a point ON the interpolant -------
        if got is not None and got.shape == (ncol,):
            j = int(r.integers(0, len(f) - 1))
            fm = f[j] * (f[j + 1] / f[j]) ** float(r.uniform(0.1, 0.9))
            if f[j] < fm < f[j + 1]:
                pm = [float(R.seg_value(fm, f[j], cols[c][j], f[j + 1], cols[c][j + 1]))
                      for c in range(ncol)]
                f2 = f[:j + 1] + [fm] + f[j + 1:]
                cols2 = [cols[c][:j + 1] + [pm[c]] + cols[c][j + 1:] for c in range(ncol)]
                tol2 = []
                for c in range(ncol):
                    t = 0.0
                    _, segs2 = R.spec_area(f2, cols2[c])
                    for jj in range(len(f2) - 1):
                        t += _seg_tol(f2[jj], cols2[c][jj], f2[jj + 1], cols2[c][jj + 1],
                                      segs2[jj], mp)[0]
                    # pm is rounded to a float: the two new segments' true areas move by
                    # <= eps * (their areas) * (1 + |s+1| L)/... ; bounded by 4 eps * area
                    t += 4 * EPS * float(sum(abs(x) for x in segs2)) * (len(segs2) + 1)
                    tol2.append(t + tol[c])
                spec2 = np.column_stack([f2] + cols2) if form != "tuple1d" else (
                    np.array(f2), np.array(cols2[0]))
                try:
                    got2 = psd.area(spec2)
                    sh.check_close("area-additive-split", np.asarray(got2, float),
                                   np.asarray(got, float), np.array(tol2),
                                   dict(case, split_at=fm, split_psd=pm), tags)
                except Exception as e:
                    sh.violation("exception:area", dict(case, split_at=fm), {"exc": repr(e)},
                                 tags)

        # ---------------- interp ----------------------------------------------------------
        lf = np.log(F)
        for linear in (False, True):
            try:
                own = psd.interp(spec, F, linear=linear)
            except Exception as e:
                sh.violation("exception:interp", dict(case, linear=linear), {"exc": repr(e)},
                             tags)
                continue
            want_shape = (len(f),) if form == "tuple1d" else (len(f), ncol)
            if own.shape != want_shape:
                sh.violation("interp-shape", dict(case, linear=linear),
                             {"shape": own.shape, "want": want_shape}, tags)
                continue
            own2 = own.reshape(len(f), -1)
            if linear:
                nb = np.abs(Pm)
                t = 4 * EPS * (nb + np.vstack([nb[1:], nb[-1:]]) + np.vstack([nb[:1], nb[:-1]]))
            else:
                al = np.abs(np.log(Pm))
                t = 4 * EPS * (al + np.vstack([al[1:], al[-1:]])
                               + np.vstack([al[:1], al[:-1]]) + 1) * Pm
            sh.check_close("interp-own-frequencies" + ("-linear" if linear else ""),
                           own2, Pm, t, dict(case, linear=linear), tags)
        # interior + outside points, log-log
        m = int(r.integers(3, 9))
        fq = np.exp(r.uniform(lf[0], lf[-1], m))
        fq = np.concatenate([[F[0] * 0.5, F[0] * (1 - 1e-9)], np.sort(fq),
                             [F[-1] * (1 + 1e-9), F[-1] * 3]])
        order = r.permutation(fq.size) if r.random() < 0.3 else np.arange(fq.size)
        fq = fq[order]
        try:
            val = psd.interp(spec, fq)
        except Exception as e:
            sh.violation("exception:interp", dict(case, at=fq), {"exc": repr(e)}, tags)
            val = None
        if val is not None:
            val2 = np.asarray(val, float).reshape(fq.size, -1)
            inside = (fq >= F[0]) & (fq <= F[-1])
            wv = np.zeros_like(val2)
            tv = np.zeros_like(val2)
            for a, x in enumerate(fq):
                if not inside[a]:
                    continue
                j = min(int(np.searchsorted(F, x, side="right")) - 1, len(f) - 2)
                for c in range(ncol):
                    v = R.seg_value(float(x), f[j], cols[c][j], f[j + 1], cols[c][j + 1])
                    s = float(R.seg_slope(f[j], cols[c][j], f[j + 1], cols[c][j + 1]))
                    X = max(abs(lf[j]), abs(lf[j + 1]))
                    rel = 4 * EPS * (2 * abs(s) * X + abs(math.log(cols[c][j]))
                                     + abs(math.log(cols[c][j + 1])) + 2)
                    wv[a, c] = float(v)
                    tv[a, c] = rel * float(v)
            sh.check_close("interp-loglog-interior", val2[inside], wv[inside], tv[inside],
                           dict(case, at=fq), tags)
            sh.count("mon:interp-outside-zero")
            if np.any(val2[~inside] != 0):
                sh.violation("interp-outside-zero", dict(case, at=fq),
                             {"values_outside": val2[~inside]}, tags)


# =====================================================================================
#  rescale
# =====================================================================================

def _make_scale(r, kind, n, lo, hi):
    """Centre-frequency vector of `kind` with n points roughly spanning [lo, hi]."""
    import numpy as np
    if kind == "lin-exact":
        # dyadic step and start: all centre frequencies and steps are exact
        d = 2.0 ** round(math.log2((hi - lo) / max(n - 1, 1)))
        k0 = math.floor(lo / d)
        return (k0 + np.arange(n)) * d
    if kind == "lin-roundoff":
        F = np.linspace(lo, hi, n)
        return F
    if kind == "lin-perturbed":
        # equal steps spoiled by 3e-11 .. 1e-7 relative: beyond the 1e-12 linearity test,
        # i.e. documented to be treated as logarithmic
        d = 2.0 ** round(math.log2((hi - lo) / max(n - 1, 1)))
        k0 = max(math.floor(lo / d), 1)
        F = (k0 + np.arange(n)) * d
        dev = 10.0 ** r.uniform(-10.5, -7)
        F = F * (1 + r.uniform(-1, 1, n) * dev * d / (2 * F[-1]))
        return F
    if kind == "log":
        ratio = (hi / lo) ** (1.0 / (n - 1))
        return lo * ratio ** np.arange(n)
    # irregular: documented as "assumed logarithmic"
    x = np.sort(r.uniform(math.log(lo), math.log(hi), n))
    x = x[0] + np.cumsum(np.concatenate([[0], np.maximum(np.diff(x), 0.01)]))
    return np.exp(x)


def _classify(F):
    """'linear' / 'log' by the documented rule, None in the unjudged zone."""
    from vf.oracles import psd_ref as R
    dev = R.step_deviation([float(x) for x in F])
    if dev < 1e-13:
        return "linear", dev
    if dev > 1e-11:
        return "log", dev
    return None, dev            # around the 1e-12 test itself: not judged


def _run_rescale(sh, params):
    import numpy as np
    from vf.oracles import psd_ref as R
    from pyyeti import psd
    n = BUDGET[sh.tier]["rescale"]
    sl, ns = params["slice"], params["nslice"]
    for i in range(sl, n, ns):
        r = core.rng(sh.seed, "C19", "rescale", i)
        ikind = ["lin-exact", "lin-roundoff", "log", "irregular", "lin-perturbed"][i % 5]
        N = int(r.integers(8, 300))
        if ikind.startswith("lin"):
            lo = float(r.choice([0.0, 0.5, 3.0, 20.0]))
            hi = lo + float(10 ** r.uniform(1.2, 3.3))
        else:
            lo = float(10 ** r.uniform(-0.5, 1.5))
            hi = lo * float(10 ** r.uniform(0.8, 2.5))
        F = _make_scale(r, ikind, N, lo, hi)
        icls, idev = _classify(F)
        if icls is None or F[-1] < 4.0:
            sh.count("rescale-skipped:unjudged-linearity-zone")
            continue
        ncol = int(r.integers(1, 4))
        pform = ["1d", "2d", "row"][int(r.integers(3))]
        if pform != "2d":
            ncol = 1
        P = np.exp(r.normal(0, 1.5, (N, ncol))) * 10.0 ** r.uniform(-3, 2)
        Pin = P[:, 0] if pform == "1d" else (P.T.copy() if pform == "row" else P)
        extend = bool(r.integers(2))
        okind = ["n_oct", "n_oct", "lin-exact", "lin-roundoff", "log", "irregular",
                 "lin-perturbed"][int(r.integers(7))]
        kw = {"extendends": extend}
        frange = None
        if okind == "n_oct":
            n_oct = int(r.choice([1, 2, 3, 6, 12, 24]))
            kw["n_oct"] = n_oct
            u = r.random()
            if u < 0.35:
                a = float(r.choice([0.0, -1.0, 1.0, 2.5, max(F[0], 1.0) * 1.3]))
                b = float(r.choice([np.inf, F[-1] * 0.7, F[-1] * 2]))
                if not b > 2 * max(a, 1.0):          # keep the requested range non-empty
                    b = float(np.inf)
                frange = (a, b)
                kw["frange"] = frange
            ofreq = None
        else:
            M = int(r.integers(2, 60))
            span = [("inside", 1.3, 0.8), ("both-ends", 0.4, 1.8), ("low-end", 0.4, 0.8),
                    ("high-end", 1.3, 1.8)][int(r.integers(4))]
            base_lo = max(F[0], 0.5) if okind.startswith("lin") else max(F[0], 1e-3)
            olo, ohi = base_lo * span[1], F[-1] * span[2]
            if okind.startswith("lin") and span[0] in ("both-ends", "low-end"):
                olo = max(0.0, F[0] - (F[-1] - F[0]) * 0.2)
            if not ohi > olo * 1.5:
                ohi = olo * 2 + 1
            if not okind.startswith("lin") and olo <= 0:
                olo = 1e-2
            ofreq = _make_scale(r, okind, M, olo, ohi)
            ocls, odev = _classify(ofreq)
            if ocls is None:
                sh.count("rescale-skipped:unjudged-linearity-zone")
                continue
            kw["freq"] = ofreq
            if r.random() < 0.2:
                frange = (float(ofreq[1]), float(ofreq[-1]))
                left = ofreq[(ofreq >= frange[0]) & (ofreq <= frange[1])]
                # keep the request meaningful: at least two centres, one inside the data
                if left.size >= 2 and np.any((left > F[0]) & (left < F[-1])):
                    kw["frange"] = frange
                else:
                    frange = None
            if not np.any((ofreq > F[0]) & (ofreq < F[-1])):
                sh.count("rescale-skipped:no-overlap-request")
                continue
        case = {"kind": "rescale", "index": i, "input_scale": ikind, "N": N,
                "F_first_last": [float(F[0]), float(F[-1])], "P_form": pform, "ncol": ncol,
                "output": okind, "kw": {k: (v if k != "freq" else np.asarray(v))
                                        for k, v in kw.items()}}
        tags = {"kind": "rescale", "input_scale": ikind, "input_class": icls,
                "output": okind, "extendends": extend, "pform": pform}
        sh.case(["rescale", i, ikind, okind, extend], True, sample=case)
        try:
            Pout, Fctr, msv, ms = psd.rescale(Pin, F, **kw)
        except Exception as e:
            sh.violation("exception:rescale", case, {"exc": repr(e)}, tags)
            continue
        Pout, Fctr, ms = np.asarray(Pout, float), np.asarray(Fctr, float), np.asarray(ms, float)
        nb = Fctr.size
        # ---- shapes -----------------------------------------------------------------------
        want_shape = (nb,) if pform in ("1d", "row") else (nb, ncol)
        if Pout.shape != want_shape or ms.shape != want_shape or np.shape(msv) != (
                () if pform in ("1d", "row") else (ncol,)):
            sh.violation("rescale-shape", case, {"Pout": Pout.shape, "ms": ms.shape,
                                                 "msv": np.shape(msv), "want": want_shape},
                         tags)
            continue
        Pout2, ms2 = Pout.reshape(nb, -1), ms.reshape(nb, -1)
        msv2 = np.atleast_1d(np.asarray(msv, float))
        # ---- input band model -----------------------------------------------------------
        FLin, FUin = R.band_edges([float(x) for x in F], icls == "linear")
        FUa = np.array(FUin)
        # ---- output band edges (independent of pyYeti's selection) -------------------------
        if okind == "n_oct":
            fac = 2.0 ** (1.0 / (2 * n_oct))
            OL, OU = Fctr / fac, Fctr * fac
            kk = np.log2(Fctr / 1000.0) * n_oct
            sh.count("mon:rescale-octave-scale")
            if not (np.all(np.abs(kk - np.round(kk)) < 1e-9)
                    and np.all(np.diff(np.round(kk)) == 1)):
                sh.violation("rescale-octave-scale", case, {"Fctr": Fctr}, tags)
                continue
            s_ = frange[0] if (frange is not None and frange[0] > 0) else 1.0
            e_ = min(frange[-1], F[-1]) if frange is not None else F[-1]
            # trim='outside': first band includes s, last band includes e
            if not (OL[0] <= s_ * (1 + 1e-12) and s_ <= OU[0] * (1 + 1e-12)
                    and OL[-1] <= e_ * (1 + 1e-12) and e_ <= OU[-1] * (1 + 1e-12)):
                sh.violation("rescale-octave-range", case,
                             {"first": [OL[0], OU[0]], "last": [OL[-1], OU[-1]],
                              "s": s_, "e": e_}, tags)
        else:
            fr = np.asarray(ofreq, float)
            if frange is not None:
                fr = fr[(fr >= frange[0]) & (fr <= frange[-1])]
                # the band rule applies to the frequencies that remain (two remaining
                # points have one step and are therefore "linear")
                ocls, odev = _classify(fr)
                if ocls is None:
                    sh.count("rescale-skipped:unjudged-linearity-zone")
                    continue
            al, au = R.band_edges([float(x) for x in fr], ocls == "linear")
            al, au = np.array(al), np.array(au)
            # returned centres must be a contiguous slice of the requested ones
            j0 = np.nonzero(fr == Fctr[0])[0]
            sh.count("mon:rescale-output-trim")
            if j0.size != 1 or not np.array_equal(fr[j0[0]:j0[0] + nb], Fctr):
                sh.violation("rescale-output-trim", case, {"Fctr": Fctr, "freq": fr}, tags)
                continue
            j0 = int(j0[0])
            OL, OU = al[j0:j0 + nb], au[j0:j0 + nb]
            # documented: trimmed by the first and last values of F -- every dropped band
            # lies entirely outside [F[0], F[-1]], every kept end band touches it
            dropped_lo, dropped_hi = au[:j0], al[j0 + nb:]
            if (np.any(dropped_lo >= F[0]) or np.any(dropped_hi <= F[-1])
                    or OU[0] < F[0] or OL[-1] > F[-1]):
                sh.violation("rescale-output-trim", case,
                             {"dropped_low_upper_edges": dropped_lo,
                              "dropped_high_lower_edges": dropped_hi, "F0": F[0],
                              "Flast": F[-1]}, tags)
        # ---- band mean squares --------------------------------------------------------------
        want_ms = np.zeros((nb, ncol))
        want_p = np.zeros((nb, ncol))
        tol_ms = np.zeros((nb, ncol))
        partial_lo = OL[0] < FLin[0]
        partial_hi = OU[-1] > FUin[-1]
        for b in range(nb):
            lo_, hi_ = float(OL[b]), float(OU[b])
            clo, chi = lo_, hi_
            if extend and b == 0 and partial_lo:
                clo = FLin[0]
            if extend and b == nb - 1 and partial_hi:
                chi = FUin[-1]
            full, cov = hi_ - lo_, chi - clo
            for c in range(ncol):
                pc = [float(x) for x in P[:, c]]
                m_ = R.band_ms(FLin, FUin, pc, clo, chi)
                ca = R.cumulative_ms(FLin, FUin, pc, chi)
                if cov > 0:
                    want_p[b, c] = m_ / cov
                    want_ms[b, c] = m_ / cov * full     # == m_ when nothing was clipped
                    scale = full / cov
                else:                                   # band wholly outside the data
                    want_p[b, c] = 0.0
                    want_ms[b, c] = 0.0
                    scale = 1.0
                # ms = cau - cal of a running sum: error ~ eps * (cumulative area to FU);
                # the band edges themselves are rounded floats: eps |edge| x local density
                edge = sum(abs(x_) * max(pc[max(min(int(np.searchsorted(FUa, x_)) + d_, N - 1),
                                                0)] for d_ in (-1, 0, 1))
                           for x_ in (clo, chi))
                tol_ms[b, c] = (32 * EPS * ca + 16 * EPS * edge) * scale + 1e-300
        sh.count("cell:rescale:%s:%s:%s" % (icls, "n_oct" if okind == "n_oct" else ocls,
                                            "extend" if extend else "noextend"))
        if ikind == "lin-perturbed" or okind == "lin-perturbed":
            sh.count("cell:rescale:near-linear-treated-as-log")
        if partial_lo:
            sh.count("cell:rescale:partial-low:" + ("extend" if extend else "noextend"))
        if partial_hi:
            sh.count("cell:rescale:partial-high:" + ("extend" if extend else "noextend"))
        tg = dict(tags, partial_lo=bool(partial_lo), partial_hi=bool(partial_hi))
        sh.check_close("rescale-band-mean-square", ms2, want_ms, tol_ms, case, tg)
        width = (OU - OL).reshape(-1, 1)
        sh.check_close("rescale-band-density", Pout2, want_p,
                       tol_ms / np.abs(width) + 1e-300, case, tg)
        sh.check_close("rescale-msv-is-sum", msv2, want_ms.sum(axis=0),
                       tol_ms.sum(axis=0), case, tg)


# =====================================================================================
#  resample
# =====================================================================================

def _run_resample(sh, params):
    import numpy as np
    from vf.oracles import dsp_ref as D
    from pyyeti import dsp
    if not D.selfcheck():
        raise RuntimeError("dsp_ref fails its self-check")
    sh.count("oracle-selfcheck:dsp_ref")
    n = BUDGET[sh.tier]["resample"]
    sl, ns = params["slice"], params["nslice"]
    for i in range(sl, n, ns):
        r = core.rng(sh.seed, "C19", "resample", i)
        p, q = int(r.integers(1, 13)), int(r.integers(1, 13))
        if i % 9 == 0:                                  # force non-coprime pairs
            g = int(r.integers(2, 4))
            p, q = g * int(r.integers(1, 5)), g * int(r.integers(1, 5))
        pts = int(r.choice([5, 6, 8, 10, 10, 13, 20, 33, 50, 65]))
        pr, qr = D.reduce_pq(p, q)
        M = 2 * pts * max(pr, qr)
        regime = "same" if pr == qr else ("up" if qr == 1 else ("down" if pr == 1 else "mixed"))
        sub = i % 4
        tags = {"kind": "resample", "regime": regime, "coprime": math.gcd(p, q) == 1,
                "pts": pts, "pts_ge_10": pts >= 10}
        ref_fir = D.lanczos_fir(p, q, pts)

        if sub in (0, 1):
            # ---------- random data, any dimension / axis -----------------------------------
            ln = int(r.choice([1, 2, 3, 4, 7])) if r.random() < 0.12 else int(r.integers(5, 501))
            ndim = int(r.choice([1, 1, 2, 2, 3]))
            axis = int(r.integers(-ndim, ndim)) if ndim > 1 else int(r.choice([-1, 0]))
            shape = [int(r.integers(1, 4)) for _ in range(ndim)]
            shape[axis] = ln
            x = r.standard_normal(shape) * 10.0 ** r.uniform(-2, 2) + r.normal(0, 3)
            cont = ["ndarray", "list", "int", "fortran"][int(r.integers(4))]
            xin = x
            if cont == "list":
                xin = x.tolist()
            elif cont == "int":
                x = np.round(x * 10)
                xin = x.astype(np.int64)
            elif cont == "fortran":
                xin = np.asfortranarray(x)
            with_t = ln >= 2 and r.random() < 0.5
            t0, dt = float(r.normal(0, 10)), float(10.0 ** r.uniform(-3, 1))
            t = t0 + dt * np.arange(ln)
            case = {"kind": "resample", "index": i, "p": p, "q": q, "pts": pts, "n": ln,
                    "shape": shape, "axis": axis, "container": cont, "t": bool(with_t)}
            tg = dict(tags, ndim=ndim, axis=axis, n=ln, ratio_integer=(ln * pr) % qr == 0)
            sh.case(["resample", i, p, q, pts, shape, axis], nontrivial=ln >= 4, sample=case)
            sh.count("cell:resample:" + regime)
            sh.count("cell:resample:ndim%d" % ndim)
            sh.count("cell:resample:axis-last" if axis in (-1, ndim - 1)
                     else "cell:resample:axis-other")
            if not tg["coprime"]:
                sh.count("cell:resample:non-coprime")
            try:
                if with_t:
                    y, tnew, fir = dsp.resample(xin, p, q, axis=axis, pts=pts, t=t,
                                                getfir=True)
                else:
                    y, fir = dsp.resample(xin, p, q, axis=axis, pts=pts, getfir=True)
                    tnew = None
            except Exception as e:
                sh.violation("exception:resample", case, {"exc": repr(e)}, tg)
                continue
            nout = -(-ln * p // q)
            wshape = list(shape)
            wshape[axis] = nout
            if not sh.check_equal("resample-length", list(np.shape(y)), wshape, case, tg):
                continue
            # documented FIR (length, values)
            sh.check_equal("resample-fir-length", len(fir),
                           2 * pts * max(p, q) // math.gcd(p, q) + 1, case, tg)
            if len(fir) == len(ref_fir):
                sh.check_close("resample-fir-documented", fir, ref_fir,
                               1e-13 * pr * np.ones(len(fir)), case, tg)
            # documented pipeline with the reference FIR
            xm = np.moveaxis(np.asarray(x, float), axis, -1)
            ym = np.moveaxis(np.asarray(y, float), axis, -1)
            yp = D.pipeline(xm, ref_fir, pr, qr)
            amp = np.max(np.abs(xm - xm.mean(axis=-1, keepdims=True)), axis=-1, keepdims=True)
            scale = amp * np.sum(np.abs(ref_fir)) + np.abs(xm.mean(axis=-1, keepdims=True))
            sh.check_close("resample-pipeline", ym, yp, 64 * EPS * scale * np.ones(ym.shape)
                           + 1e-300, case, tg)
            # retained originals on up-sampling
            if qr == 1:
                kept = ym[..., ::pr]
                sh.check_close("resample-keeps-originals", kept, xm,
                               (32 * EPS * (amp + np.abs(xm))) * np.ones(xm.shape) + 1e-300,
                               case, tg)
            # new positions
            if tnew is not None:
                tnew = np.asarray(tnew, float)
                if not sh.check_equal("resample-tnew-length", int(tnew.size), int(nout),
                                      case, tg):
                    continue
                kk = np.arange(nout)
                want_t = t0 + kk * (dt * qr / pr)
                # t[1] - t[0] carries up to an ulp of |t0| + dt, multiplied by k q/p
                tt = (2 * _ulp(abs(t0) + dt) * kk * qr / pr + 4 * EPS * np.abs(want_t)
                      + 4 * EPS * dt * kk * qr / pr + 1e-300)
                if tg["ratio_integer"]:
                    sh.check_close("resample-tnew", tnew, want_t, tt, case, tg)
                else:
                    # kept out of the margin statistics: this cell is a known finding
                    sh.count("mon:resample-tnew")
                    bad = np.abs(tnew - want_t) > tt
                    if bad.any():
                        kb = int(np.argmax(np.abs(tnew - want_t) / tt))
                        sh.violation("resample-tnew", case,
                                     {"index": kb, "got": tnew[kb], "want": want_t[kb],
                                      "tol": tt[kb], "nbad": int(bad.sum()),
                                      "size": int(bad.size)}, tg)
        elif sub == 2:
            # ---------- constants: reproduced to the rounding of the mean ------------------
            ln = int(r.integers(1, 501))
            c = float(r.standard_normal() * 10.0 ** r.integers(-6, 7))
            if r.random() < 0.2:
                c = float(r.choice([3.7, 0.1, 1.0, -2.5, 1e300, 1e-300]))
            case = {"kind": "resample-constant", "index": i, "p": p, "q": q, "pts": pts,
                    "n": ln, "value": c}
            sh.case(["resample-const", i, p, q, pts, ln, c], nontrivial=ln >= 4, sample=case)
            try:
                y = dsp.resample(np.full(ln, c), p, q, pts=pts)
            except Exception as e:
                sh.violation("exception:resample", case, {"exc": repr(e)}, tags)
                continue
            if not sh.check_equal("resample-length", int(np.size(y)), -(-ln * p // q), case,
                                  tags):
                continue
            sh.check_close("resample-constant", y, np.full(np.size(y), c),
                           8 * EPS * abs(c) * np.ones(np.size(y)), case, tags)
        else:
            # ---------- sinusoid at <= 0.4 of the lower Nyquist rate -------------------------
            need = int(math.ceil((M + 2) / pr)) + 6
            ln = need + int(r.integers(5, 200))
            frac = float(r.uniform(0.02, 0.4))
            f0 = frac * 0.5 * min(1.0, pr / qr)
            A = float(10.0 ** r.uniform(-2, 2))
            ph = float(r.uniform(0, 2 * math.pi))
            c0 = float(r.normal(0, 1) * A)
            k = np.arange(ln)
            x = A * np.sin(2 * math.pi * f0 * k + ph) + c0
            case = {"kind": "resample-sinusoid", "index": i, "p": p, "q": q, "pts": pts,
                    "n": ln, "f0_cycles_per_sample": f0, "amp": A, "phase": ph, "offset": c0}
            tg = dict(tags, frac_of_nyquist=frac)
            sh.case(["resample-sin", i, p, q, pts, ln, f0], True, sample=case)
            try:
                y, fir = dsp.resample(x, p, q, pts=pts, getfir=True)
            except Exception as e:
                sh.violation("exception:resample", case, {"exc": repr(e)}, tg)
                continue
            if not sh.check_equal("resample-length", int(np.size(y)), -(-ln * p // q), case, tg):
                continue
            kin = D.interior(ln, pr, qr, M)
            tt = kin * qr / pr
            truth = A * np.sin(2 * math.pi * f0 * tt + ph) + c0
            m = float(np.mean(x))
            # rigorous steady-state bound from the RETURNED filter; 1.05 covers the float
            # evaluation of G; the cap below keeps the bound from being vacuous
            E = A * D.sinus_bound(fir, pr, f0) + abs(c0 - m) * D.sinus_bound(fir, pr, 0.0)
            tol = 1.05 * E + 1e-12 * (A + abs(c0))
            sh.check_close("resample-sinusoid-bound", y[kin], truth,
                           tol * np.ones(kin.size), case, tg)
            err = float(np.max(np.abs(y[kin] - truth))) / A
            sh.worst("resample-sinusoid-relerr/1e-3:pts>=10" if pts >= 10
                     else "resample-sinusoid-relerr/1e-1:pts<10",
                     err / (1e-3 if pts >= 10 else 1e-1))
            # accuracy grade set by the window length (measured on the reference filter:
            # <= 2.5e-6 for pts >= 10, <= 4e-3 for pts 5..9 over all p, q <= 12): x5..8 margin
            cap = 2e-5 if pts >= 10 else 2e-2
            Eref = D.sinus_bound(ref_fir, pr, f0)
            sh.count("mon:resample-accuracy-grade")
            sh.worst("resample-accuracy-grade", Eref / cap)
            if not (Eref <= cap and err <= 1.05 * (Eref + abs(c0 - m) / A
                                                   * D.sinus_bound(ref_fir, pr, 0.0)) + 1e-11):
                sh.violation("resample-accuracy-grade", case,
                             {"relerr": err, "bound_reference_filter": Eref, "cap": cap}, tg)


# =====================================================================================
#  fixtime
# =====================================================================================

FAMILIES = ["uniform", "jitter", "gaps", "repeats", "shifts", "dropouts", "unsorted",
            "gaps+jitter", "dyadic-gaps", "mix", "drift"]


def _make_record(r, fam):
    """-> dict(t, y, sr, dyadic, planted_drops, dropval, note)."""
    import numpy as np
    N = int(r.integers(20, 300))
    dyadic = fam in ("uniform", "gaps", "dyadic-gaps", "repeats", "dropouts") \
        and r.random() < 0.8 or fam == "dyadic-gaps"
    if dyadic:
        sr = float(r.choice([0.5, 1.0, 2.0, 4.0, 8.0, 64.0]))
        t0 = float(r.integers(-40, 40)) / sr
    else:
        sr = float(r.choice([1.0, 10.0, 100.0, 7.3, 250.0, 0.2]))
        t0 = float(r.normal(0, 50))
    dt = 1.0 / sr
    t = t0 + np.arange(N) / sr
    ids = np.arange(N, dtype=float)
    keep = np.ones(N, bool)
    planted = np.zeros(N, bool)
    dropval = -1.40130e-45
    if fam in ("jitter", "gaps+jitter", "mix", "shifts", "unsorted"):
        t = t + r.uniform(-0.24, 0.24, N) * dt * (1.0 if fam != "shifts" else 0.2)
    if fam == "drift":
        # cumulative clock drift: every step within ~20 % of nominal, same sample count,
        # both ends on the nominal grid -- but the middle is several steps off, so the
        # nearest sample is NOT the one with the same index
        N = max(N, 140)
        k = np.arange(N)
        ids = k.astype(float)
        keep = np.ones(N, bool)
        planted = np.zeros(N, bool)
        if r.random() < 0.6:
            A = float(r.uniform(0.8, 0.2 * (N - 1) / (2 * np.pi)))
            off = A * np.sin(2 * np.pi * k / (N - 1))
        else:
            w = np.cumsum(r.uniform(-0.2, 0.2, N))
            off = w - w[0] - (w[-1] - w[0]) * k / (N - 1)          # pinned random walk
            off *= min(1.0, 0.2 / max(np.abs(np.diff(off)).max(), 1e-12))
        t = t0 + (k + off) / sr
    if fam in ("gaps", "gaps+jitter", "dyadic-gaps", "mix"):
        ng = int(r.integers(1, 5))
        for _ in range(ng):
            a = int(r.integers(2, N - 8))
            keep[a:a + int(r.integers(1, 7))] = False
    if fam in ("shifts", "mix"):
        for _ in range(int(r.integers(1, 4))):
            a = int(r.integers(3, N - 3))
            t[a:] += float(r.choice([0.3, 0.45, 0.6, 1.4, 2.3])) * dt
    t, ids, planted = t[keep], ids[keep], planted[keep]
    n = t.size
    if fam in ("repeats", "mix"):
        for _ in range(int(r.integers(1, 5))):
            a = int(r.integers(1, n - 1))
            t[a] = t[a - 1]                                # repeated stamp, distinct ids
    y = ids.copy()
    if fam in ("dropouts", "mix") or (fam == "unsorted" and r.random() < 0.5):
        # (with 'unsorted': drop-outs whose position after time-sorting differs from
        # their position in the record as delivered)
        kind = int(r.integers(3))
        dropval = [-1.40130e-45, -999.0, 1.0e20][int(r.integers(3))]
        nd = int(r.integers(1, max(2, n // 6)))
        where = r.choice(np.arange(1, n - 1), nd, replace=False)
        for w in where:
            y[w] = [dropval, np.nan, np.inf, -np.inf, dropval * (1 + 0.004)][int(r.integers(5))]
            planted[w] = True
    if fam == "dropouts" and n >= 25 and r.random() < 0.5 and planted.any():
        # one wild time stamp (far more than 3 sigma from the mean: documented to be
        # deleted) AFTER the first drop-out
        first = int(np.nonzero(planted)[0].min())
        cand = [k for k in range(first + 1, n - 1) if not planted[k]]
        if cand:
            w = cand[int(r.integers(0, len(cand)))]
            t[w] = t[w] + 50.0 * (t.max() - t.min() + dt) * (1 if r.random() < 0.7 else -1)
    order = np.arange(n)
    if fam == "unsorted":
        for _ in range(int(r.integers(1, 4))):
            a = int(r.integers(1, n - 6))
            b = a + int(r.integers(2, 5))
            order[a:b] = order[a:b][::-1].copy()
        if r.random() < 0.5 and n > 20:
            # a sample or a block delivered late / early by several positions: one
            # negative step only, far from where the displaced data belongs
            order = order.tolist()
            a = int(r.integers(1, n - 12))
            blk = int(r.integers(1, 4))
            shift = int(r.integers(3, 9))
            moved = order[a:a + blk]
            del order[a:a + blk]
            pos = a + shift if r.random() < 0.5 else max(1, a - shift)
            order[pos:pos] = moved
            order = np.array(order)
    return {"t": t[order], "y": y[order], "ids": ids[order], "planted": planted[order],
            "sr": sr, "dyadic": bool(dyadic and fam not in ("jitter",)), "dropval": dropval}


def _run_fixtime(sh, params):
    import numpy as np
    from vf.oracles import dsp_ref as D
    from pyyeti import dsp
    n = BUDGET[sh.tier]["fixtime"]
    sl, ns = params["slice"], params["nslice"]
    for i in range(sl, n, ns):
        r = core.rng(sh.seed, "C19", "fixtime", i)
        fam = FAMILIES[i % len(FAMILIES)]
        rec = _make_record(r, fam)
        t, y, sr = rec["t"], rec["y"], rec["sr"]
        dt = 1.0 / sr
        hold = bool((i // len(FAMILIES)) % 2)
        tol = 1e-3
        if hold:
            tol = float([1e-3, 1e-3, 0.0, 0.1, 0.5, 1.0][int(r.integers(6))])
        base = None
        if r.random() < 0.3:
            base = float(r.choice([0.0, 1000.0, t.min() + 0.3 * dt, t.min() - 7.45 * dt]))
            if rec["dyadic"] and r.random() < 0.5:
                base = float(np.round(t.min() * sr) / sr + 3 * dt)     # on the grid
        sr_arg = sr
        if fam in ("uniform", "gaps", "dyadic-gaps") and r.random() < 0.25 and sr >= 1:
            sr_arg = "auto"
        form = "array" if r.random() < 0.4 else "tuple"
        kw = dict(sr=sr_arg, hold_previous_value=hold, verbose=False, getall=True,
                  dropval=rec["dropval"])
        if hold:
            kw["previous_value_tol"] = tol
        if base is not None:
            kw["base"] = base
        inp = np.column_stack([t, y]) if form == "array" else (t.copy(), y.copy())
        case = {"kind": "fixtime", "index": i, "family": fam, "sr": sr_arg, "hold": hold,
                "previous_value_tol": tol if hold else None, "base": base, "form": form,
                "n": int(t.size), "t_head": t[:12], "y_head": y[:12]}
        tags = {"kind": "fixtime", "family": fam, "hold": hold, "tol": tol if hold else None,
                "tol_zero": bool(hold and tol == 0.0), "base_given": base is not None,
                "dyadic": rec["dyadic"], "sr_auto": sr_arg == "auto"}
        sh.case(["fixtime", i, fam, hold, tol, base, str(sr_arg)], True, sample=case)
        sh.count("cell:fixtime:%s:%s" % (fam, "hold" if hold else "nearest"))
        try:
            res, info = dsp.fixtime(inp, **kw)
        except Exception as e:
            sh.violation("exception:fixtime", case, {"exc": repr(e)}, tags)
            continue
        if form == "array":
            tn, yn = np.asarray(res)[:, 0].copy(), np.asarray(res)[:, 1].copy()
        else:
            tn, yn = np.asarray(res[0], float), np.asarray(res[1], float)
        if sr_arg == "auto" and tn.size >= 2:
            # whatever rate 'auto' settles on, the property is judged on that time base
            sr_eff = (tn.size - 1) / float(tn[-1] - tn[0])
            sh.count("cell:fixtime:sr-auto")
        else:
            sr_eff = sr
        dte = 1.0 / sr_eff
        big = float(np.max(np.abs(tn))) if tn.size else 0.0
        u = _ulp(max(big, dte))
        # ---- uniform time base -------------------------------------------------------------
        if tn.size >= 2:
            sh.check_close("fixtime-uniform-step", np.diff(tn), np.full(tn.size - 1, dte),
                           (4 * u + 2 * EPS * dte) * np.ones(tn.size - 1), case, tags)
        # ---- which samples may be used -----------------------------------------------------
        drops = np.sort(np.asarray(info.alldrops.alldrops, int))
        planted = np.nonzero(rec["planted"])[0]
        kept0 = np.setdiff1d(np.arange(t.size), planted)
        tk = t[kept0]
        out_t = kept0[np.abs(tk - tk.mean()) > 3 * tk.std(ddof=1)] if tk.size > 2 else \
            np.array([], int)
        want_drops = np.union1d(planted, out_t)
        sh.count("mon:fixtime-drops")
        if not np.array_equal(drops, want_drops):
            sh.violation("fixtime-drops", case, {"reported": drops, "expected": want_drops},
                         tags)
            continue
        kept = np.setdiff1d(np.arange(t.size), want_drops)
        tk, idk = t[kept], rec["ids"][kept]
        # values are sample ids: identify the source of every output sample
        idpos = {float(v): j for j, v in enumerate(idk)}
        src = np.array([idpos.get(float(v), -1) if v == v else -1 for v in yn])
        sh.count("mon:fixtime-source-is-kept-sample")
        if np.any(src < 0):
            sh.violation("fixtime-source-is-kept-sample", case,
                         {"bad_values": yn[src < 0][:10], "count": int(np.sum(src < 0))}, tags)
            continue
        # ---- base ----------------------------------------------------------------------------
        shift = 0.0
        if base is not None:
            kw2 = dict(kw)
            kw2.pop("base")
            try:
                res0, _ = dsp.fixtime(inp, **kw2)
                tn0 = np.asarray(res0)[:, 0] if form == "array" else np.asarray(res0[0], float)
                shift = float(tn[0] - tn0[0])
            except Exception as e:
                sh.violation("exception:fixtime", case, {"exc": repr(e)}, tags)
                continue
            kb = (base - tn[0]) * sr_eff
            sh.count("mon:fixtime-base-hit")
            if abs(kb - round(kb)) > 1e-9 * (abs(kb) + 1) + 4 * u * sr_eff or \
                    abs(shift) > dte / 2 * (1 + 1e-9) + 2 * u:
                sh.violation("fixtime-base-hit", case,
                             {"(base-t0)*sr": kb, "shift": shift, "dt": dte}, tags)
        # ---- source-sample identity ---------------------------------------------------------
        slack = 4 * u + 4 * EPS * dte
        order = np.argsort(tk, kind="stable")
        tks = tk[order]

        def judge(tref):
            """-> (failures, number of exact dyadic ties met); a failure is a dict with
            'coincidence' = it is the tol = 0 exactly-coincident-stamp situation"""
            fails, nties = [], 0
            for k_, v in enumerate(tref):
                j = int(src[k_])
                if not hold:
                    d = np.abs(tk - v)
                    dm = float(d.min())
                    if d[j] > dm + slack:
                        fails.append({"k": k_, "t_new": float(v), "chosen_t": float(tk[j]),
                                      "chosen_dist": float(d[j]), "min_dist": dm})
                        continue
                    if rec["dyadic"] and not tags["sr_auto"]:
                        # exact arithmetic on a dyadic grid: equal distances are exact ties
                        cand = np.nonzero(d == dm)[0]
                        tset = np.unique(tk[cand])
                        if tset.size > 1:
                            nties += 1
                            if tk[j] != tset.min():
                                fails.append({"k": k_, "t_new": float(v), "tie": True,
                                              "chosen_t": float(tk[j]), "tied_times": tset})
                else:
                    lim = v + tol * dte
                    jlo = D.previous_index(tks, lim - slack)
                    jhi = D.previous_index(tks, lim + slack)
                    jx = D.previous_index(tks, v)
                    coincide = bool(tol == 0.0 and tks[jx] == v)
                    if coincide:
                        # "considered equal if within 0 * dt": an exactly coincident old
                        # time IS the previous-or-equal sample
                        jlo = jhi = jx
                    lo_t, hi_t = min(tks[jlo], tks[jhi]), max(tks[jlo], tks[jhi])
                    if not lo_t <= tk[j] <= hi_t:
                        fails.append({"k": k_, "t_new": float(v), "chosen_t": float(tk[j]),
                                      "expected_t": [float(lo_t), float(hi_t)],
                                      "coincidence": coincide})
            return fails, nties

        fails, nties = judge(tn)
        mon = "fixtime-previous-sample" if hold else "fixtime-nearest-sample"
        sh.count("mon:" + mon, tn.size)
        if nties:
            sh.count("mon:fixtime-dyadic-tie-rule", nties)
        if fails:
            tg = dict(tags)
            ref = fails
            if base is not None and abs(shift) > slack:
                f0, _ = judge(tn - shift)
                # every failure disappears (or is the separate tol = 0 coincidence) when
                # the returned times are moved back by the base shift
                tg["explained_by_base_shift"] = all(x.get("coincidence") for x in f0)
                if f0:
                    ref = f0
            tg["exact_coincidence_tol0"] = bool(hold and tol == 0.0 and all(
                x.get("coincidence") for x in ref))
            if all(x.get("tie") for x in fails):
                mon = "fixtime-tie-rule"
            sh.violation(mon, case, dict(fails[0], wrong=len(fails), of=int(tn.size),
                                         base_shift=shift), tg)
        # ---- already-uniform data is returned unchanged ---------------------------------------
        # (hold-previous: only while the documented "equal within tol*dt" window cannot
        # reach the next sample, tol <= 0.5; tol = 0 is the separate coincidence finding)
        if fam == "uniform" and base is None and sr_arg != "auto" and not (
                hold and (tol == 0.0 or tol > 0.5)):
            sh.count("mon:fixtime-uniform-unchanged")
            same_t = tn.size == t.size and np.all(np.abs(tn - t) <= 2 * u)
            same_y = tn.size == t.size and np.array_equal(yn, y)
            if not (same_t and same_y):
                sh.violation("fixtime-uniform-unchanged", case,
                             {"n_in": int(t.size), "n_out": int(tn.size),
                              "max_dt": float(np.max(np.abs(tn - t))) if tn.size == t.size
                              else None, "data_equal": bool(same_y)}, tags)


def run_shard(sh, params):
    {"spec": _run_spec, "rescale": _run_rescale, "resample": _run_resample,
     "fixtime": _run_fixtime}[params["kind"]](sh, params)


MANDATORY = ["area-vs-integral", "area-additive-split", "interp-own-frequencies",
             "interp-own-frequencies-linear", "interp-loglog-interior", "interp-outside-zero",
             "rescale-band-mean-square", "rescale-band-density", "rescale-msv-is-sum",
             "rescale-octave-scale", "rescale-output-trim",
             "resample-length", "resample-fir-length", "resample-fir-documented",
             "resample-pipeline", "resample-keeps-originals", "resample-tnew",
             "resample-constant", "resample-sinusoid-bound", "resample-accuracy-grade",
             "fixtime-uniform-step", "fixtime-drops", "fixtime-source-is-kept-sample",
             "fixtime-nearest-sample", "fixtime-previous-sample", "fixtime-dyadic-tie-rule",
             "fixtime-base-hit", "fixtime-uniform-unchanged"]


def finalize(agg, tier):
    why = []
    c = agg["counters"]
    for k in MANDATORY:
        if not c.get("mon:" + k):
            why.append(f"monitor {k} never evaluated")
    cells = ["slope:m1-exact", "slope:m1-rounded", "slope:near1e-07", "slope:near1e-05",
             "slope:near0.001", "slope:generic", "areabranch:branch", "areabranch:formula",
             "form:array", "form:tuple1d", "form:tuple2d", "form:list2d", "form:nan-frequency",
             "ncol:1", "ncol:2", "ncol:3",
             "cell:resample:up", "cell:resample:down", "cell:resample:mixed",
             "cell:resample:non-coprime", "cell:resample:ndim1", "cell:resample:ndim2",
             "cell:resample:ndim3", "cell:resample:axis-other",
             "oracle-selfcheck:psd_ref", "oracle-selfcheck:dsp_ref",
             "cell:rescale:near-linear-treated-as-log"]
    for ic in ("linear", "log"):
        for oc in ("n_oct", "linear", "log"):
            for e in ("extend", "noextend"):
                cells.append(f"cell:rescale:{ic}:{oc}:{e}")
    for e in ("extend", "noextend"):
        cells += [f"cell:rescale:partial-low:{e}", f"cell:rescale:partial-high:{e}"]
    for fam in FAMILIES:
        for m in ("hold", "nearest"):
            cells.append(f"cell:fixtime:{fam}:{m}")
    for k in cells:
        if not c.get(k):
            why.append(f"coverage cell {k} empty")
    return why


def evidence_extra(agg, tier):
    c = agg["counters"]
    return {"rescale_cases_skipped_unjudged_linearity_zone":
            c.get("rescale-skipped:unjudged-linearity-zone", 0),
            "fixtime_dyadic_ties_judged": c.get("mon:fixtime-dyadic-tie-rule", 0)}
