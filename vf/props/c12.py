"""C12 -- Nastran number fields (width, grammar, best precision, monotonicity) and the
generic card round trip wtcard8/16/16d -> rdcards, fixed-field vs comma-separated.

Oracle: vf/oracles/nas_field.py (own grammar, own fixed-field splitter, precision bound
``|x - parsed| <= 0.51*u + ulp(x)`` with u from enumeration of the normalised forms
that fit the field).  The comma / tab / mixed-case renditions of a card are produced by
this harness from the fixed-field text the writers produced.
"""
import io
import math
import os
from decimal import Decimal, ROUND_HALF_EVEN

from vf import core

ID = "C12"
LEVEL = "exploration"
RULE = ("floats: every decade 1e-307..1e307 x boundary mantissas (ties of every digit "
        "count, values rounding up to the next power of ten) x both signs, powers of ten "
        "+-1..3 ulp, branch thresholds +-ulp, n+0.5 ties where the integer part fills "
        "the field, subnormals, +-0.0, log-uniform random (wide 1e-300..1e300 and "
        "moderate 1e-9..1e17), float32/float64 NumPy scalars -- each through "
        "format_float8, format_float16, format_double16.  cards: 1-60 fields of "
        "{int, float, string incl. tricky words, blank} with leading/interior/trailing "
        "blank placement, names with/without '*', wtcard8/16/16d, read back with "
        "rdcards(return_var='list') from fixed form, tabbed fixed form and three "
        "harness-made comma renditions; several cards per file with distractors.  "
        "distinct = digest of the float (boundary families), of the (seed, slice, block) "
        "triple (random blocks of 100 floats) or of the card; non-trivial = finite "
        "non-zero float / card with at least one non-blank field")
ASSUMPTIONS = [
    "a Nastran real is [sign] digits '.' digits with an optional exponent E|D[sign]dd or "
    "sign dd (QRG); an all-digit field is an integer, not a real",
    "the precision a field 'allows' is that of the finest normalised form (fixed with k "
    "decimals, or d.ddd(+|-)ee with one non-zero leading digit; for format_double16 "
    "only d.dddD(+|-)ee); un-normalised mantissas are not credited (DESIGN 5-C12)",
    "CPython int/int true division is correctly rounded (used to evaluate field text)",
    "values whose correctly rounded field exceeds the largest double (|x| > 1e308) are "
    "outside the property's quantifier and are not generated",
]
MIN_NONTRIVIAL = {"quick": 30000, "thorough": 200000}

# extra workload of the thorough tier: the repository's own tests with the cheap monitors
# of vf/ambient.py attached (never the deciding one; DESIGN 2.8)
AMBIENT = {"tests": ['test_nastran.py', 'test_n2p.py'], "monitors": ['format'], "quick": False}
TIMEOUT = {"quick": 1200, "thorough": 7200}

NSLICE = {"quick": 12, "thorough": 16}
NRANDOM = {"quick": 260000, "thorough": 20000000}     # random floats (all shards)
NCARDS = {"quick": 6000, "thorough": 100000}          # card files (all shards)
NTIES = {"quick": 6, "thorough": 120}                 # random tie mantissas per decade

MANT = ["1", "1.0000000000000002", "1.5", "2.5", "4.9999999999999", "4.99995",
        "4.9995", "5.0000000000001", "5.00005", "9.5", "9.95", "9.995", "9.9995",
        "9.99995", "9.999995", "9.9999995", "9.99999995", "9.999999995",
        "9.9999999995", "9.99999999995", "9.999999999995", "9.9999999999995",
        "9.99999999999995", "9.999999999999995", "9.9999999999999995", "9.9949999",
        "1.2345", "1.23455", "1.234565", "3.3333333333333333", "6.6666666666666667",
        "1.00005", "1.000005", "9.4999999", "9.99999949", "9.9999994999999"]

TRICKY = ["E5", "D1", "THRU", "E", "D", "EE", "DD", "E10", "D10", "X1E5", "A1D3", "NANA",
          "INFI", "INFINIT", "INFINITE", "NA", "IN", "NONE", "TRUE", "E1E1", "D5D", "O0",
          "I1", "L", "ENDDATA", "BY", "EXCEPT", "ALL", "e5", "d1", "Thru", "E5D5"]
FLOATWORDS = ["NAN", "INF", "INFINITY", "nan", "Inf", "NaN", "inf", "Infinity"]
ALNUM = "ABCDEFGHIJKLMNOPQRSTUVWXYZ0123456789"


def shards(tier, seed):
    n = NSLICE[tier]
    return [{"slice": s, "nslice": n} for s in range(n)]


# ------------------------------------------------------------------------------------
# float part

def _mech_tags(x, width, style):
    """Mechanism facts about a float/field pair (used by the known-findings)."""
    from vf.oracles import nas_field as nf
    neg = math.copysign(1.0, x) < 0
    t = {"negative": bool(neg), "width": width, "style": style}
    if x == 0 or x != x or x in (math.inf, -math.inf):
        return t
    e = nf.exponent10(x)
    t["decade"] = e
    t["intfill"] = bool(style == "E" and e >= 0 and int(neg) + e + 2 == width)
    try:
        q = Decimal(abs(x)).quantize(Decimal(1), rounding=ROUND_HALF_EVEN)
        t["rounds_up_to_pow10"] = bool(q == Decimal(10) ** (e + 1))
    except Exception:
        t["rounds_up_to_pow10"] = False
    t["subnormal"] = bool(abs(x) < 2.2250738585072014e-308)
    return t


class _FloatChecker:
    def __init__(self, sh, bulk):
        from vf.oracles import nas_field as nf
        self.sh, self.nf, self.bulk = sh, nf, bulk
        self.F = [("format_float8", 8, "E"), ("format_float16", 16, "E"),
                  ("format_double16", 16, "D")]
        self.cnt = {}
        self.worst = {}

    def c(self, k, n=1):
        self.cnt[k] = self.cnt.get(k, 0) + n

    def flush(self):
        for k, v in self.cnt.items():
            self.sh.count(k, v)
        for k, v in self.worst.items():
            self.sh.worst(k, v)
        self.cnt = {}

    def one(self, xin, fam, stype="float"):
        """All three formatters on one value; returns {func: parsed value or None}."""
        sh, nf = self.sh, self.nf
        x = float(xin)
        out = {}
        for name, w, st in self.F:
            f = getattr(self.bulk, name)        # through the package attribute
            case = {"func": name, "x": x, "hex": x.hex(), "scalar": stype,
                    "family": fam}
            out[name] = None
            try:
                s = f(xin)
            except Exception as e:
                sh.violation("exception:" + name, case, {"exc": repr(e)},
                             {"func": name, **_mech_tags(x, w, st)})
                continue
            self.c("mon:fmt-width")
            if not isinstance(s, str) or len(s) != w:
                sh.violation("fmt-width", case, {"field": s, "len": len(s)},
                             {"func": name, **_mech_tags(x, w, st)})
                continue
            self.c("mon:fmt-grammar")
            r = nf.parse_real(s)
            if r is None:
                kind, val = nf.classify(s)
                sh.violation("fmt-grammar", case,
                             {"field": s, "own_grammar_says": kind},
                             {"func": name, "got_kind": kind, "got_type": kind,
                              **_mech_tags(x, w, st)})
                continue
            own = r[3]
            self.c("mon:fmt-scan")
            try:
                v = self.bulk.nas_sscanf(s)
            except Exception as e:
                sh.violation("exception:nas_sscanf", case, {"field": s, "exc": repr(e)},
                             {"func": name})
                continue
            if type(v) is not float or not (v == own) or (
                    math.copysign(1.0, v) != math.copysign(1.0, own) and v != 0):
                sh.violation("fmt-scan", case, {"field": s, "nas_sscanf": v,
                                                "own_parse": own},
                             {"func": name, **_mech_tags(x, w, st)})
                continue
            if x == 0.0:
                self.c("mon:fmt-zero")
                self.c("cell:zero:" + name)
                if v != 0.0:
                    sh.violation("fmt-zero", case, {"field": s, "value": v},
                                 {"func": name})
                out[name] = v
                continue
            self.c("mon:fmt-precision")
            p, form = nf.finest_unit(x, w, st)
            b = 0.51 * nf.pow10(p) + math.ulp(x)
            err = abs(x - v)
            ratio = err / b
            if ratio > self.worst.get("fmt-precision:" + name, -1):
                self.worst["fmt-precision:" + name] = ratio
            wrote = "sci" if any(ch in s.strip()[1:] for ch in "+-D") else "fixed"
            self.c(f"cell:{name}:{'neg' if x < 0 else 'pos'}:{wrote}")
            if not (err <= b):
                sh.violation("fmt-precision", case,
                             {"field": s, "value": v, "err": err, "bound": b,
                              "unit_exp10": p, "finest_form": form},
                             {"func": name, "wrote": wrote, **_mech_tags(x, w, st)})
                continue
            out[name] = v
        return out

    def monotone(self, xs, parsed, fam):
        """xs ascending; parsed = list of dicts from one()."""
        for name, w, st in self.F:
            self.c("mon:fmt-monotone")
            last, lastx = None, None
            for x, p in zip(xs, parsed):
                v = p.get(name)
                if v is None:
                    continue
                if last is not None and v < last and x > lastx:
                    self.sh.violation(
                        "fmt-monotone", {"func": name, "x_lo": lastx, "x_hi": x,
                                         "family": fam},
                        {"parsed_lo": last, "parsed_hi": v}, {"func": name})
                    break
                last, lastx = v, x


def _run_floats(sh, params, bulk):
    import numpy as np
    from vf.oracles import nas_field as nf
    tier = sh.tier
    s, ns = params["slice"], params["nslice"]
    fc = _FloatChecker(sh, bulk)
    r = core.rng(sh.seed, "C12", "float", s)

    # -- A: decade sweep x boundary mantissas x both signs -----------------------------
    for d in range(-307, 308):
        if (d + 307) % ns != s:
            continue
        mants = list(MANT)
        # random ties: mantissa with n digits followed by a 5 (half-way in the field)
        for _ in range(NTIES[tier]):
            n = int(r.integers(1, 16))
            digs = "".join(str(int(c)) for c in r.integers(0, 10, n))
            lead = str(int(r.integers(1, 10)))
            tail = ["5", "49999999", "50000001"][int(r.integers(0, 3))]
            mants.append(lead + "." + digs + tail)
        for sign in ("", "-"):
            xs, ps = [], []
            for m in mants:
                x = float(f"{sign}{m}e{d}")
                if not math.isfinite(x) or x == 0:
                    continue
                sh.case(["A", x.hex()], True, sample={"family": "decade-sweep", "x": x})
                xs.append(x)
                ps.append(fc.one(x, "decade-sweep"))
            fc.c("cell:decade-sweep")
            order = sorted(range(len(xs)), key=lambda i: xs[i])
            fc.monotone([xs[i] for i in order], [ps[i] for i in order], "decade-sweep")

    # -- B: powers of ten +-1..3 ulp; branch thresholds; n+0.5 ties ---------------------
    spec = []
    for d in range(-307, 309):
        if (d + 307) % ns != s:
            continue
        p = float(f"1e{d}")
        chain = [p]
        lo = hi = p
        for _ in range(3):
            lo = math.nextafter(lo, 0.0)
            hi = math.nextafter(hi, math.inf)
            chain += [lo, hi]
        if d <= 307:
            f5 = float(f"5e{d}")
            chain += [f5, math.nextafter(f5, 0.0), math.nextafter(f5, math.inf)]
        spec.append(("pow10", sorted(c for c in chain if math.isfinite(c))))
    if s == 0:
        th = [5e-8, 5e-7, 5e-16, 5e-15, 0.001, 0.01, 999999.5, 9999999.5, 99999999.5,
              99999999999999.5, 999999999999999.5, 9999999999999.5, 99999.5, 999999.95,
              0.0009999999999999, 0.00099999995, 0.0099999995, 0.99999995,
              0.999999999999999944]
        chain = []
        for t in th:
            a = b = t
            chain.append(t)
            for _ in range(2):
                a = math.nextafter(a, 0.0)
                b = math.nextafter(b, math.inf)
                chain += [a, b]
        spec.append(("threshold", sorted(chain)))
    # integer part fills the field: n + f for f in {0, .25, .5, .75}, n near 10^k
    for k, cnt in ((6, 40), (5, 40), (14, 40), (13, 40), (15, 10)):
        base = 10 ** k
        vals = []
        for _ in range(cnt if tier == "quick" else cnt * 8):
            n = int(r.integers(base, 10 * base)) if r.random() < 0.7 else \
                10 * base - int(r.integers(1, 50))
            for fr in (0.0, 0.25, 0.5, 0.75):
                vals.append(float(n) + fr)
        spec.append((f"intfill{k}", sorted(set(vals))))
    for fam, chain in spec:
        for sign in (1.0, -1.0):
            xs = sorted(sign * c for c in chain)
            ps = []
            for x in xs:
                sh.case(["B", x.hex()], True)
                ps.append(fc.one(x, fam))
            fc.monotone(xs, ps, fam)
        fc.c("cell:family:" + ("intfill" if fam.startswith("intfill") else fam))

    # -- C: subnormals, smallest normals, zeros -------------------------------------------
    if s in (0, ns // 2):
        tiny = 5e-324
        chain = [tiny * k for k in (1, 2, 3, 4, 5, 7, 10, 100, 1000, 12345, 2 ** 30,
                                    2 ** 51, 2 ** 52 - 1)]
        chain += [2.2250738585072014e-308, math.nextafter(2.2250738585072014e-308, 0.0),
                  math.nextafter(2.2250738585072014e-308, 1.0)]
        chain += (10.0 ** r.uniform(-323.3, -307.7, 200)).tolist()
        for sign in (1.0, -1.0):
            xs = sorted(sign * c for c in chain if c != 0)
            ps = []
            for x in xs:
                sh.case(["C", x.hex()], True)
                ps.append(fc.one(x, "subnormal"))
                if abs(x) < 2.2250738585072014e-308:
                    fc.c("cell:subnormal")
            fc.monotone(xs, ps, "subnormal")
        for z in (0.0, -0.0, np.float64(0.0), np.float32(-0.0)):
            sh.case(["zero", repr(z), type(z).__name__], False)
            fc.one(z, "zero", type(z).__name__)

    # -- D/E: random log-uniform, wide and moderate; blocks of 100 sorted ----------------
    nblocks = NRANDOM[tier] // 100 // ns
    for b in range(nblocks):
        rb = core.rng(sh.seed, "C12", "rand", s, b)
        kind = b % 4
        if kind == 0:
            xs = 10.0 ** rb.uniform(-300, 300, 100)
            fam = "random-wide"
        elif kind == 3:
            # local chains: neighbours at relative distance 1e-16..1e-3
            base = 10.0 ** rb.uniform(-12, 18, 10)
            xs = (base[:, None] * (1 + np.concatenate(
                [[0.0], 10.0 ** rb.uniform(-16, -3, 9)])[None, :])).ravel()
            fam = "random-local"
        else:
            xs = 10.0 ** rb.uniform(-9, 17, 100)
            fam = "random-moderate"
        xs = xs * rb.choice([-1.0, 1.0], xs.size)
        xs = np.sort(xs).tolist()
        sh.case(["R", sh.seed, s, b], True,
                sample={"family": fam, "block": [sh.seed, s, b], "first": xs[0]})
        ps = [fc.one(x, fam) for x in xs]
        fc.c("floats:random", len(xs))
        fc.monotone(xs, ps, fam)
        fc.c("cell:family:" + fam)

    # -- H: NumPy scalars -----------------------------------------------------------------
    rn = core.rng(sh.seed, "C12", "npscalar", s)
    n32 = 400 if tier == "quick" else 6000
    v32 = (10.0 ** rn.uniform(-37, 38, n32) * rn.choice([-1, 1], n32)).astype(np.float32)
    v32 = v32[np.isfinite(v32) & (v32 != 0)]
    # float32 neighbours of every decade 1e-9..1e17 (where the formatters' branch
    # thresholds sit): a float32 scalar compared with a Python constant is compared in
    # float32 precision, so a threshold can be crossed by the input type alone (f3846fe)
    edge = []
    for e in range(-9, 18):
        c = np.float32(10.0 ** e)
        edge += [c, np.nextafter(c, np.float32(0)), np.nextafter(c, np.float32(np.inf))]
    edge = np.array(edge + [-x for x in edge], dtype=np.float32)
    fc.c("cell:scalar:float32-decade-neighbours", len(edge))
    v32 = np.concatenate([edge, v32])
    for v in v32:
        sh.case(["f32", float(v).hex()], True)
        fc.one(v, "np.float32", "float32")
        fc.c("cell:scalar:float32")
    v64 = 10.0 ** rn.uniform(-300, 300, n32) * rn.choice([-1, 1], n32)
    for v in v64:
        sh.case(["f64", float(v).hex()], True)
        fc.one(np.float64(v), "np.float64", "float64")
        fc.c("cell:scalar:float64")
    fc.flush()


# ------------------------------------------------------------------------------------
# card part

def _rand_word(r, maxlen=8):
    n = int(r.integers(1, maxlen + 1))
    return "ABCDEFGHIJKLMNOPQRSTUVWXYZ"[int(r.integers(0, 26))] + "".join(
        ALNUM[int(i)] for i in r.integers(0, 36, n - 1))


def _is_floatword(s):
    return s.strip().lower().lstrip("+-") in ("nan", "inf", "infinity")


def _rand_float(r, width, style):
    """A finite float for a card field (the two formatter findings' inputs excluded:
    they live in their own family so that they cannot hide anything here)."""
    while True:
        u = r.random()
        if u < 0.45:
            x = 10.0 ** r.uniform(-9, 17)
        elif u < 0.70:
            x = 10.0 ** r.uniform(-300, 300)
        elif u < 0.88:
            x = float(f"{MANT[int(r.integers(0, len(MANT)))]}e{int(r.integers(-120, 121))}")
        elif u < 0.94:
            x = float(int(r.integers(0, 100000)))
        elif u < 0.97:
            x = 0.0
        else:
            x = float(r.integers(1, 10 ** 6)) / 10 ** int(r.integers(0, 7))
        if r.random() < 0.5:
            x = -x
        if x != 0:
            t = _mech_tags(x, width, style)
            if t.get("intfill") and t.get("rounds_up_to_pow10"):
                continue
        return x


def _rand_int(r, width):
    neg = r.random() < 0.4
    nd = int(r.integers(1, width + (0 if neg else 1)))
    v = int("".join(str(int(c)) for c in r.integers(0, 10, nd)).lstrip("0") or "0")
    if r.random() < 0.1:
        v = 10 ** nd - 1               # all nines: fills nd columns
    return -v if neg else v


def _make_fields(r, width, style, budget):
    """(fields, types): data fields of one card.  budget = remaining float-words."""
    import numpy as np
    u = r.random()
    if u < 0.25:
        n = int(r.integers(1, 61))
    elif u < 0.65:
        per = 8 if width == 8 else 4
        n = max(1, per * int(r.integers(1, 8)) + int(r.integers(-1, 2)))
    else:
        n = int(r.integers(1, 20))
    n = min(n, 60)
    mode = ["none", "leading", "trailing", "interior", "mixed", "lines", "allblank"][
        int(r.choice(7, p=[0.2, 0.12, 0.15, 0.2, 0.2, 0.1, 0.03]))]
    blank = np.zeros(n, bool)
    if mode in ("leading", "mixed"):
        blank[: int(r.integers(1, max(2, n // 2 + 1)))] = True
    if mode in ("trailing", "mixed"):
        blank[n - int(r.integers(1, max(2, n // 2 + 1))):] = True
    if mode in ("interior", "mixed"):
        blank |= r.random(n) < 0.3
    if mode == "lines":
        per = 8 if width == 8 else 4
        for L in range(0, n, per):
            if r.random() < 0.4:
                blank[L:L + per] = True          # a whole physical line of blanks
            elif r.random() < 0.4:
                blank[L + int(r.integers(1, per)):L + per] = True   # short line
    if mode == "allblank":
        blank[:] = True
    fields, types = [], []
    for i in range(n):
        if blank[i]:
            fields.append("")
            types.append("blank")
            continue
        u = r.random()
        if u < 0.3:
            v = _rand_int(r, width)
            k = int(r.integers(0, 6))
            if k == 1 and -2 ** 31 <= v < 2 ** 31:
                v, t = np.int32(v), "int32"
            elif k == 2 and -2 ** 63 <= v < 2 ** 63:
                v, t = np.int64(v), "int64"
            elif k == 3 and 0 <= v < 2 ** 32:
                v, t = np.uint32(v), "uint32"
            elif k == 4 and 0 <= v < 2 ** 64:
                v, t = np.uint64(v), "uint64"
            else:
                t = "int"
            fields.append(v)
            types.append(t)
        elif u < 0.65:
            x = _rand_float(r, width, style)
            k = int(r.integers(0, 5))
            if k == 1:
                fields.append(np.float64(x))
                types.append("float64")
            elif k == 2 and (x == 0 or 1e-37 < abs(x) < 1e38):
                v = np.float32(x)
                tg = _mech_tags(float(v), width, style) if float(v) != 0 else {}
                if tg.get("intfill") and tg.get("rounds_up_to_pow10"):
                    v = np.float32(1.5)
                fields.append(v)
                types.append("float32")
            else:
                fields.append(x)
                types.append("float")
        else:
            u2 = r.random()
            if u2 < 0.35:
                w = TRICKY[int(r.integers(0, len(TRICKY)))]
            elif u2 < 0.42 and budget[0] > 0:
                w = FLOATWORDS[int(r.integers(0, len(FLOATWORDS)))]
                budget[0] -= 1
            else:
                w = _rand_word(r)
                if r.random() < 0.15:
                    w = w.lower()
                if _is_floatword(w):
                    w = "X" + w[:7]
            if r.random() < 0.15:
                fields.append(np.str_(w))
                types.append("str_")
            else:
                fields.append(w)
                types.append("str")
    return fields, types, mode


def _expected(fields):
    """Input list -> kinds/values the card must carry."""
    import numpy as np
    out = []
    for f in fields:
        if isinstance(f, (str, np.str_)):
            out.append(("blank", "") if str(f) == "" else ("str", str(f)))
        elif isinstance(f, (int, np.integer)):
            out.append(("int", int(f)))
        else:
            out.append(("real", float(f)))
    while out and out[-1][0] == "blank":
        out.pop()
    return out


def _same(a, b):
    """Exact, type-strict, nan-aware equality of two read values."""
    if type(a) is not type(b):
        return False
    if isinstance(a, float):
        if a != a or b != b:
            return a != a and b != b
        return a == b and math.copysign(1.0, a) == math.copysign(1.0, b)
    return a == b


def _strip(vals):
    vals = list(vals)
    while vals and isinstance(vals[-1], str) and vals[-1] == "":
        vals.pop()
    return vals


def _tabify(line):
    """Replace blank 8-column chunks and the trailing blanks of left-justified chunks
    by TAB characters (a tab advances to the next multiple of 8 columns)."""
    out = ""
    body = line.rstrip("\n")
    for i in range(0, len(body), 8):
        ch = body[i:i + 8]
        if len(ch) == 8 and ch.strip() == "":
            out += "\t"
        elif len(ch) == 8 and ch[0] != " " and ch.endswith(" "):
            out += ch.rstrip(" ") + "\t"
        else:
            out += ch
    return out


def _case_map(tok, how):
    if how == "lower":
        return tok.lower()
    if how == "swap":
        return tok.swapcase()
    return tok


def _comma_form(r, name, toks, variant):
    """Harness rendition of a card in free-field form.  toks: stripped field texts
    (trailing blanks already dropped).  Returns (text, string-case-map)."""
    how = {"plain": None, "case": ["lower", "swap"][int(r.integers(0, 2))],
           "decorated": None}[variant]
    lines = []
    nm = name if r.random() < 0.5 else name.rstrip("*")
    nm = _case_map(nm, how)
    chunks = [toks[i:i + 8] for i in range(0, len(toks), 8)] or [[]]
    for li, ch in enumerate(chunks):
        ch = [_case_map(t, how) for t in ch]
        last = li == len(chunks) - 1
        if variant != "plain" and r.random() < 0.5:
            # short line: blanks at the end of a physical line may be left out
            while ch and ch[-1] == "":
                ch.pop()
        if variant == "decorated":
            sep = [",", ", ", ",\t", " ,", ",  "]
            body = "".join(sep[int(r.integers(0, len(sep)))] + t for t in ch)
        else:
            body = "".join("," + t for t in ch)
        if li == 0:
            head = nm
            if not body:
                body = ","
        else:
            head = ["+", "", "+C" + str(li), " ", "+       "][int(r.integers(0, 5))] \
                if variant != "plain" else "+"
        if not (head + body).strip():
            head = "+"                 # a blank line would end the card
        line = head + body
        if not last and len(ch) == 8 and variant != "plain" and r.random() < 0.5:
            line += ",+C" + str(li + 1)        # 10th field: continuation mnemonic
        if variant == "decorated" and r.random() < 0.6:
            line += "  $ trailing comment, with commas, 'quotes' and 1.5+3"
        lines.append(line)
    text = "\n".join(lines) + "\n"
    if variant == "decorated":
        text = "$ comment line, before\n" + text + "$ comment line, after\n"
    return text, how


def _read(sh, bulk, src, name, where, case, tags=None, **kw):
    try:
        return bulk.rdcards(src, name, return_var="list", **kw)
    except Exception as e:
        sh.violation("exception:" + where, case, {"exc": repr(e)}, tags or {})
        return None


def _field_tags(kind, val, got, form, width, style):
    t = {"form": form, "field_kind": kind, "field_is_string": kind == "str",
         "got_type": type(got).__name__}
    if kind == "str":
        t["python_float_parses_it"] = _is_floatword(val)
        t["got_nonfinite_float"] = bool(isinstance(got, float)
                                        and (got != got or abs(got) == math.inf))
        if isinstance(got, float) and _is_floatword(val):
            w = val.strip().lower().lstrip("+-")
            want = math.nan if w == "nan" else (-math.inf if val.strip()[0] == "-"
                                                else math.inf)
            t["got_is_pythons_float_of_it"] = bool(
                (got != got and want != want) or got == want)
    if kind == "real" and val != 0:
        t.update(_mech_tags(val, width, style))
    return t


def _check_card_text(sh, bulk, nf, writer, name, fields, types, text, case, tags0):
    """Monitors on one written card (text = exactly that card's lines)."""
    width = 8 if writer == "8" else 16
    style = "D" if writer == "16d" else "E"
    exp = _expected(fields)
    per = 8 if width == 8 else 4
    lines = text.split("\n")
    ok = True
    # -- layout ----------------------------------------------------------------------
    sh.count("mon:card-layout")
    bad = []
    if not text.endswith("\n"):
        bad.append("no final newline")
    lines = lines[:-1]
    nfld = max(len(fields), 1)
    want_lines = -(-nfld // per)
    if width == 16 and want_lines % 2:
        want_lines += 1
    if len(lines) != want_lines:
        bad.append(f"{len(lines)} lines, expected {want_lines}")
    for li, ln in enumerate(lines):
        lim = 72 if width == 8 else 73
        if len(ln) > lim:
            bad.append(f"line {li} has {len(ln)} characters")
        if li == 0:
            if ln[:8] != f"{name:<8s}":
                bad.append("name field")
        elif ln[:8].rstrip() != ("+" if width == 8 else "*"):
            bad.append(f"line {li}: continuation field {ln[:8]!r}")
        if width == 16 and len(ln) > 72 and ln[72:] != "*":
            bad.append(f"line {li}: columns 73+ hold {ln[72:]!r}")
    if width == 16 and len(lines) % 2:
        bad.append("odd number of lines for a large-field card")
    if bad:
        ok = False
        sh.violation("card-layout", case, {"problems": bad[:6], "text": text[:800]},
                     tags0)
    # -- cross-reader: own fixed-field splitter + grammar ------------------------------
    sh.count("mon:card-own-field")
    try:
        cards = nf.split_fixed(text)
    except Exception as e:
        sh.violation("card-own-field", case, {"splitter": repr(e), "text": text[:800]},
                     tags0)
        return None
    if len(cards) != 1:
        sh.violation("card-own-field", case, {"cards_in_text": len(cards)}, tags0)
        return None
    raw = cards[0]["fields"]
    own = [nf.classify(f) for f in raw]
    while own and own[-1][0] == "blank":
        own.pop()
    nbad = 0
    if len(own) != len(exp):
        nbad += 1
        sh.violation("card-own-field", case, {"nfields_written": len(own),
                                              "nfields_input": len(exp)}, tags0)
    for i, ((ek, ev), (ok_, ov)) in enumerate(zip(exp, own)):
        good = True
        if ek == "real":
            if ok_ != "real":
                good = False
            elif ev == 0:
                good = ov == 0
            else:
                b = nf.bound(ev, width, style)
                sh.worst("card-own-field:real", abs(ev - ov) / b)
                good = abs(ev - ov) <= b
        else:
            good = ek == ok_ and ev == ov
        if not good:
            nbad += 1
            if nbad <= 3:
                sh.violation("card-own-field", case,
                             {"index": i, "input": ev, "field_text": raw[i],
                              "own_read": ov, "own_kind": ok_},
                             {**tags0, **_field_tags(ek, ev, ov, "written", width,
                                                     style)})
    return {"own": own, "raw": raw, "ok": ok and nbad == 0}


def _cmp_lists(sh, kind, got, want_kv, case, tags0, form, width, style, want_is_kv=True):
    """got: list read by pyYeti; want_kv: [(kind, value)] from the own reader."""
    sh.count("mon:" + kind)
    got = _strip(got)
    nbad = 0
    if len(got) != len(want_kv):
        nbad += 1
        sh.violation(kind, case, {"nfields_read": len(got), "nfields_want": len(want_kv),
                                  "read": got[:70]}, {**tags0, "form": form})
    for i, (g, (k, v)) in enumerate(zip(got, want_kv)):
        if not _same(g, v):
            nbad += 1
            if nbad <= 3:
                sh.violation(kind, case, {"index": i, "read": g, "want": v,
                                          "want_kind": k},
                             {**tags0, **_field_tags(k, v, g, form, width, style)})
    return nbad == 0


def _run_cards(sh, params, bulk):
    import numpy as np
    from vf.oracles import nas_field as nf
    tier = sh.tier
    s, ns = params["slice"], params["nslice"]
    ncards = NCARDS[tier] // ns
    budget = [12]                       # float-words in random cards of this shard
    W = {"8": "wtcard8", "16": "wtcard16", "16d": "wtcard16d"}
    for ic in range(ncards):
        r = core.rng(sh.seed, "C12", "card", s, ic)
        writer = ["8", "16", "16d"][ic % 3]
        width = 8 if writer == "8" else 16
        style = "D" if writer == "16d" else "E"
        ncard = 1 if r.random() < 0.7 else int(r.integers(2, 5))
        base = _rand_word(r, 7 if width == 16 else 8)
        while base.lower().startswith("include") or _is_floatword(base):
            base = _rand_word(r, 7)
        name = base + ("*" if width == 16 else "")
        group = []
        for _ in range(ncard):
            fields, types, mode = _make_fields(r, width, style, budget)
            group.append((fields, types, mode))
        texts = []
        for fields, types, mode in group:
            case = {"writer": W[writer], "name": name, "fields": fields,
                    "types": types, "seed_key": [sh.seed, s, ic]}
            tags0 = {"writer": writer, "blank_mode": mode, "nfields": len(fields)}
            sh.case(["card", writer, name, core.jsonable(fields), types],
                    any(t != "blank" for t in types), sample=case)
            sh.count("cell:writer:" + writer)
            sh.count("cell:blank:" + mode)
            sh.count("cell:lines:" + str(min(-(-len(fields) // (8 if width == 8 else 4)),
                                             9)))
            for t in set(types):
                sh.count("cell:type:" + t)
            f = io.StringIO()
            try:
                getattr(bulk, W[writer])(f, [name] + fields)
            except Exception as e:
                sh.violation("exception:" + W[writer], case, {"exc": repr(e)}, tags0)
                texts.append(None)
                continue
            texts.append((f.getvalue(), case, tags0, fields, types))
        if any(t is None for t in texts):
            continue
        owns = []
        for text, case, tags0, fields, types in texts:
            o = _check_card_text(sh, bulk, nf, writer, name, fields, types, text, case,
                                 tags0)
            owns.append(o)
        if any(o is None for o in owns):
            continue
        # ---- the file: cards of this name, distractors, comments -----------------------
        multi = len(texts) > 1 or r.random() < 0.3
        parts = []
        if multi:
            parts.append("$ file with several cards\n")
        for k, (text, *_rest) in enumerate(texts):
            if multi and r.random() < 0.6:
                dn = "Q" + base[:5] if not base.upper().startswith("Q") else "Z" + base[:5]
                parts.append(f"{dn:<8s}{k:8d}{'ABC':<8s}     1.5\n")
                sh.count("cell:distractor")
            if multi and r.random() < 0.3:
                parts.append("$ a comment between cards\n")
            parts.append(text)
        if multi and r.random() < 0.5 and not "enddata".startswith(base.lower()):
            parts.append("ENDDATA\n")
        filetext = "".join(parts)
        case_f = {"file": filetext if len(filetext) < 4000 else filetext[:4000],
                  "name": name, "seed_key": [sh.seed, s, ic]}
        tagsf = {"writer": writer, "ncards": len(texts)}
        lookup = base.lower() if r.random() < 0.5 else name
        if ic % 5 == 0:
            path = f"card_{ic}.bdf"
            open(path, "w").write(filetext)
            src = path
            sh.count("cell:source:path")
        else:
            src = io.StringIO(filetext)
            sh.count("cell:source:stringio")
        got = _read(sh, bulk, src, lookup, "rdcards-fixed", case_f, tagsf)
        if got is None:
            continue
        if not isinstance(got, list) or len(got) != len(texts):
            sh.count("mon:card-count")
            sh.violation("card-count", case_f,
                         {"cards_read": len(got) if isinstance(got, list) else repr(got),
                          "cards_written": len(texts)}, tagsf)
            continue
        sh.count("mon:card-count")
        fixed_ok = True
        for g, o, (text, case, tags0, fields, types) in zip(got, owns, texts):
            fixed_ok &= _cmp_lists(sh, "card-field", g, o["own"], case, tags0, "fixed",
                                   width, style)
        # keep_name / array returns on the first card of the group --------------------------
        text, case, tags0, fields, types = texts[0]
        own0 = owns[0]["own"]
        if ic % 4 == 1:
            g = _read(sh, bulk, io.StringIO(text), name, "rdcards-keepname", case, tags0,
                      keep_name=True)
            if g is not None:
                _cmp_lists(sh, "card-keepname", g[0] if g else [],
                           [("str", name)] + own0, case, tags0, "fixed", width, style)
        if ic % 4 == 2 and own0:
            sh.count("mon:card-array")
            try:
                arr = bulk.rdcards(io.StringIO(text), name, blank=-7.0)
                want = np.array([v if k in ("int", "real") else -7.0 for k, v in own0],
                                float)
                # trailing blanks (padding up to the last physical line) may follow
                good = (arr.ndim == 2 and arr.shape[0] == 1
                        and arr.shape[1] >= len(want)
                        and np.array_equal(arr[0, :len(want)], want, equal_nan=True)
                        and bool(np.all(arr[0, len(want):] == -7.0)))
                # float-words are the known finding; they are judged on the list path
                if not good and not any(k == "str" and _is_floatword(v)
                                        for k, v in own0):
                    sh.violation("card-array", case, {"array": arr, "want": want},
                                 tags0)
            except Exception as e:
                if not any(abs(v) > 1e308 for k, v in own0 if k == "real"):
                    sh.violation("exception:rdcards-array", case, {"exc": repr(e)},
                                 tags0)
        # ---- tabbed fixed form ----------------------------------------------------------
        ttext = "".join(_tabify(ln) + "\n" for ln in filetext.split("\n")[:-1])
        if ttext != filetext and all(
                a.expandtabs() == b for a, b in zip(ttext.split("\n"),
                                                    filetext.split("\n"))):
            sh.count("cell:tabs-in-fixed")
            gt = _read(sh, bulk, io.StringIO(ttext), lookup, "rdcards-tabs", case_f, tagsf)
            if gt is not None:
                sh.count("mon:card-tabs")
                if len(gt) != len(got) or not all(
                        len(_strip(a)) == len(_strip(b))
                        and all(_same(x, y) for x, y in zip(_strip(a), _strip(b)))
                        for a, b in zip(gt, got)):
                    sh.violation("card-tabs", {**case_f, "tabbed": ttext[:3000]},
                                 {"read_tabbed": gt, "read_plain": got}, tagsf)
        # ---- comma renditions: must read identically to the fixed form ---------------------
        for variant in ("plain", "case", "decorated"):
            ctexts, maps = [], []
            for o in owns:
                toks = [f.strip() for f in o["raw"]]
                while toks and toks[-1] == "":
                    toks.pop()
                ct, how = _comma_form(r, name, toks, variant)
                ctexts.append(ct)
                maps.append(how)
            ctext = "".join(ctexts)
            case_c = {"comma_text": ctext[:4000], "variant": variant, "name": name,
                      "seed_key": [sh.seed, s, ic]}
            gc = _read(sh, bulk, io.StringIO(ctext), base.lower(), "rdcards-comma",
                       case_c, {**tagsf, "form": "comma"})
            if gc is None:
                continue
            sh.count("mon:card-comma")
            sh.count("cell:comma:" + variant)
            if len(gc) != len(got):
                sh.violation("card-comma", case_c, {"cards_read": len(gc),
                                                    "cards_fixed": len(got)},
                             {**tagsf, "form": "comma", "variant": variant})
                continue
            for a, b, how, (text, case, tags0, fields, types) in zip(gc, got, maps,
                                                                     texts):
                a, b = _strip(a), _strip(b)
                b = [_case_map(x, how) if isinstance(x, str) else x for x in b]
                if len(a) != len(b) or not all(_same(x, y) for x, y in zip(a, b)):
                    idx = next((i for i, (x, y) in enumerate(zip(a, b))
                                if not _same(x, y)), min(len(a), len(b)))
                    sh.violation("card-comma", case_c,
                                 {"index": idx, "read_comma": a[:70],
                                  "read_fixed": b[:70]},
                                 {**tagsf, "form": "comma", "variant": variant})
                    break


def _run_special_cards(sh, params, bulk):
    """Small deterministic families: the known float-words in every writer, the two
    formatter findings inside cards, tricky words as the only field."""
    from vf.oracles import nas_field as nf
    W = {"8": "wtcard8", "16": "wtcard16", "16d": "wtcard16d"}
    s = params["slice"]
    words = FLOATWORDS + TRICKY
    for wi, word in enumerate(words):
        if wi % params["nslice"] != s:
            continue
        for writer in ("8", "16", "16d"):
            width = 8 if writer == "8" else 16
            style = "D" if writer == "16d" else "E"
            name = "TSTWORD" + ("*" if width == 16 else "")
            fields = [7, word, 2.5, "", word, -3]
            case = {"writer": W[writer], "name": name, "fields": fields,
                    "family": "words"}
            tags0 = {"writer": writer, "family": "words"}
            sh.case(["words", writer, word], True)
            sh.count("cell:family:words")
            if _is_floatword(word):
                sh.count("cell:floatword")
            f = io.StringIO()
            try:
                getattr(bulk, W[writer])(f, [name] + fields)
            except Exception as e:
                sh.violation("exception:" + W[writer], case, {"exc": repr(e)}, tags0)
                continue
            text = f.getvalue()
            o = _check_card_text(sh, bulk, nf, writer, name, fields, None, text, case,
                                 tags0)
            if o is None:
                continue
            g = _read(sh, bulk, io.StringIO(text), "tstword", "rdcards-fixed", case, tags0)
            if g is None or len(g) != 1:
                sh.violation("card-count", case, {"read": g}, tags0)
                continue
            _cmp_lists(sh, "card-field", g[0], o["own"], case, tags0, "fixed", width,
                       style)
            toks = [x.strip() for x in o["raw"]]
            while toks and toks[-1] == "":
                toks.pop()
            ctext = name + "," + ",".join(toks) + "\n"
            gc = _read(sh, bulk, io.StringIO(ctext), "tstword", "rdcards-comma", case,
                       tags0)
            if gc is not None and len(gc) == 1:
                _cmp_lists(sh, "card-field", gc[0], o["own"],
                           {**case, "comma_text": ctext}, tags0, "comma", width, style)
            # direct scan of the word
            sh.count("mon:scan-word")
            v = bulk.nas_sscanf(f"{word:<8s}", keep_string=True)
            if not _same(v, word):
                sh.violation("scan-word", {"word": word}, {"nas_sscanf": v},
                             _field_tags("str", word, v, "direct", 8, "E"))
    # fixed-field cards carrying '$' comments at the end of their lines
    rc = core.rng(sh.seed, "C12", "comment", s)
    for k in range(6):
        writer = ["8", "16", "16d"][k % 3]
        width = 8 if writer == "8" else 16
        style = "D" if writer == "16d" else "E"
        name = "TSTCMT" + ("*" if width == 16 else "")
        n = [3, 8, 9, 17, 5, 12][int(rc.integers(0, 6))]
        fields = []
        for i in range(n):
            fields.append([i + 1, float(i) + 0.5, "W" + str(i), ""][int(rc.integers(0, 4))])
        fields[-1] = 99
        f = io.StringIO()
        try:
            getattr(bulk, W[writer])(f, [name] + fields)
        except Exception as e:
            sh.violation("exception:" + W[writer], {"fields": fields}, {"exc": repr(e)})
            continue
        text = f.getvalue()
        plain = _read(sh, bulk, io.StringIO(text), "tstcmt", "rdcards-fixed",
                      {"text": text})
        if plain is None:
            continue
        lines = text.split("\n")[:-1]
        for where in ("first", "continuation", "all"):
            for comma in (False, True):
                cm = "$ note, with a comma" if comma else "$ note without"
                out = []
                for li, ln in enumerate(lines):
                    hit = (where == "all" or (where == "first") == (li == 0))
                    if hit and len(ln.rstrip()) > 8:
                        # inside the 72 data columns when the line is short, else after
                        out.append(ln.rstrip() + "  " + cm)
                    else:
                        out.append(ln)
                ctext = "\n".join(out) + "\n"
                first_has = "," in out[0]
                if ctext == text:
                    continue
                case = {"text": ctext, "family": "fixed-comment", "writer": W[writer]}
                tags = {"form": "fixed", "family": "fixed-comment", "writer": writer,
                        "comment_has_comma": comma,
                        "comma_in_comment_on_first_line": bool(first_has)}
                sh.case(["fixed-comment", ctext], True)
                sh.count("cell:family:fixed-comment")
                g = _read(sh, bulk, io.StringIO(ctext), "tstcmt", "rdcards-comment",
                          case, tags)
                if g is None:
                    continue
                sh.count("mon:card-comment")
                a = [_strip(x) for x in g]
                b = [_strip(x) for x in plain]
                if len(a) != len(b) or not all(
                        len(x) == len(y) and all(_same(p, q) for p, q in zip(x, y))
                        for x, y in zip(a, b)):
                    sh.violation("card-comment", case,
                                 {"read_with_comment": a, "read_plain": b}, tags)
    # formatter findings inside cards (only slice 0)
    if s == 0:
        for writer, x in (("8", 9999999.5), ("8", 9999999.75), ("16", 999999999999999.5),
                          ("16", -99999999999999.5), ("16", -99999999999999.75)):
            width = 8 if writer == "8" else 16
            name = "TSTRND" + ("*" if width == 16 else "")
            fields = [1, x, 2]
            case = {"writer": W[writer], "name": name, "fields": fields,
                    "family": "pow10-roundup"}
            tags0 = {"writer": writer, "family": "pow10-roundup",
                     "func": "format_float8" if width == 8 else "format_float16",
                     **_mech_tags(x, width, "E")}
            sh.case(["pow10-roundup", writer, x], True)
            sh.count("cell:family:pow10-roundup-card")
            f = io.StringIO()
            try:
                getattr(bulk, W[writer])(f, [name] + fields)
            except Exception as e:
                sh.violation("exception:" + W[writer], case, {"exc": repr(e)}, tags0)
                continue
            text = f.getvalue()
            o = _check_card_text(sh, bulk, nf, writer, name, fields, None, text, case,
                                 tags0)
            g = _read(sh, bulk, io.StringIO(text), "tstrnd", "rdcards-fixed", case, tags0)
            if g is not None and len(g) == 1:
                sh.count("mon:card-direct")
                got = _strip(g[0])
                want = [1, x, 2]
                good = len(got) == 3 and got[0] == 1 and got[2] == 2 and \
                    type(got[1]) is float and \
                    abs(got[1] - x) <= nf.bound(x, width, "E")
                if not good:
                    sh.violation("card-direct", case, {"read": got, "text": text},
                                 {**tags0, "got_type": type(got[1]).__name__
                                  if len(got) > 1 else None,
                                  "field_kind": "real"})


def run_shard(sh, params):
    from vf.oracles import nas_field as nf
    if not nf.selfcheck():
        raise RuntimeError("nas_field oracle fails its hand cases")
    import pyyeti.nastran.bulk as bulk
    import pyyeti.nastran as nastran
    for nm in ("format_float8", "format_float16", "format_double16", "nas_sscanf",
               "wtcard8", "wtcard16", "wtcard16d", "rdcards"):
        if getattr(nastran, nm) is not getattr(bulk, nm):
            raise RuntimeError("nastran." + nm + " is not bulk." + nm)
    _run_special_cards(sh, params, bulk)
    _run_cards(sh, params, bulk)
    _run_floats(sh, params, bulk)


def finalize(agg, tier):
    why = []
    c = agg["counters"]
    for k in ("fmt-width", "fmt-grammar", "fmt-scan", "fmt-precision", "fmt-monotone",
              "fmt-zero", "card-layout", "card-own-field", "card-field", "card-comma",
              "card-tabs", "card-count", "card-keepname", "card-array", "scan-word",
              "card-comment", "card-direct"):
        if not c.get("mon:" + k):
            why.append(f"monitor {k} never evaluated")
    cells = ["decade-sweep", "subnormal", "scalar:float32", "scalar:float64",
             "family:pow10", "family:threshold", "family:intfill",
             "family:random-wide", "family:random-moderate", "family:random-local",
             "family:words", "floatword", "family:pow10-roundup-card",
             "family:fixed-comment",
             "writer:8", "writer:16", "writer:16d", "tabs-in-fixed", "distractor",
             "source:path", "source:stringio",
             "comma:plain", "comma:case", "comma:decorated"]
    cells += ["blank:" + m for m in ("none", "leading", "trailing", "interior", "mixed",
                                     "lines", "allblank")]
    cells += ["type:" + t for t in ("int", "int32", "int64", "uint32", "uint64", "float",
                                    "float32", "float64", "str", "str_", "blank")]
    cells += ["lines:" + str(i) for i in range(1, 9)]
    for fn in ("format_float8", "format_float16"):
        cells += [f"{fn}:{sg}:{fm}" for sg in ("pos", "neg") for fm in ("fixed", "sci")]
        cells.append("zero:" + fn)
    cells += ["format_double16:pos:sci", "format_double16:neg:sci",
              "zero:format_double16"]
    for k in cells:
        if not c.get("cell:" + k):
            why.append(f"coverage cell {k} empty")
    if c.get("cell:decade-sweep", 0) < 615 * 2:
        why.append("decade sweep incomplete")
    return why


def evidence_extra(agg, tier):
    c = agg["counters"]
    return {"formatter_evaluations": c.get("mon:fmt-width", 0),
            "cards_written": sum(v for k, v in c.items() if k.startswith("cell:writer:")),
            "decades_swept_x_signs": c.get("cell:decade-sweep", 0)}
