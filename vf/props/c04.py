"""C04 -- OUTPUT4 write followed by read is the identity (pyyeti.nastran.op4).

Every generated file is written by pyYeti and then (a) parsed by the independent strict
codec (vf/oracles/op4_codec.py: record-length words, closing record, header widths, string
words, layout) and compared with the *input*, (b) read back by pyYeti in every read mode
(sparse False/True/None/(True, tocsc) x into dct/list x justmatrix) and compared with the
input, (c) listed by ``dir`` and compared with the read.
"""
import os
import warnings

from vf import core

ID = "C04"
LEVEL = "exploration"
RULE = ("one case = one op4 file of 1-6 matrices written by pyYeti under one option "
        "combination (binary x endian x sparse mode x digits x input container x forms x "
        "names) and read back in all read modes; families: random small matrices over "
        "shape/pattern/magnitude classes, stratified 3-digit-exponent grid (sign x exponent "
        "x layout x digits x position), string/column lengths at the 3000-value reader "
        "switch and at the 16384/65536-row format limits, huge sparse dimensions, zero-size "
        "shapes, invalid names.  distinct = distinct (family, options, shapes, value "
        "digest); non-trivial = at least one matrix with a non-zero value")
ASSUMPTIONS = [
    "the format is represented by vf/oracles/op4_codec.py, which re-encodes every shipped "
    "Nastran-written .op4 sample byte-exactly at the start of every run (else exit 2)",
    "ASCII expectation: the value of the correctly rounded decimal with digits+1 significant "
    "digits (decimal module, ROUND_HALF_EVEN) parsed back by float(); values whose rounded "
    "decimal exceeds the largest double are not generated",
    "auto form rule judged only for exactly symmetric (6) and grossly unsymmetric (1) square "
    "matrices; np.allclose-sized asymmetries are not judged",
    "read sparse=None on an all-zero matrix written in nonbigmat layout is not judged (the "
    "file is indistinguishable from a dense one)",
]
MIN_NONTRIVIAL = {"quick": 1200, "thorough": 30000}
TIMEOUT = {"quick": 1200, "thorough": 7200}

SPARSE_MODES = ["auto", "dense", "bigmat", "nonbigmat"]
DIGITS = [1, 5, 9, 16, 17]
ENDIANS = ["=", "<", ">"]
SQRT2 = 2 ** 0.5


def shards(tier, seed):
    out = []
    nrand = 8 if tier == "quick" else 12
    n = 190 if tier == "quick" else 4000
    for s in range(nrand):
        out.append({"kind": "random", "slice": s, "n": n})
    for s in range(2 if tier == "quick" else 4):
        out.append({"kind": "e3", "slice": s, "nslice": 2 if tier == "quick" else 4,
                    "reps": 1 if tier == "quick" else 6})
    for s in range(3):
        out.append({"kind": "boundary", "slice": s, "nslice": 3})
    return out


# ------------------------------------------------------------------------------------
# generators
# ------------------------------------------------------------------------------------

_SHARED_OP4 = []


def _O(op4, fc):
    """An OP4 object for this file: a fresh one, or (every third file) ONE instance that
    lives for the whole shard and therefore sees binary after ASCII, big- after little-
    endian, bigmat after dense ... -- nothing it detected for an earlier file may stick."""
    if fc.get("index", 0) % 3 == 1:
        if not _SHARED_OP4:
            _SHARED_OP4.append(op4.OP4())
        return _SHARED_OP4[0]
    return op4.OP4()


def _mag(r, n, fam):
    """n non-zero reals of magnitude family `fam`."""
    import numpy as np
    sgn = np.where(r.random(n) < 0.5, -1.0, 1.0)
    if fam == "unit":
        v = r.standard_normal(n)
        v[v == 0] = 1.0
        return v
    if fam == "int":
        return sgn * r.integers(1, 1000, n).astype(float)
    if fam == "wide":
        v = sgn * r.uniform(1, 10, n) * 10.0 ** r.integers(-307, 308, n).astype(float)
    elif fam == "e3":
        e = np.where(r.random(n) < 0.5, r.integers(100, 308, n), -r.integers(100, 308, n))
        v = sgn * r.uniform(1, 9.99, n) * 10.0 ** e.astype(float)
    elif fam == "denorm":
        v = sgn * r.uniform(1, 10, n) * 10.0 ** r.integers(-323, -307, n).astype(float)
        v[v == 0] = 5e-324
    elif fam == "extreme":
        pool = np.array([1.7976931348623157e308, 2.2250738585072014e-308, 5e-324,
                         1e100, 1e-99, 9.99e99, 1.0000000000000002e-100, 1e-100,
                         9.999999999999999e-100, 1e308, 1e-307, 1e99, 1.5e-99,
                         2.2250738585072009e-308, 1e-323, 1.0, 0.1, 123456789.123456789])
        v = sgn * pool[r.integers(0, pool.size, n)]
    elif fam == "tiny":
        v = sgn * r.uniform(1, 10, n) * 1e-12
    else:
        raise ValueError(fam)
    v = np.where(np.isfinite(v) & (v != 0), v, 1.0)
    return v


def _pattern(r, nr, nc, fam):
    import numpy as np
    m = np.zeros((nr, nc), bool)
    if nr == 0 or nc == 0:
        return m
    if fam == "full":
        m[:] = True
    elif fam == "zero":
        pass
    elif fam == "rand":
        m = r.random((nr, nc)) < r.choice([0.1, 0.3, 0.6, 0.9])
    elif fam == "alt":          # alternating non-zeros: maximum string count
        m[int(r.integers(0, 2))::2, :] = True
    elif fam == "onestring":    # one long string per column, random placement
        for j in range(nc):
            a = int(r.integers(0, nr))
            b = int(r.integers(a, nr))
            m[a:b + 1, j] = True
    elif fam == "edges":        # empty leading/trailing/interior rows and columns
        m[:] = r.random((nr, nc)) < 0.7
        for ax, n in ((0, nr), (1, nc)):
            k = r.integers(0, 3, 3)
            idx = list(range(min(k[0], n))) + list(range(max(n - k[1], 0), n))
            if n > 2 and k[2]:
                idx.append(int(r.integers(1, n - 1)))
            if ax == 0:
                m[idx, :] = False
            else:
                m[:, idx] = False
    elif fam == "diag":
        for i in range(min(nr, nc)):
            m[i, i] = True
    elif fam == "lastrow":
        m[nr - 1, :] = True
        m[0, 0] = True
    else:
        raise ValueError(fam)
    return m


SHAPES = [(1, 1), (1, 7), (7, 1), (2, 2), (3, 3), (5, 5), (8, 8), (4, 9), (9, 4), (12, 3),
          (3, 12), (13, 13), (1, 2), (2, 1), (6, 6), (20, 5), (5, 20), (31, 25)]
PATTERNS = ["full", "zero", "rand", "rand", "alt", "onestring", "edges", "edges", "diag",
            "lastrow"]
MAGS = ["unit", "unit", "int", "wide", "wide", "e3", "e3", "denorm", "extreme", "tiny"]
EXPLICIT_FORMS = [1, 2, 6, 3, 4, 5, 8, 9, 10, 11, 13, 15]


def _gen_dense(r, cplx=None, shape=None, pat=None, mag=None, sym=None):
    """Expected dense content (float64/complex128) + family description."""
    import numpy as np
    if shape is None:
        if r.random() < 0.1:
            shape = (int(r.integers(1, 70)), int(r.integers(1, 70)))
        else:
            shape = SHAPES[int(r.integers(0, len(SHAPES)))]
    nr, nc = shape
    pat = pat or PATTERNS[int(r.integers(0, len(PATTERNS)))]
    mag = mag or MAGS[int(r.integers(0, len(MAGS)))]
    cplx = bool(r.random() < 0.4) if cplx is None else cplx
    m = _pattern(r, nr, nc, pat)
    A = np.zeros(shape, complex if cplx else float)
    n = int(m.sum())
    if cplx:
        re, im = _mag(r, n, mag), _mag(r, n, mag)
        k = r.random(n)
        re = np.where(k < 0.15, 0.0, re)       # purely imaginary elements
        im = np.where(k > 0.85, 0.0, im)       # purely real elements
        A[m] = re + 1j * im
    else:
        A[m] = _mag(r, n, mag)
    if sym is None:
        sym = ("exact" if r.random() < 0.35 else "tiny" if r.random() < 0.1 else "no") \
            if nr == nc else "no"
    if nr == nc and sym in ("exact", "tiny"):
        A = np.triu(A) + np.triu(A, 1).T
        if sym == "tiny" and nr > 1:
            if A[1, 0] != 0:
                # (scale component-wise and towards zero when the value sits at the top
                # of the double range: the generator must stay inside "finite doubles")
                z = complex(A[1, 0])
                f = 1 + 1e-9 if max(abs(z.real), abs(z.imag)) < 1e300 else 1 - 1e-9
                A[1, 0] = z.real * f + 1j * z.imag * f if np.iscomplexobj(A) else z.real * f
    return A, {"shape": [nr, nc], "pat": pat, "mag": mag, "cplx": cplx, "sym": sym}


def _container(r, A, allow_cast=True):
    """Wrap expected dense content `A` in an input container; returns (obj, expected, kind).

    The expected content may change (float32/int casts, duplicate sums are part of the
    input, not of pyYeti)."""
    import numpy as np
    import scipy.sparse as sp
    k = r.random()
    cplx = np.iscomplexobj(A)
    if k < 0.5:
        v = r.integers(0, 6)
        B = A.copy()
        zeros = B == 0
        if zeros.any() and r.random() < 0.5:       # -0.0 in "empty" places
            B[zeros & (r.random(A.shape) < 0.3)] = -0.0
        if v == 0:
            if r.random() < 0.3:
                # double precision in the non-native byte order (data read from a
                # big-endian file): the values are the same numbers
                return np.ascontiguousarray(B).astype(">c16" if cplx else ">f8"), A, \
                    "nd-byteswapped"
            return np.ascontiguousarray(B), A, "nd-C"
        if v == 1:
            return np.asfortranarray(B), A, "nd-F"
        if v == 2:
            big = np.zeros((2 * B.shape[0] + 1, 3 * B.shape[1] + 1), B.dtype)
            big[::2, ::3][:B.shape[0], :B.shape[1]] = B
            return big[::2, ::3][:B.shape[0], :B.shape[1]], A, "nd-strided"
        if v == 3:
            B = np.asfortranarray(B) if r.random() < 0.5 else B
            B.setflags(write=False)
            return B, A, "nd-readonly"
        if v == 4 and allow_cast and A.size and np.abs(A).max() < 1e30 and (
                A.size == 0 or np.abs(A[A != 0]).min(initial=1.0) > 1e-30):
            C = B.astype(np.complex64 if cplx else np.float32)
            return C, C.astype(complex if cplx else float), "nd-single"
        if v == 5 and allow_cast and not cplx and A.size and np.abs(A).max() < 1e15:
            C = np.round(B).astype(np.int64)
            return C, C.astype(float), "nd-int"
        return B, A, "nd-C"
    I, J = np.nonzero(A)
    V = A[I, J]
    if r.random() < 0.5 and I.size:     # explicit zeros and duplicates
        n0 = I.size
        nz = int(r.integers(1, 4))
        I = np.concatenate((I, r.integers(0, A.shape[0], nz)))
        J = np.concatenate((J, r.integers(0, A.shape[1], nz)))
        V = np.concatenate((V, np.zeros(nz, V.dtype)))
        # (adding 0.0 is exact in any order; the two edits below touch different
        # coordinates, so every duplicate sum has at most two non-zero addends and does
        # not depend on the order in which scipy adds them)
        d = int(r.integers(0, n0))      # split one entry into two addends
        if np.isfinite(V[d] * 0.75):
            I = np.concatenate((I, I[d:d + 1]))
            J = np.concatenate((J, J[d:d + 1]))
            V = np.concatenate((V, [V[d] * 0.25]))
            V[d] = V[d] * 0.75
        if n0 > 1:                      # an entry cancelled by its duplicate
            c = (d + 1 + int(r.integers(0, n0 - 1))) % n0
            I = np.concatenate((I, I[c:c + 1]))
            J = np.concatenate((J, J[c:c + 1]))
            V = np.concatenate((V, [-V[c]]))
        p = r.permutation(I.size)
        I, J, V = I[p], J[p], V[p]
    kind = ["coo", "csr", "csc", "coo_array", "csr_array"][int(r.integers(0, 5))]
    S = sp.coo_matrix((V, (I, J)), shape=A.shape)
    E = S.toarray()          # duplicates summed by scipy: that sum is the input
    if kind == "csr":
        S = sp.csr_matrix((V, (I, J)), shape=A.shape) if r.random() < 0.5 else S.tocsr()
        E = S.toarray()
    elif kind == "csc":
        S = S.tocsc()
        E = S.toarray()
    elif kind == "coo_array":
        S = sp.coo_array((V, (I, J)), shape=A.shape)
    elif kind == "csr_array":
        S = sp.csr_array(S)
        E = S.toarray()
    return S, E.astype(complex if cplx else float), kind


def _valid_name(r):
    first = "abcdefghijklmnopqrstuvwxyzABCDEFGHIJKLMNOPQRSTUVWXYZ_"
    rest = first + "0123456789"
    n = int(r.integers(1, 9))
    return first[int(r.integers(0, len(first)))] + "".join(
        rest[int(i)] for i in r.integers(0, len(rest), n - 1))


INVALID_NAMES = ["1abc", "a b", "a-b", "", "9", "x.y", "a$b", " lead", "12345678", "a+b"]


def expected_name(name, i):
    """Documented behaviour of write: invalid -> m<i> (+warning), > 8 chars -> truncated
    (+warning); read returns lower case."""
    if not name.isidentifier():
        return f"m{i}", True
    if len(name) > 8:
        return name[:8].lower(), True
    return name.lower(), False


def expected_layout(mode, is_sparse_input, nrow):
    if mode == "auto":
        return "bigmat" if is_sparse_input else "dense"
    if mode == "nonbigmat":
        return "bigmat" if nrow >= 65536 else "nonbigmat"
    return mode


def form_rule(E, nrow, ncol):
    """Auto form: set of acceptable values."""
    import numpy as np
    if nrow != ncol:
        return {2}
    if E is None:
        return {1, 6}
    with np.errstate(all="ignore"):
        if np.array_equal(E, E.T):
            return {6}
        d = np.abs(E - E.T)
        s = np.maximum(np.abs(E), np.abs(E.T))
        gross = d > 1e-6 + 1e-3 * s
        if np.any(gross | ~np.isfinite(d)):
            return {1}
    return {1, 6}


def max_run_words(E, layout):
    """Longest string (in 32-bit words, the unit of L) a sparse layout needs."""
    import numpy as np
    if E is None or layout == "dense" or E.size == 0:
        return 0
    per = 4 if np.iscomplexobj(E) else 2
    best = 0
    nz = E != 0
    for j in range(E.shape[1]):
        v = nz[:, j]
        if not v.any():
            continue
        idx = np.flatnonzero(v)
        brk = np.flatnonzero(np.diff(idx) != 1)
        runs = np.diff(np.concatenate(([-1], brk, [idx.size - 1])))
        best = max(best, int(runs.max()))
    return best * per


# ------------------------------------------------------------------------------------
# oracles on values
# ------------------------------------------------------------------------------------

def _reals(a):
    import numpy as np
    a = np.ascontiguousarray(a)
    if np.iscomplexobj(a):
        return a.astype(complex).view(float).ravel()
    return a.astype(float).ravel()


def ascii_expected(x, digits, exact_limit=400):
    """Expected read-back of reals `x` written with `digits` digits after the point.

    Correctly rounded decimal -> float.  The decimal module (ROUND_HALF_EVEN on the exact
    binary value) is used for up to `exact_limit` values, '%.*E' for the rest."""
    import decimal
    import numpy as np
    out = np.array(x, dtype=float).ravel().copy()
    nz = np.flatnonzero(out != 0)
    ctx = decimal.Context(prec=digits + 1, rounding=decimal.ROUND_HALF_EVEN,
                          Emin=-999999, Emax=999999)
    for n, i in enumerate(nz):
        v = float(out[i])
        if n < exact_limit:
            out[i] = float(ctx.create_decimal(decimal.Decimal(v)))
        else:
            out[i] = float("%.*E" % (digits, v))
    return out


def clamp_for_ascii(A, digits):
    """Replace values whose rounded decimal overflows the double range (input hygiene)."""
    import numpy as np
    x = _reals(A)
    big = np.abs(x) > 1.7e308
    if not big.any():
        return A
    e = ascii_expected(x, digits)
    bad = ~np.isfinite(e)
    if not bad.any():
        return A
    x = x.copy()
    x[bad] = np.sign(x[bad]) * 1.0e308
    if np.iscomplexobj(A):
        return x.view(complex).reshape(A.shape)
    return x.reshape(A.shape)


def neg_roundup_e100(E, digits):
    """Mechanism tag: a negative real below 1e100 in magnitude whose rounded decimal has a
    3-digit exponent (the field-width test in the writer looks at the unrounded value)."""
    import numpy as np
    x = _reals(E)
    c = x[(x < 0) & (np.abs(x) < 1e100) & (np.abs(x) > 9e99)]
    return bool(any(float("%.*E" % (digits, -v)) >= 1e100 for v in c))


def compare_values(sh, kind, got, E, binary, digits, case, tags):
    """got (dense ndarray) vs expected input content E.  Returns True when equal."""
    import numpy as np
    sh.count("mon:" + kind)
    want_c = np.iscomplexobj(E)
    got = np.asarray(got)
    if got.shape != E.shape:
        sh.violation(kind, case, {"shape_got": got.shape, "shape_want": E.shape}, tags)
        return False
    if np.iscomplexobj(got) != want_c:
        sh.violation(kind, case, {"dtype_got": str(got.dtype), "complex_want": want_c}, tags)
        return False
    if got.dtype not in (np.float64, np.complex128):
        sh.violation(kind, case, {"dtype_got": str(got.dtype)}, tags)
        return False
    g, x = _reals(got), _reals(E)
    if binary:
        want = x
    else:
        want = ascii_expected(x, digits)
        # documented bound: half a unit of the last written digit (+ half an ulp for the
        # decimal->binary conversion); recorded as margin, decided by the exact comparison
        nz = x != 0
        if nz.any():
            with np.errstate(all="ignore"):
                ax = np.abs(x[nz])
                e = np.floor(np.log10(ax))
                e = np.where(10.0 ** e > ax, e - 1, e)
                e = np.where(10.0 ** (e + 1) <= ax, e + 1, e)
                tol = 0.5 * 10.0 ** (e - digits) * (1 + 1e-12) + 0.5 * np.spacing(ax)
                tol = np.where(np.isfinite(tol) & (tol > 0), tol, np.spacing(ax))
                err = np.abs(g[nz] - x[nz])
                ratio = np.where(np.isfinite(err), err / tol, np.inf)
            sh.count("mon:ascii-half-unit")
            sh.worst("ascii-half-unit", ratio.max())
            if ratio.max() > 1.0:
                i = int(np.argmax(ratio))
                sh.violation("ascii-half-unit", case,
                             {"x": x[nz][i], "got": g[nz][i], "tol": tol[i],
                              "ratio": float(ratio[i]), "digits": digits}, tags)
                return False
    # bit-exact where the expectation is non-zero; zeros compared as values (-0.0 == 0.0)
    nzw = want != 0
    ok = (np.array_equal(g[nzw].view(np.uint64), want[nzw].view(np.uint64))
          and not np.any(g[~nzw] != 0))
    if not ok:
        bad = np.flatnonzero(np.where(nzw, g.view(np.uint64) != want.view(np.uint64),
                                      g != 0))
        i = int(bad[0])
        sh.violation(kind, case, {"flat_real_index": i, "got": g[i], "want": want[i],
                                  "input": x[i], "nbad": int(bad.size),
                                  "size": int(g.size)}, tags)
    return ok


# ------------------------------------------------------------------------------------
# one file: write, strict-decode, read in all modes, dir
# ------------------------------------------------------------------------------------

def run_file(sh, fc, heavy=False):
    """fc: dict(names, objs, exps(E or None), kinds, forms, style, binary, endian, sparse,
    digits, writer, case, tags[, triplets]).  Returns nothing; reports through sh."""
    import numpy as np
    import scipy.sparse as sp
    from pyyeti.nastran import op4
    from vf.oracles import op4_codec

    names, objs, exps = fc["names"], fc["objs"], fc["exps"]
    binary, endian, mode, digits = fc["binary"], fc["endian"], fc["sparse"], fc["digits"]
    case, tags = fc["case"], dict(fc["tags"])
    n = len(names)
    forms = fc["forms"]
    fname = "c04.op4"
    if os.path.exists(fname):
        os.remove(fname)

    shapes = [tuple(np.atleast_2d(o).shape) if not sp.issparse(o) else tuple(o.shape)
              for o in objs]
    cplx = [bool(np.iscomplexobj(o.data if sp.issparse(o) else o)) for o in objs]
    layouts = [expected_layout(mode, sp.issparse(o), s[0]) for o, s in zip(objs, shapes)]
    exp_names, renamed = zip(*[expected_name(nm, i) for i, nm in enumerate(names)])
    msw = max([max_run_words(E, lay) for E, lay in zip(exps, layouts)] + [0])
    tags.update({"binary": binary, "endian": endian, "sparse_mode": mode, "digits": digits,
                 "layouts": sorted(set(layouts)),
                 "layout": layouts[0] if len(set(layouts)) == 1 else "mixed",
                 "max_string_words": max(msw, tags.get("max_string_words", 0)),
                 "nrows_max": max(s[0] for s in shapes), "ncols_max": max(s[1] for s in shapes),
                 "zero_cols": any(s[1] == 0 for s in shapes),
                 "zero_rows": any(s[0] == 0 for s in shapes),
                 "n_mats": n})
    if not binary:
        tags["neg_roundup_e100"] = any(E is not None and neg_roundup_e100(E, digits)
                                       for E in exps)
    sh.count(f"cell:{'bin' if binary else 'asc'}/{mode}")
    sh.count(f"cell:endian{endian}" if binary else f"cell:digits{digits}")
    for lay in set(layouts):
        sh.count(f"cell:layout-{'bin' if binary else 'asc'}-{lay}")

    # keep bit images of the inputs: the writer must not modify its arguments
    before = [(_reals(o.data) if sp.issparse(o) else _reals(o)).tobytes() for o in objs]

    # ---- write ---------------------------------------------------------------------
    style = fc["style"]
    kw = dict(binary=binary, digits=digits, endian=endian, sparse=mode)
    wr = {"write": op4.write, "save": op4.save, "OP4.write": _O(op4, fc).write,
          "OP4.save": _O(op4, fc).save}[fc["writer"]]
    try:
        with warnings.catch_warnings(record=True) as wlist:
            warnings.simplefilter("always")
            if style == "lists":
                wr(fname, list(names), list(objs), forms=forms, **kw)
            elif style == "single":
                wr(fname, names[0], objs[0], forms=forms, **kw)
            elif style == "dict":
                wr(fname, dict(zip(names, objs)), **kw)
            else:   # dict of (matrix, form); every other file with the automatic-form
                #     entries handed over as BARE matrices between the tuples (what
                #     `dct = load(f); dct['new'] = arr; write(g, dct)` produces)
                fl_ = forms if isinstance(forms, list) else [forms] * n
                mixed = fc.get("index", 0) % 2 == 1
                if mixed and any(f is None for f in fl_) and any(f is not None for f in fl_):
                    sh.count("cell:style-dict-mixed-tuples-and-bare")
                wr(fname, {nm: (o if (mixed and f is None) else (o, f))
                           for nm, o, f in zip(names, objs, fl_)}, **kw)
    except Exception as e:
        doc = isinstance(e, ValueError) and "maximum matrix dimensions" in str(e)
        if doc and fc.get("over_limit"):
            sh.count("cell:documented-dimension-refusal")
            return
        sh.count("mon:exception-free-write")
        sh.violation("exception:write", case, {"exc": repr(e)[:300]}, tags)
        return
    sh.count("mon:exception-free-write")
    if fc.get("over_limit"):
        sh.violation("over-limit-accepted", case, {"shapes": shapes}, tags)
        return
    sh.count("mon:rename-warning")
    nwarn = sum(1 for w in wlist if issubclass(w.category, RuntimeWarning)
                and "output4 write" in str(w.message))
    if nwarn != sum(renamed):
        sh.violation("rename-warning", case, {"warnings": nwarn, "expected": sum(renamed),
                                              "names": list(names)}, tags)
    sh.count("mon:input-unmodified")
    after = [(_reals(o.data) if sp.issparse(o) else _reals(o)).tobytes() for o in objs]
    if before != after:
        sh.violation("input-modified", case, {}, tags)

    flist = forms if isinstance(forms, list) else [forms] * n
    exp_forms = [({f} if f is not None else form_rule(E, *s))
                 for f, E, s in zip(flist, exps, shapes)]
    exp_mtypes = [4 if c else 2 for c in cplx]

    # ---- independent strict decoder --------------------------------------------------
    buf = open(fname, "rb").read()
    sh.count("mon:codec-parse")
    dec = None
    try:
        dec = op4_codec.decode(buf)
    except op4_codec.CodecError as e:
        sh.violation("codec-parse", case, {"error": str(e)[:300]}, tags)
    if dec is not None:
        _check_decoded(sh, dec, fc, exp_names, shapes, exp_forms, exp_mtypes, layouts,
                       case, tags)

    # ---- pyYeti reads -----------------------------------------------------------------
    readmodes = [False, True, None, "csc"]
    if heavy:
        readmodes = fc.get("readmodes", [False, None])
    if fc.get("sparse_only"):       # huge dimensions: never ask for a dense result
        readmodes = [m for m in readmodes if m is not False
                     and not (m is None and "dense" in layouts)] or [True]
    lists = {}
    for rm in readmodes:
        sparg = (True, sp.coo_matrix.tocsc) if rm == "csc" else rm
        reader = fc["readers"][len(lists) % len(fc["readers"])]
        try:
            if reader == "load":
                res = op4.load(fname, into="list", sparse=sparg)
            elif reader == "OP4.listload":
                res = _O(op4, fc).listload(fname, sparse=sparg)
            elif reader == "OP4.load":
                res = _O(op4, fc).load(fname, into="list", sparse=sparg)
            else:
                res = op4.read(fname, into="list", sparse=sparg)
        except Exception as e:
            sh.count("mon:exception-free-read")
            sh.violation("exception:read", case, {"exc": repr(e)[:300], "sparse": str(rm)},
                         {**tags, "read_sparse": str(rm)})
            continue
        sh.count("mon:exception-free-read")
        sh.count(f"cell:read-sparse-{rm}")
        lists[rm] = res
        _check_list(sh, res, rm, fc, exp_names, shapes, exp_forms, exp_mtypes, layouts,
                    case, {**tags, "read_sparse": str(rm)})

    # dct interface: duplicate names collapse as a Python dict would
    for jm in (True, False):
        sparg = [False, True, None][(fc["index"] + jm) % 3]
        if fc.get("sparse_only"):
            sparg = True
        try:
            if jm:
                d = op4.read(fname, sparse=sparg) if fc["index"] % 2 else \
                    op4.load(fname, justmatrix=True, sparse=sparg)
            else:
                d = op4.load(fname, sparse=sparg) if fc["index"] % 2 else \
                    _O(op4, fc).dctload(fname, sparse=sparg)
        except Exception as e:
            sh.count("mon:exception-free-read")
            sh.violation("exception:read", case, {"exc": repr(e)[:300], "into": "dct"}, tags)
            continue
        sh.count("mon:exception-free-read")
        sh.count("mon:dct-interface")
        want = {}
        for i, nm in enumerate(exp_names):
            want[nm] = i
        if list(d.keys()) != list(want.keys()):
            sh.violation("dct-keys", case, {"got": list(d.keys()), "want": list(want.keys())},
                         tags)
            continue
        for nm, i in want.items():
            val = d[nm]
            if jm:
                M = val
            else:
                if not (isinstance(val, tuple) and len(val) == 3):
                    sh.violation("dct-value", case, {"name": nm, "type": str(type(val))}, tags)
                    continue
                M, f, t = val
                if f not in exp_forms[i] or t != exp_mtypes[i]:
                    sh.violation("dct-form-type", case, {"name": nm, "form": f, "mtype": t,
                                                         "want_form": sorted(exp_forms[i]),
                                                         "want_type": exp_mtypes[i]}, tags)
            if exps[i] is not None:
                Md = M.toarray() if sp.issparse(M) else M
                if sp.issparse(M) and M.nnz == 0 and not np.any(exps[i]):
                    Md = Md.astype(exps[i].dtype)
                compare_values(sh, "dct-values", Md, exps[i], binary, digits,
                               {**case, "name": nm}, tags)

    # ---- named subset read == filtered full read (repeated names all returned) ---------
    full = lists.get(False) or lists.get(None)
    if full is not None and not heavy and len(exp_names) >= 2:
        import numpy as np
        rsub = core.rng(sh.seed, "C04", "subset", fc["index"])
        distinct = list(dict.fromkeys(exp_names))
        k = 1 if rsub.random() < 0.5 else min(2, len(distinct))
        sub = [distinct[int(j)] for j in rsub.permutation(len(distinct))[:k]]
        arg = sub[0] if (k == 1 and rsub.random() < 0.5) else list(sub)
        sh.count("mon:namelist-subset")
        if len(set(exp_names)) < len(exp_names) and any(exp_names.count(x) > 1 for x in sub):
            sh.count("cell:namelist-subset-of-repeated-name")
        try:
            sn, sm, sf, st = op4.load(fname, namelist=arg, into="list", sparse=False) \
                if fc["index"] % 2 else _O(op4, fc).listload(fname, namelist=arg,
                                                           sparse=False)
            keep = [i for i, nm in enumerate(exp_names) if nm in sub]
            fn, fm, ff, ft = full
            ok = list(sn) == [exp_names[i] for i in keep] and \
                list(sf) == [ff[i] for i in keep] and list(st) == [ft[i] for i in keep]
            if ok:
                for M, i in zip(sm, keep):
                    W = fm[i].toarray() if sp.issparse(fm[i]) else np.asarray(fm[i])
                    Mg = M.toarray() if sp.issparse(M) else np.asarray(M)
                    if Mg.shape != W.shape or Mg.tobytes() != W.astype(Mg.dtype).tobytes():
                        ok = False
            if not ok:
                sh.violation("namelist-subset", case,
                             {"namelist": arg, "got_names": list(sn),
                              "want_names": [exp_names[i] for i in keep]}, tags)
        except Exception as e:
            sh.violation("exception:read", case, {"exc": repr(e)[:300],
                                                  "namelist": arg}, tags)

    # ---- dir vs load ------------------------------------------------------------------
    sh.count("mon:dir")
    try:
        dn, ds, df, dm = (op4.dir(fname, verbose=False) if fc["index"] % 2
                          else _O(op4, fc).dir(fname, verbose=False))
    except Exception as e:
        sh.violation("exception:dir", case, {"exc": repr(e)[:300]}, tags)
        return
    if list(dn) != list(exp_names) or [tuple(s) for s in ds] != list(shapes) \
            or any(f not in ef for f, ef in zip(df, exp_forms)) or list(dm) != exp_mtypes:
        sh.violation("dir-vs-written", case, {"dir": [dn, ds, df, dm],
                                              "want": [exp_names, shapes,
                                                       [sorted(f) for f in exp_forms],
                                                       exp_mtypes]}, tags)
    for rm, res in lists.items():
        sh.count("mon:dir-vs-load")
        ln, lm, lf, lt = res
        if (list(dn), [tuple(s) for s in ds], list(df), list(dm)) != (
                list(ln), [tuple(m.shape) for m in lm], list(lf), list(lt)):
            sh.violation("dir-vs-load", case, {"dir": [dn, ds, df, dm],
                                               "load": [ln, [m.shape for m in lm], lf, lt]},
                         tags)


def _check_decoded(sh, dec, fc, exp_names, shapes, exp_forms, exp_mtypes, layouts, case,
                   tags):
    import numpy as np
    import sys
    binary, endian, digits = fc["binary"], fc["endian"], fc["digits"]
    exps = fc["exps"]
    sh.count("mon:codec-structure")
    prob = []
    if (dec.kind == "binary") != binary:
        prob.append(f"file kind {dec.kind}")
    if binary:
        native = "<" if sys.byteorder == "little" else ">"
        want_e = native if endian in ("=", "") else endian
        if dec.endian != want_e:
            prob.append(f"byte order {dec.endian}, requested {endian}")
        if dec.bit64:
            prob.append("64-bit keys")
    if len(dec.mats) != len(exp_names):
        prob.append(f"{len(dec.mats)} matrices in the file, {len(exp_names)} written")
    for i, m in enumerate(dec.mats[:len(exp_names)]):
        nm = exp_names[i].upper()
        raw = m.name_raw.decode("ascii") if isinstance(m.name_raw, bytes) else m.name_raw
        if raw != f"{nm:<8}":
            prob.append(f"matrix {i}: name field {raw!r}, expected {nm!r} left-justified in 8")
        if (m.nrow, m.ncol) != tuple(shapes[i]):
            prob.append(f"matrix {i}: size {(m.nrow, m.ncol)} vs {shapes[i]}")
        if m.form not in exp_forms[i]:
            prob.append(f"matrix {i}: form {m.form} not in {sorted(exp_forms[i])}")
        if m.mtype != exp_mtypes[i]:
            prob.append(f"matrix {i}: type {m.mtype} vs {exp_mtypes[i]}")
        lay = layouts[i]
        if m.cols and m.layout != lay:
            prob.append(f"matrix {i}: layout {m.layout}, requested {lay}")
        if m.nrow > 0 and m.neg_rows != (lay == "bigmat"):
            prob.append(f"matrix {i}: header rows sign {'-' if m.neg_rows else '+'} for "
                        f"layout {lay}")
        okc = (1.0, SQRT2) if binary else (1.0, float(ascii_expected([SQRT2], digits)[0]))
        if m.closing["value"] not in okc:
            prob.append(f"matrix {i}: closing value {m.closing['value']!r}")
        if not binary:
            if m.ndec != digits:
                prob.append(f"matrix {i}: format {m.fmt!r} for digits={digits}")
            if m.perline * m.numlen > 80 or m.perline < 1:
                prob.append(f"matrix {i}: format {m.fmt!r} exceeds 80 columns")
            if m.i16 != (shapes[i][0] > 9_999_999):
                prob.append(f"matrix {i}: |I16 flag {m.i16} for {shapes[i][0]} rows")
    if prob:
        sh.violation("codec-structure", case, {"problems": prob[:6]}, tags)
        return
    for i, m in enumerate(dec.mats):
        if exps[i] is not None:
            compare_values(sh, "codec-values", m.to_dense(), exps[i], binary, digits,
                           {**case, "matrix": i}, tags)
        else:
            _cmp_triplets(sh, "codec-values", m.triplets(), fc["triplets"][i], binary,
                          digits, {**case, "matrix": i}, tags)


def _cmp_triplets(sh, kind, got, want, binary, digits, case, tags):
    """Huge-dimension matrices: compare the stored non-zeros as sorted triplets."""
    import numpy as np
    sh.count("mon:" + kind)
    I, J, V = got
    keep = V != 0
    I, J, V = np.asarray(I)[keep], np.asarray(J)[keep], np.asarray(V)[keep]
    o = np.lexsort((I, J))
    wi, wj, wv = want
    wv = np.asarray(wv)
    if not binary:
        wv2 = ascii_expected(_reals(wv), digits)
        wv = wv2.view(complex) if np.iscomplexobj(wv) else wv2
    wo = np.lexsort((wi, wj))
    ok = (I.size == len(wi) and np.array_equal(I[o], np.asarray(wi)[wo])
          and np.array_equal(J[o], np.asarray(wj)[wo])
          and _reals(V[o]).tobytes() == _reals(wv[wo]).tobytes())
    if not ok:
        sh.violation(kind, case, {"got": [I[o][:8], J[o][:8], V[o][:8]],
                                  "want": [np.asarray(wi)[wo][:8], np.asarray(wj)[wo][:8],
                                           wv[wo][:8]]}, tags)
    return ok


def _check_list(sh, res, rm, fc, exp_names, shapes, exp_forms, exp_mtypes, layouts, case,
                tags):
    import numpy as np
    import scipy.sparse as sp
    binary, digits, exps = fc["binary"], fc["digits"], fc["exps"]
    sh.count("mon:list-interface")
    try:
        ln, lm, lf, lt = res
    except Exception:
        sh.violation("list-interface", case, {"result": repr(res)[:200]}, tags)
        return
    if list(ln) != list(exp_names):
        sh.violation("names-order", case, {"got": list(ln), "want": list(exp_names)}, tags)
        return
    sh.count("mon:form-type")
    if any(f not in ef for f, ef in zip(lf, exp_forms)) or list(lt) != exp_mtypes:
        sh.violation("form-type", case, {"forms": list(lf), "mtypes": list(lt),
                                         "want_forms": [sorted(f) for f in exp_forms],
                                         "want_mtypes": exp_mtypes}, tags)
    for i, M in enumerate(lm):
        sh.count("mon:return-type")
        E = exps[i]
        allzero = (E is not None and not np.any(E)) or \
                  (E is None and len(fc["triplets"][i][0]) == 0)
        if rm is False:
            okt = isinstance(M, np.ndarray)
        elif rm is True:
            okt = sp.issparse(M) and M.format == "coo"
        elif rm == "csc":
            okt = sp.issparse(M) and M.format == "csc"
        else:
            if layouts[i] == "dense":
                okt = isinstance(M, np.ndarray)
            elif (layouts[i] == "nonbigmat" and allzero) or shapes[i][0] == 0:
                okt = True          # not judged (see ASSUMPTIONS; -0 rows has no sign)
            else:
                okt = sp.issparse(M) and M.format == "coo"
        if not okt:
            sh.violation("return-type", case, {"matrix": i, "type": str(type(M)),
                                               "read_sparse": str(rm),
                                               "layout": layouts[i]}, tags)
            continue
        if tuple(M.shape) != tuple(shapes[i]):
            sh.violation("shape", case, {"matrix": i, "got": M.shape, "want": shapes[i]},
                         tags)
            continue
        kind = "values-" + ("bin" if binary else "asc") + "-" + layouts[i] + \
               ("-sparse" if sp.issparse(M) else "-dense")
        if E is not None:
            if sp.issparse(M):
                sh.count("mon:no-duplicate-entries")
                c = M.tocoo()
                key = c.row.astype(np.int64) * max(M.shape[1], 1) + c.col
                if np.unique(key).size != key.size:
                    sh.violation("duplicate-entries", case, {"matrix": i}, tags)
                Md = M.toarray()
                if M.nnz == 0 and not np.any(E):
                    Md = Md.astype(E.dtype)     # empty sparse result: dtype not judged
            else:
                Md = M
            compare_values(sh, kind, Md, E, binary, digits, {**case, "matrix": i}, tags)
        else:
            c = M.tocoo()
            _cmp_triplets(sh, kind, (c.row, c.col, c.data), fc["triplets"][i], binary,
                          digits, {**case, "matrix": i}, tags)


# ------------------------------------------------------------------------------------
# shard kinds
# ------------------------------------------------------------------------------------

def _options(r, i):
    binary = bool(i % 2 == 0)
    return {"binary": binary,
            "endian": ENDIANS[int(r.integers(0, 3))] if r.random() > 0.03 else "",
            "sparse": SPARSE_MODES[(i // 2) % 4],
            "digits": DIGITS[(i // 8) % 5] if r.random() > 0.1 else int(r.integers(1, 18)),
            "writer": ["write", "save", "OP4.write", "OP4.save"][int(r.integers(0, 4))],
            "readers": [["load", "OP4.listload", "OP4.load", "read"][int(k)]
                        for k in r.permutation(4)]}


def _finish(sh, fc, descr, heavy=False):
    import numpy as np
    nontrivial = any((E is not None and np.any(E)) or
                     (E is None and len(t[0]) > 0)
                     for E, t in zip(fc["exps"], fc.get("triplets") or [None] * 99))
    vd = core.digest([(_reals(E).tobytes().hex() if E is not None and E.size <= 64
                       else (core.digest(_reals(E).tobytes().hex()) if E is not None else "t"))
                      for E in fc["exps"]])
    fc["case"] = {**descr, "names": list(fc["names"]), "style": fc["style"],
                  "writer": fc["writer"], "binary": fc["binary"], "endian": fc["endian"],
                  "sparse": fc["sparse"], "digits": fc["digits"],
                  "forms": fc["forms"], "values": vd}
    sh.case(fc["case"], nontrivial)
    run_file(sh, fc, heavy=heavy)


def _random_shard(sh, params):
    import numpy as np
    s = params["slice"]
    for i in range(params["n"]):
        r = core.rng(sh.seed, "C04", "random", s, i)
        opt = _options(r, i + s)
        nm = int(r.choice([1, 1, 1, 2, 2, 3, 4, 5, 6]))
        fam = "mix"
        u = r.random()
        if u < 0.07:
            fam = "badnames"
        elif u < 0.14:
            fam = "dupnames"
        elif u < 0.18:
            fam = "zerodim"
        mats, exps, kinds, descs = [], [], [], []
        for k in range(nm):
            shape = None
            if fam == "zerodim" and k == 0:
                shape = [(0, 3), (3, 0), (0, 0), (0, 1), (1, 0)][int(r.integers(0, 5))]
            A, d = _gen_dense(r, shape=shape)
            if not opt["binary"]:
                A = clamp_for_ascii(A, opt["digits"])
            obj, E, kind = _container(r, A)
            if not opt["binary"]:
                E2 = clamp_for_ascii(E, opt["digits"])
                if E2 is not E and not np.array_equal(E2, E):
                    obj, E, kind = np.array(E2), E2, "nd-C"
            mats.append(obj)
            exps.append(E)
            kinds.append(kind)
            descs.append(d)
        names = []
        for k in range(nm):
            nmk = _valid_name(r)
            if fam == "badnames" and r.random() < 0.6:
                nmk = INVALID_NAMES[int(r.integers(0, len(INVALID_NAMES)))] \
                    if r.random() < 0.7 else _valid_name(r) + "xyzuvwabc"[:int(r.integers(2, 9))]
            names.append(nmk)
        if fam == "dupnames" and nm > 1:
            names[-1] = names[0] if r.random() < 0.6 else names[0].swapcase()
            if nm > 3:
                names[2] = names[0]
        # forms
        u = r.random()
        if u < 0.5:
            forms = None
        else:
            forms = [None if r.random() < 0.3 else
                     int(EXPLICIT_FORMS[int(r.integers(0, len(EXPLICIT_FORMS)))])
                     if r.random() < 0.4 else int(r.choice([1, 2, 6])) for _ in range(nm)]
        style = "lists"
        raw_unique = len(set(names)) == nm
        u = r.random()
        if nm == 1 and u < 0.3:
            style = "single"
            if forms is not None and r.random() < 0.5:
                forms = forms[0]
        elif raw_unique and u < 0.5:
            style = "dict" if forms is None else "dict-tuple"
        fc = {"names": names, "objs": mats, "exps": exps, "kinds": kinds, "forms": forms,
              "style": style, "index": i, **opt,
              "tags": {"family": fam, "containers": sorted(set(kinds)),
                       "mags": sorted({d["mag"] for d in descs}),
                       # a complex entry whose modulus overflows although both parts
                       # are finite doubles (|re|, |im| > 1.27e308)
                       "cplx_abs_overflow": bool(any(
                           np.iscomplexobj(E) and E.size and E.shape[0] == E.shape[1]
                           and not np.all(np.isfinite(np.abs(E))) for E in exps
                           if E is not None))}}
        for d in descs:
            sh.count("cell:pat-" + d["pat"])
            sh.count("cell:mag-" + d["mag"])
            sh.count("cell:" + ("complex" if d["cplx"] else "real"))
        for kd in kinds:
            sh.count("cell:in-" + kd)
        sh.count("cell:family-" + fam)
        sh.count("cell:style-" + style)
        sh.count(f"cell:nmats-{nm}")
        _finish(sh, fc, {"family": fam, "slice": s, "i": i,
                         "mats": [[d["shape"], d["pat"], d["mag"], d["cplx"], d["sym"], kd]
                                  for d, kd in zip(descs, kinds)]})


E3_EXPS = [100, 101, 150, 299, 307, -100, -101, -150, -299, -307, -310, -320, 99, -99]


def _e3_shard(sh, params):
    """Stratified grid for the repaired field-overflow defect: sign x 3-digit exponent x
    sparse mode x digits x real/complex x position in the line."""
    import numpy as np
    import scipy.sparse as sp
    s, ns = params["slice"], params["nslice"]
    idx = 0
    for rep, sign in [(q, sg) for q in range(params.get("reps", 1)) for sg in (-1.0, 1.0)]:
        for ex in E3_EXPS:
            for mode in SPARSE_MODES:
                for digits in DIGITS:
                    for cplx in (False, True):
                        idx += 1
                        if idx % ns != s:
                            continue
                        r = core.rng(sh.seed, "C04", "e3", idx)
                        perline = 80 // (digits + 8)
                        nr = int(r.integers(1, 3 * perline + 3))
                        nc = int(r.integers(1, 4))
                        A = r.standard_normal((nr, nc)) * 10.0 ** r.integers(-3, 4, (nr, nc))
                        A[r.random((nr, nc)) < 0.25] = 0.0
                        mant = float(r.uniform(1, 9.9))
                        v = sign * mant * 10.0 ** ex if ex > -308 else sign * mant * 10.0 ** ex
                        if v == 0:
                            v = sign * 5e-324
                        npos = int(r.integers(1, 4))
                        for _ in range(npos):
                            A[int(r.integers(0, nr)), int(r.integers(0, nc))] = v
                        if cplx:
                            B = r.standard_normal((nr, nc))
                            B[r.random((nr, nc)) < 0.4] = 0.0
                            if r.random() < 0.5:       # special value in the imaginary part
                                A, B = B, A
                            A = A + 1j * B
                        usesp = mode != "dense" and r.random() < 0.4
                        obj = sp.coo_matrix(A) if usesp else A.copy()
                        if usesp and r.random() < 0.5:
                            obj = obj.tocsr()
                        E = A.astype(complex if cplx else float)
                        opt = _options(r, 1)
                        opt.update(binary=False, sparse=mode, digits=digits)
                        fc = {"names": ["e3"], "objs": [obj], "exps": [E],
                              "kinds": ["coo" if usesp else "nd"], "forms": None,
                              "style": "lists", "index": idx, **opt,
                              "tags": {"family": "e3", "sign": sign, "exp10": ex,
                                       "has_e3": abs(ex) >= 100}}
                        sh.count(f"cell:e3-{'neg' if sign < 0 else 'pos'}-"
                                 f"{'big' if ex >= 100 else 'small' if ex <= -100 else '2digit'}")
                        sh.count(f"cell:e3-mode-{mode}")
                        _finish(sh, fc, {"family": "e3", "idx": idx, "sign": sign, "exp10": ex,
                                         "cplx": cplx, "shape": [nr, nc]})
    # round-up to a 3-digit exponent: |v| < 1e100 but the rounded decimal is 1.0E+100
    k = 0
    for sign in (-1.0, 1.0):
        for digits in (1, 5, 9):
            for mode in SPARSE_MODES:
                k += 1
                if k % ns != s:
                    continue
                r = core.rng(sh.seed, "C04", "roundup", k)
                A = r.standard_normal((4, 3))
                A[1, 1] = sign * 9.99999999999e99
                B = r.standard_normal((4, 3))       # low side: rounds up to 1.0E-99
                B[3, 0] = sign * 9.9999999999e-100
                fc = {"names": ["ru", "rulow"], "objs": [A.copy(), B.copy()],
                      "exps": [A, B], "kinds": ["nd", "nd"],
                      "forms": None, "style": "lists", "index": k, **_options(r, 1),
                      "tags": {"family": "roundup", "sign": sign}}
                fc.update(binary=False, sparse=mode, digits=digits)
                sh.count("cell:roundup-" + ("neg" if sign < 0 else "pos"))
                _finish(sh, fc, {"family": "roundup", "k": k, "sign": sign})


def _boundary_cases(tier):
    """(label, builder-args) enumerated deterministically; sliced over 3 shards."""
    cases = []
    # strings / columns at the reader's struct->fromfile switch (3000 values) -------------
    for cplx in (False, True):
        for nval in ((2999, 3000, 3001) if not cplx else (1499, 1500, 1501)):
            for binary in (True, False):
                for mode in ("dense", "bigmat", "nonbigmat"):
                    cases.append(("cutoff", dict(n=nval, cplx=cplx, binary=binary, mode=mode)))
    # nonbigmat string-length limit (L counts 32-bit words: 2 per real, 4 per complex) ----
    for cplx, sizes in ((False, (16382, 16383, 16384, 20000)), (True, (8190, 8191, 8192))):
        for nval in sizes:
            for binary in (True, False):
                for mode in ("nonbigmat", "bigmat", "dense"):
                    if mode != "nonbigmat" and (nval not in (16384, 8192) or not binary):
                        continue
                    cases.append(("strlimit", dict(n=nval, cplx=cplx, binary=binary,
                                                   mode=mode)))
    # row counts at the nonbigmat->bigmat switch -------------------------------------------
    for nrow in (16383, 16384, 65535, 65536, 70000):
        for binary in (True, False):
            for mode in SPARSE_MODES:
                if tier == "quick" and not binary and nrow in (16383, 70000):
                    continue
                cases.append(("rows", dict(nrow=nrow, binary=binary, mode=mode)))
    # huge sparse dimensions / header field widths ------------------------------------------
    for shape in ((10_000_001, 3), (3, 10_000_001), (9_999_999, 2), (10_000_000, 2),
                  (99_999_999, 2), (2, 99_999_998), (2_147_483_647, 2), (2, 2_147_483_646),
                  (2, 2_147_483_647), (100_000_000, 2), (2, 99_999_999), (70_000, 70_000),
                  (10_000_001, 10_000_001)):
        for binary in (True, False):
            for mode in ("auto", "dense", "nonbigmat"):
                cases.append(("huge", dict(shape=shape, binary=binary, mode=mode)))
    return cases


def _boundary_shard(sh, params, tier):
    import numpy as np
    import scipy.sparse as sp
    s, ns = params["slice"], params["nslice"]
    for idx, (label, a) in enumerate(_boundary_cases(tier)):
        if idx % ns != s:
            continue
        r = core.rng(sh.seed, "C04", "boundary", idx)
        opt = _options(r, idx)
        opt.update(binary=a["binary"], sparse=a["mode"])
        opt["digits"] = [16, 9, 5, 17][idx % 4]
        extra = {}
        if label in ("cutoff", "strlimit"):
            n, cplx = a["n"], a["cplx"]
            nrow = n + int(r.integers(0, 9))
            A = np.zeros((nrow, 3), complex if cplx else float)
            a0 = int(r.integers(0, nrow - n + 1))
            v = r.standard_normal(n) * 10.0 ** r.integers(-5, 6, n)
            v[v == 0] = 1.0
            A[a0:a0 + n, 1] = v + (1j * r.standard_normal(n) if cplx else 0)
            A[int(r.integers(0, nrow)), 0] = 2.5
            if label == "cutoff" and a["mode"] == "dense":
                # interior zeros: the dense column is one block of n stored values
                A[a0 + 1:a0 + n - 1:7, 1] = 0
            usesp = a["mode"] != "dense" and idx % 3 == 0
            obj = sp.csc_matrix(A) if usesp else A.copy()
            fc = {"names": ["bnd"], "objs": [obj], "exps": [A], "kinds": ["csc" if usesp else "nd"],
                  "readmodes": [False, True] if idx % 2 else [None, "csc"]}
            descr = {"family": label, "idx": idx, **a}
        elif label == "rows":
            nrow = a["nrow"]
            A = np.zeros((nrow, 3))
            L = int(r.integers(50, 400))
            A[nrow - L:, 0] = r.standard_normal(L) + 3        # string ending in the last row
            A[0, 1] = -1.25
            A[nrow - 1, 1] = 7.5
            A[int(nrow // 2):int(nrow // 2) + 3001, 2] = r.standard_normal(3001) + 5
            A[::max(nrow // 40, 1), 2] = 1.0
            usesp = idx % 2 == 0
            obj = sp.csr_matrix(A) if usesp else A.copy()
            fc = {"names": ["Rows", "tail"], "objs": [obj, np.array([[1.0, 2.0], [2.0, 5.0]])],
                  "exps": [A, np.array([[1.0, 2.0], [2.0, 5.0]])],
                  "kinds": ["csr" if usesp else "nd", "nd"],
                  "readmodes": [False, None] if idx % 2 else [True, "csc"]}
            descr = {"family": label, "idx": idx, **a}
        else:   # huge
            nr, nc = a["shape"]
            # a few columns (first, last, random), each with a cluster of rows spanning
            # < 40 rows (a dense-layout column stores its whole first..last span), placed at
            # the first rows, the last rows and at random
            colsel = sorted({0, nc - 1, int(r.integers(0, nc)), int(r.integers(0, nc))})
            I, J = [], []
            for q, j in enumerate(colsel):
                base = [0, max(nr - 40, 0), int(r.integers(0, max(nr - 40, 1)))][q % 3]
                rows = np.unique(np.concatenate((
                    base + r.integers(0, min(40, nr), 4), base + np.arange(3) + 5)))
                rows = rows[rows < nr]
                if q % 3 == 1:
                    rows = np.unique(np.concatenate((rows, [nr - 1])))
                I.append(rows)
                J.append(np.full(rows.size, j))
            I, J = np.concatenate(I).astype(np.int64), np.concatenate(J).astype(np.int64)
            V = r.standard_normal(I.size) + 2.0
            obj = sp.coo_matrix((V, (I, J)), shape=(nr, nc))
            if idx % 2:
                obj = obj.tocsc() if nc <= 10_000_001 else obj.tocsr() \
                    if nr <= 10_000_001 else obj
            over = (not a["binary"] and (nr > 99_999_999 or nc > 99_999_998))
            fc = {"names": ["huge"], "objs": [obj], "exps": [None], "kinds": ["coo"],
                  "triplets": [(I, J, V)], "sparse_only": True, "over_limit": over,
                  "readmodes": [True, None] if idx % 2 or nc > 10_000_001
                  else [True, "csc"]}
            descr = {"family": label, "idx": idx, "shape": [nr, nc], "binary": a["binary"],
                     "mode": a["mode"]}
            extra = {"huge_shape": [nr, nc]}
        fc.update({"forms": None, "style": "lists", "index": idx, **opt,
                   "tags": {"family": label, **extra}})
        sh.count("cell:boundary-" + label)
        if label == "rows":
            sh.count(f"cell:rows-{a['nrow']}")
        if label in ("cutoff", "strlimit"):
            sh.count(f"cell:{label}-{a['n']}")
        _finish(sh, fc, descr, heavy=True)


def _sample_root():
    """The shipped Nastran-written files are data, not code under test: the selftest's
    scratch copy of the tree leaves pyyeti/tests out, so fall back to /repo for them."""
    if os.path.isdir(os.path.join(core.REPO, "pyyeti", "tests", "nastran_op4_data")):
        return core.REPO
    return "/repo"


def run_shard(sh, params):
    from vf.oracles import op4_codec
    ok, bad, stats = op4_codec.selfcheck_samples(_sample_root())
    sh.count("oracle:sample-files-reencoded", ok)
    if bad:
        sh.count("oracle:sample-files-failed", len(bad))
        sh.oracle_failures = bad
        sh.samples.append({"oracle_selfcheck_failed": bad[:5]})
        return          # oracle not credible: judge nothing (finalize -> exit 2)
    if params["kind"] == "random":
        _random_shard(sh, params)
    elif params["kind"] == "e3":
        _e3_shard(sh, params)
    else:
        _boundary_shard(sh, params, sh.tier)


def finalize(agg, tier):
    why = []
    c = agg["counters"]
    if c.get("oracle:sample-files-failed"):
        why.append("op4_codec failed to re-encode shipped sample files byte-exactly "
                   f"({c['oracle:sample-files-failed']} failures): oracle not credible")
    if not c.get("oracle:sample-files-reencoded"):
        why.append("op4_codec sample self-check never ran")
    for k in ("codec-parse", "codec-structure", "codec-values", "list-interface",
              "dct-interface", "dir", "dir-vs-load", "form-type", "return-type",
              "ascii-half-unit", "rename-warning", "input-unmodified",
              "values-bin-dense-dense", "values-bin-dense-sparse",
              "values-bin-bigmat-dense", "values-bin-bigmat-sparse",
              "values-bin-nonbigmat-dense", "values-bin-nonbigmat-sparse",
              "values-asc-dense-dense", "values-asc-dense-sparse",
              "values-asc-bigmat-dense", "values-asc-bigmat-sparse",
              "values-asc-nonbigmat-dense", "values-asc-nonbigmat-sparse",
              "namelist-subset"):
        if not c.get("mon:" + k):
            why.append(f"monitor {k} never evaluated")
    need = ["bin/auto", "bin/dense", "bin/bigmat", "bin/nonbigmat", "asc/auto", "asc/dense",
            "asc/bigmat", "asc/nonbigmat", "endian=", "endian<", "endian>",
            "e3-neg-big", "e3-neg-small", "e3-pos-big", "e3-pos-small", "roundup-neg",
            "boundary-cutoff", "boundary-strlimit", "boundary-rows", "boundary-huge",
            "rows-65535", "rows-65536", "rows-16384", "cutoff-2999", "cutoff-3000",
            "cutoff-3001", "strlimit-16383", "strlimit-16384", "strlimit-8192",
            "family-badnames", "family-dupnames", "family-zerodim",
            "namelist-subset-of-repeated-name",
            "read-sparse-False", "read-sparse-True", "read-sparse-None", "read-sparse-csc",
            "in-coo", "in-csr", "in-csc", "in-nd-F", "in-nd-strided", "mag-e3", "mag-denorm",
            "mag-extreme", "complex", "real"] + [f"digits{d}" for d in DIGITS] + \
           [f"nmats-{k}" for k in range(1, 7)]
    for k in need:
        if not c.get("cell:" + k):
            why.append(f"coverage cell {k} empty")
    return why


def evidence_extra(agg, tier):
    c = agg["counters"]
    return {"oracle_sample_files_reencoded_per_shard": c.get("oracle:sample-files-reencoded", 0)
            // max(agg["shards"], 1),
            "files_written": agg["evaluations"]}
