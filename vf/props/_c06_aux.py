"""C06, cbtf / cgmass / cbconvert / cbreorder / uset_convert parts.  Helper of
vf/props/c06.py (not a property module)."""
import io
import math
import warnings

import numpy as np
import scipy.linalg as sla

from vf import core
from vf.oracles import cb_model as cm

EPS = 2.220446049250313e-16
M2E = (1 / 0.0254, 0.005710147154735817)
E2M = (0.0254, 175.12683524637913)


def _sym(r, n, cplx=False):
    A = r.standard_normal((n, n))
    A = 0.5 * (A + A.T)
    if cplx:
        Bm = r.standard_normal((n, n))
        A = A + 1j * 0.5 * (Bm + Bm.T)
    return A


# ======================================================================================
# cbtf
# ======================================================================================

def gen_cbtf(r, idx):
    c = {}
    c["noq"] = idx % 2 == 0
    c["order"] = ["sorted", "unsorted", "reversed"][(idx // 2) % 3]
    c["aform"] = ["vec", "mat"][(idx // 6) % 2]
    c["cplx"] = bool((idx // 12) % 2)
    c["f0"] = bool((idx // 24) % 2)
    c["qqfull"] = bool((idx // 48) % 2)
    lo = {"sorted": 1, "reversed": 2, "unsorted": 3}[c["order"]]
    nb = int(r.integers(lo, 13))
    nq = 0 if c["noq"] else int(r.integers(1, 16))
    n = nb + nq
    pos = np.sort(r.choice(n, nb, replace=False))
    if c["order"] == "sorted":
        bset = pos
    elif c["order"] == "reversed":
        bset = pos[::-1].copy()
    else:
        while True:
            bset = r.permutation(pos)
            if not (np.all(np.diff(bset) > 0) or np.all(np.diff(bset) < 0)):
                break
    qset = np.setdiff1d(np.arange(n), pos)
    cplx = c["cplx"]
    # CB-form matrices: k has no b-q coupling
    A = r.standard_normal((n, n))
    m = A @ A.T / n + np.eye(n)
    if cplx:
        m = m + 0.05j * _sym(r, n)
    k = np.zeros((n, n), dtype=complex if cplx else float)
    kbb = _sym(r, nb, cplx) * 1e3
    k[np.ix_(pos, pos)] = kbb
    b = r.standard_normal((n, n)) * 2.0
    if r.random() < 0.5:
        b = 0.5 * (b + b.T)
    if cplx:
        b = b + 0.3j * r.standard_normal((n, n))
    if nq:
        fn = np.exp(r.uniform(np.log(1.0), np.log(60.0), nq))
        lam = (2 * math.pi * fn) ** 2
        zeta = r.uniform(0.005, 0.2, nq)
        kqq = np.diag(lam).astype(complex if cplx else float)
        bqq = np.diag(2 * zeta * np.sqrt(lam)).astype(complex if cplx else float)
        mqq = np.eye(nq, dtype=complex if cplx else float)
        if cplx:
            kqq = kqq * (1 + 1j * r.uniform(0, 0.1, nq))
        if c["qqfull"]:
            sl = np.sqrt(np.outer(lam, lam))
            kqq = kqq + 0.05 * sl * _sym(r, nq, cplx)
            mqq = mqq + 0.1 * _sym(r, nq, cplx) / math.sqrt(nq)
            bqq = bqq + 0.02 * np.sqrt(sl) * r.standard_normal((nq, nq))
        qq = np.ix_(qset, qset)
        m[qq] = mqq
        k[qq] = kqq
        b[qq] = bqq
    nf = int(r.integers(1, 13))
    freq = np.exp(r.uniform(np.log(0.1), np.log(100.0), nf))
    if r.random() < 0.5:
        freq = np.sort(freq)
    if c["f0"]:
        freq[int(r.integers(0, nf))] = 0.0
    if c["aform"] == "vec":
        a = r.standard_normal(nb)
        if cplx and r.random() < 0.5:
            a = a + 1j * r.standard_normal(nb)
        if r.random() < 0.3:
            a = np.zeros(nb)
            a[int(r.integers(0, nb))] = 1.0
    else:
        a = r.standard_normal((nb, nf)) + 1j * r.standard_normal((nb, nf))
        if r.random() < 0.3:
            a = a.real.copy()
    # the response to an enforced motion does not depend on the unit of force: the same
    # model in a unit system where every stiffness is tiny (or huge) in absolute terms
    c["kscale"] = 0
    if idx % 8 in (3, 6):
        c["kscale"] = -40 if idx % 8 == 3 else 30
        f2 = 2.0 ** c["kscale"]
        m, b, k = m * f2, b * f2, k * f2
    c["cplx_mass_only"] = False
    if cplx and idx % 5 == 2:
        # complex entries in the MASS only (damping and stiffness real): the system is
        # complex all the same
        b, k = np.real(b).copy(), np.real(k).copy()
        c["cplx_mass_only"] = True
    c.update(nb=nb, nq=nq, n=n, bset=bset, qset=qset, m=m, b=b, k=k, freq=freq, a=a)
    return c


def direct_cbtf(m, b, k, a2, freq, bset, qset):
    """Own dense solve of the 2-block equations with enforced boundary acceleration
    (pyYeti's convention at 0 Hz: boundary velocity and displacement are zero)."""
    n = m.shape[0]
    nf = freq.size
    A = np.zeros((n, nf), complex)
    V = np.zeros((n, nf), complex)
    Dd = np.zeros((n, nf), complex)
    F = np.zeros((bset.size, nf), complex)
    for j, f in enumerate(freq):
        W = 2 * math.pi * f
        ab = a2[:, j]
        if W == 0.0:
            d = np.zeros(n, complex)
            if qset.size:
                rhs = -(m[np.ix_(qset, bset)] @ ab)
                d[qset] = np.linalg.solve(k[np.ix_(qset, qset)], rhs)
            acc = np.zeros(n, complex)
            acc[bset] = ab
            vel = np.zeros(n, complex)
        else:
            d = np.zeros(n, complex)
            d[bset] = -ab / W ** 2
            Z = -W ** 2 * m + 1j * W * b
            Zk = Z + k
            if qset.size:
                # bottom rows: Zqq dq = -(Z_qb) db      (k_qb = 0 in CB form)
                rhs = -(Z[np.ix_(qset, bset)] @ d[bset])
                d[qset] = np.linalg.solve(Zk[np.ix_(qset, qset)], rhs)
            vel = 1j * W * d
            acc = -W ** 2 * d
            acc[bset] = ab
        A[:, j], V[:, j], Dd[:, j] = acc, vel, d
        full = m @ acc + b @ vel
        full[bset] += k[np.ix_(bset, bset)] @ d[bset]
        F[:, j] = full[bset]
    return A, V, Dd, F


def run_cbtf(sh, params):
    from pyyeti import cb
    cnt, s = params["count"], params["slice"]
    nmeta = max(10, cnt // 8)
    for i in range(cnt):
        idx = s * cnt + i
        r = core.rng(sh.seed, "C06", "cbtf", idx)
        c = gen_cbtf(r, idx)
        case = {"kind": "cbtf", "idx": idx, "seed": sh.seed}
        tags = {"noq": c["noq"], "order": c["order"], "aform": c["aform"],
                "cplx": c["cplx"], "f0": c["f0"], "qqfull": c["qqfull"],
                "bset_sorted": c["order"] == "sorted"}
        cell = "cbtf:%s-%s-%s-%s" % ("noq" if c["noq"] else "q", c["order"], c["aform"],
                                     "complex" if c["cplx"] else "real")
        sh.count("cell:" + cell)
        if c["f0"]:
            sh.count("cell:cbtf:f0")
        if not c["noq"]:
            sh.count("cell:cbtf:qq-" + ("full" if c["qqfull"] else "diag"))
            if c["kscale"]:
                sh.count("cell:cbtf:force-unit-" + ("tiny" if c["kscale"] < 0 else "huge"))
            if c["cplx_mass_only"]:
                sh.count("cell:cbtf:complex-mass-only")
        sh.case(case, True, sample={"case": case, "tags": tags, "nb": c["nb"],
                                    "nq": c["nq"], "bset": c["bset"],
                                    "freq": c["freq"]})
        m, b, k, a, freq, bset, qset = (c[x] for x in ("m", "b", "k", "a", "freq", "bset",
                                                       "qset"))
        nf = freq.size
        a2 = a if a.ndim == 2 else np.outer(a, np.ones(nf))
        a2 = a2.astype(complex)
        # input containers: list / scalar forms now and then
        a_in, bset_in = a, bset
        if c["nb"] == 1 and idx % 3 == 0 and a.ndim == 1:
            a_in, bset_in = complex(a[0]) if np.iscomplexobj(a) else float(a[0]), int(
                bset[0])
        elif idx % 5 == 0:
            bset_in = bset.tolist()
        elif idx % 7 == 0 and a.ndim == 1:
            a_in = a.reshape(-1, 1)
        save = {} if idx % 4 == 1 else None
        keep = [x.copy() for x in (m, b, k)]
        try:
            with warnings.catch_warnings():
                warnings.simplefilter("ignore")
                tf = cb.cbtf(m, b, k, a_in, freq, bset_in, save)
        except Exception as e:
            sh.violation("exception:cbtf", case, {"exc": repr(e)[:300]}, tags)
            continue
        if any(not np.array_equal(x, y) for x, y in zip(keep, (m, b, k))):
            sh.violation("cbtf-mutates-input", case, {}, tags)
        A, V, Dd, F = (np.asarray(x) for x in (tf.a, tf.v, tf.d, tf.frc))
        n = c["n"]
        if A.shape != (n, nf) or V.shape != (n, nf) or Dd.shape != (n, nf) or F.shape != (
                c["nb"], nf):
            sh.violation("cbtf-shapes", case, {"a": A.shape, "frc": F.shape}, tags)
            continue
        sh.check_close("cbtf-freq", np.asarray(tf.freq, float), freq, 0.0, case, tags)
        # enforced acceleration is returned on the boundary rows
        sh.check_close("cbtf-enforced-a", A[bset], a2, 0.0, case, tags)
        # kinematics
        W = 2 * math.pi * freq
        nz = W != 0
        sh.check_close("cbtf-kinematics",
                       np.vstack([(-W[nz] ** 2) * Dd[:, nz], 1j * W[nz] * Dd[:, nz]]),
                       np.vstack([A[:, nz], V[:, nz]]),
                       16 * EPS * np.abs(np.vstack([A[:, nz], V[:, nz]])) + 1e-300,
                       case, tags)
        if (~nz).any():
            z0 = np.abs(V[:, ~nz]).max() + np.abs(Dd[np.ix_(bset, ~nz)]).max()
            sh.check_equal("cbtf-zero-hz-convention", float(z0), 0.0, case, tags)
        # full equations of motion with the returned a, v, d and the returned force
        Fext = np.zeros((n, nf), complex)
        Fext[bset] = F
        R = m @ A + b @ V + k @ Dd - Fext
        scale = (np.abs(m) @ np.abs(A) + np.abs(b) @ np.abs(V) + np.abs(k) @ np.abs(Dd)
                 + np.abs(Fext))
        colmax = scale.max(axis=0, keepdims=True)
        sh.check_close("cbtf-eom-residual", R / (scale + 1e-3 * colmax + 1e-300), 0 * R,
                       1e-9, case, tags)
        # own direct solution, tolerance from the oracle's sensitivity
        A0, V0, D0, F0 = direct_cbtf(m, b, k, a2, freq, bset, qset)
        sig = 0.0
        for t in range(3):
            pm = m * (1 + 1e-13 * r.uniform(-1, 1, m.shape))
            pb = b * (1 + 1e-13 * r.uniform(-1, 1, m.shape))
            pk = k * (1 + 1e-13 * r.uniform(-1, 1, m.shape))
            Ap, Vp, Dp, Fp = direct_cbtf(pm, pb, pk, a2, freq, bset, qset)
            for X, Y in ((Ap, A0), (Vp, V0), (Dp, D0), (Fp, F0)):
                cs = np.abs(Y).max(axis=0) + 1e-300
                sig = max(sig, float((np.abs(X - Y) / cs).max()))
        if sig > 1e-6:
            sh.refused += 1
        else:
            tol = 200 * (sig / 1e-13) * EPS * 20 + 1e-11
            got = np.vstack([X / (np.abs(Y).max(axis=0) + 1e-300)
                             for X, Y in ((A, A0), (V, V0), (Dd, D0), (F, F0))])
            wnt = np.vstack([Y / (np.abs(Y).max(axis=0) + 1e-300)
                             for Y in (A0, V0, D0, F0)])
            sh.check_close("cbtf-vs-direct", got, wnt, tol, case, tags)
        # cached solver: a second enforced motion through the same `save`
        if save is not None and not c["noq"]:
            a3 = r.standard_normal(c["nb"])
            try:
                before = [np.array(getattr(tf, nm), copy=True)
                          for nm in ("a", "v", "d", "frc")]
                t1 = cb.cbtf(m, b, k, a3, freq, bset, save)
                # a solution handed out earlier must not change when the cached solver
                # is used again (work arrays kept in `save` would alias it)
                sh.check_equal("cbtf-save-earlier-result-unmutated",
                               all(np.asarray(getattr(tf, nm)).tobytes() == x.tobytes()
                                   for nm, x in zip(("a", "v", "d", "frc"), before)),
                               True, case, tags)
                t2 = cb.cbtf(m, b, k, a3, freq, bset)
                ok = "tf" in save
                sh.check_equal("cbtf-save-has-tf", ok, True, case, tags)
                for nm in ("a", "v", "d", "frc"):
                    x1, x2 = np.asarray(getattr(t1, nm)), np.asarray(getattr(t2, nm))
                    sh.check_close("cbtf-save-reuse", x1, x2,
                                   1e-13 * (np.abs(x2).max(axis=0) + 1e-300), case, tags)
                # the caller's frequency array updated in place between two calls that
                # share `save`: the answer belongs to the frequencies as they are now
                if idx % 8 == 1:
                    f_keep = freq.copy()
                    freq *= 1.7
                    if freq.size > 1:
                        freq[0] += 0.5
                    t3 = cb.cbtf(m, b, k, a3, freq, bset, save)
                    t4 = cb.cbtf(m, b, k, a3, freq.copy(), bset)
                    sh.count("cell:cbtf:save-freq-updated-in-place")
                    for nm in ("a", "v", "d", "frc"):
                        x1, x2 = np.asarray(getattr(t3, nm)), np.asarray(getattr(t4, nm))
                        sh.check_close("cbtf-save-freq-inplace", x1, x2,
                                       1e-13 * (np.abs(x2).max(axis=0) + 1e-300), case,
                                       tags)
                    freq[:] = f_keep
            except Exception as e:
                sh.violation("exception:cbtf-save", case, {"exc": repr(e)[:300]}, tags)
        # documented input errors
        if idx % 25 == 0:
            for bad_a, bad_f in ((np.ones((c["nb"], nf + 1)), freq),
                                 (np.ones(c["nb"] + 1), freq)):
                sh.count("mon:cbtf-errors")
                try:
                    cb.cbtf(m, b, k, bad_a, bad_f, bset)
                    sh.violation("cbtf-errors", case, {"accepted": bad_a.shape}, tags)
                except ValueError:
                    pass
                except Exception as e:
                    sh.violation("cbtf-errors", case, {"exc": repr(e)[:200]}, tags)
    for i in range(nmeta):
        try:
            _cbtf_metamorphic(sh, s * nmeta + i)
        except Exception as e:
            import traceback
            sh.violation("harness-exception", {"kind": "cbtf-meta", "i": s * nmeta + i},
                         {"trace": traceback.format_exc()[-1500:]}, {})


def _cbtf_metamorphic(sh, idx):
    """Unit conversion + boundary reordering leave recovered responses unchanged:
    cbtf on (m,b,k) in old units / input layout versus cbtf on the cbconvert'ed and
    cbreorder'ed matrices with the equivalent base motion."""
    from pyyeti import cb
    r = core.rng(sh.seed, "C06", "cbtf-meta", idx)
    nn = int(r.integers(6, 10))
    mdl = cm.random_model(r, nn)
    lam7 = float(sla.eigvalsh(mdl.K, mdl.M)[6])
    mdl = cm.scale_stiffness(mdl, (2 * math.pi * 5.0) ** 2 / lam7)
    nbg = int(r.integers(1, 3))
    bnodes = r.choice(nn, nbg, replace=False)
    bdof = np.concatenate([np.arange(6 * g, 6 * g + 6) for g in bnodes])
    nq = int(r.integers(1, 13))
    cbm = cm.craig_bampton(mdl.M, mdl.K, bdof, nq)
    nb, n = cbm["nb"], cbm["nb"] + cbm["nq"]
    zeta = r.uniform(0.01, 0.1, nq)
    bcb = np.zeros((n, n))
    bcb[nb:, nb:] = np.diag(2 * zeta * np.sqrt(cbm["w2"]))
    # layout: b blocks anywhere, grid order permuted
    lay = r.permutation(n)
    # keep each grid's 6 DOF in natural order inside bset
    perm = r.permutation(nbg)
    M0 = np.zeros((n, n)); K0 = np.zeros((n, n)); B0 = np.zeros((n, n))
    ix = np.ix_(lay, lay)
    M0[ix], K0[ix], B0[ix] = cbm["m"], cbm["k"], bcb
    bset = np.concatenate([lay[6 * j:6 * j + 6] for j in perm])
    conv = [("m2e"), ("e2m"), (float(math.exp(r.uniform(-3, 3))),
                                float(math.exp(r.uniform(-3, 3))))][idx % 3]
    L, Mc = M2E if conv == "m2e" else (E2M if conv == "e2m" else conv)
    freq = np.exp(r.uniform(np.log(0.5), np.log(60.0), 8))
    freq[0] = 0.0 if idx % 2 else freq[0]
    a1 = r.standard_normal(nb)
    case = {"kind": "cbtf-meta", "idx": idx, "seed": sh.seed}
    tags = {"meta": True, "conv": conv if isinstance(conv, str) else "numeric"}
    sh.case(case, True)
    with warnings.catch_warnings():
        warnings.simplefilter("ignore")
        t1 = cb.cbtf(M0, B0, K0, a1, freq, bset)
        M2 = cb.cbreorder(cb.cbconvert(M0, bset, conv), bset)
        K2 = cb.cbreorder(cb.cbconvert(K0, bset, conv), bset)
        B2 = cb.cbreorder(cb.cbconvert(B0, bset, conv), bset)
        # x_old = c * x_new on the boundary (translations 1/L, rotations 1)
        cb_b = np.where(np.arange(nb) % 6 < 3, 1.0 / L, 1.0)
        t2 = cb.cbtf(M2, B2, K2, a1 / cb_b, freq, np.arange(nb))
    # recover physical accelerations (old units) from both
    # t1: rows in matrix layout -> cbm order;   cbm b order is grid order of bnodes
    a_cbm1 = np.asarray(t1.a)[lay]
    # t2: rows = [bset (perm'ed grids), q ascending matrix position]
    qpos = np.setdiff1d(np.arange(n), bset)
    order2 = np.r_[bset, qpos]                   # matrix index of each row of t2
    inv_lay = np.empty(n, int)
    inv_lay[lay] = np.arange(n)
    cbm_of_row2 = inv_lay[order2]
    cfac = np.r_[cb_b, np.full(nq, 1.0 / (math.sqrt(Mc) * L))]
    a_cbm2 = np.zeros((n, freq.size), complex)
    a_cbm2[cbm_of_row2] = np.asarray(t2.a) * cfac[:, None]
    T = cbm["T"]
    p1, p2 = T @ a_cbm1, T @ a_cbm2
    sc = np.abs(p1).max(axis=0) + 1e-300
    sh.check_close("cbtf-metamorphic-convert-reorder", p2 / sc, p1 / sc, 1e-8, case, tags)
    # interface force: f_new = d * f_old
    dfac = np.where(np.arange(nb) % 6 < 3, Mc * L, Mc * L * L)
    f1, f2 = np.asarray(t1.frc), np.asarray(t2.frc) / dfac[:, None]
    trans = np.arange(nb) % 6 < 3
    for pv in (trans, ~trans):
        scf = np.abs(f1[pv]).max(axis=0) + 1e-300
        sh.check_close("cbtf-metamorphic-force", f2[pv] / scf, f1[pv] / scf, 1e-8, case,
                       tags)


# ======================================================================================
# cgmass
# ======================================================================================

def general_mass(mx, my, mz, d, J):
    """The documented general 6x6 (Notes of cb.cgmass), J = inertia about the cg in
    standard tensor form (off-diagonals = -Ixy ...)."""
    dx, dy, dz = d
    M = np.zeros((6, 6))
    M[0, 0], M[1, 1], M[2, 2] = mx, my, mz
    M[0, 4], M[0, 5] = mx * dz, -mx * dy
    M[1, 3], M[1, 5] = -my * dz, my * dx
    M[2, 3], M[2, 4] = mz * dy, -mz * dx
    M[3:, :3] = M[:3, 3:].T
    M[3:, 3:] = J + np.array(
        [[mz * dy ** 2 + my * dz ** 2, -mz * dx * dy, -my * dx * dz],
         [-mz * dx * dy, mz * dx ** 2 + mx * dz ** 2, -mx * dy * dz],
         [-my * dx * dz, -mx * dy * dz, mx * dy ** 2 + my * dx ** 2]])
    return M


def run_cgmass(sh, params):
    from pyyeti import cb
    cnt, s = params["count"], params["slice"]
    for i in range(cnt):
        idx = s * cnt + i
        r = core.rng(sh.seed, "C06", "cgmass", idx)
        general = idx % 4 == 3
        scale = 10.0 ** r.uniform(-2, 3)
        M6, m, d, J = cm.random_rigid_mass(r, scale)
        if general:
            mv = m * np.exp(r.uniform(-1.5, 1.5, 3))
            M6 = general_mass(mv[0], mv[1], mv[2], d, J)
            sh.count("cell:cgmass:general")
        else:
            mv = np.full(3, m)
            if idx % 2:
                Q, _ = np.linalg.qr(r.standard_normal((3, 3)))
                R6 = sla.block_diag(Q, Q)
                M6 = R6 @ M6 @ R6.T
                M6 = 0.5 * (M6 + M6.T)
                d, J = Q @ d, Q @ J @ Q.T
            sh.count("cell:cgmass:rigid")
        case = {"kind": "cgmass", "idx": idx, "seed": sh.seed}
        tags = {"general": general}
        sh.case(case, True, sample={"case": case, "m": M6})
        keep = M6.copy()
        try:
            mcg, dxyz, gyr, pgyr, I, pI = cb.cgmass(M6, all6=True)
            mcg2, dxyz2 = cb.cgmass(M6)
        except Exception as e:
            sh.violation("exception:cgmass", case, {"exc": repr(e)[:300]}, tags)
            continue
        if not np.array_equal(keep, M6):
            sh.violation("cgmass-mutates-input", case, {}, tags)
        rho2 = np.trace(J) / mv.min()
        dn = float(np.linalg.norm(d))
        lsc = dn + math.sqrt(rho2)
        Isc = mv.max() * (dn * dn + rho2)
        sh.check_close("cgmass-d", dxyz / lsc, d / lsc, 64 * EPS, case, tags)
        want_mcg = np.zeros((6, 6))
        want_mcg[:3, :3] = np.diag(mv)
        want_mcg[3:, 3:] = J
        S6 = np.sqrt(np.outer(np.r_[mv, [Isc] * 3], np.r_[mv, [Isc] * 3]))
        sh.check_close("cgmass-mcg", mcg / S6, want_mcg / S6, 256 * EPS, case, tags)
        sh.check_close("cgmass-I", I / Isc, J / Isc, 256 * EPS, case, tags)
        w, v = np.linalg.eigh(J)
        sh.check_close("cgmass-princ", np.diag(pI) / Isc, w / Isc, 256 * EPS, case, tags)
        offd = pI - np.diag(np.diag(pI))
        sh.check_equal("cgmass-princ-diagonal", float(np.abs(offd).max()), 0.0, case,
                       tags)
        # radii of gyration: compare m*gyr^2 with the inertia it stands for
        sh.check_close("cgmass-gyr", mv * np.asarray(gyr) ** 2 / Isc, np.diag(J) / Isc,
                       256 * EPS, case, tags)
        if not general:
            sh.check_close("cgmass-gyr", m * np.asarray(pgyr) ** 2 / Isc, w / Isc,
                           256 * EPS, case, tags)
        sh.check_equal("cgmass-all6-consistent",
                       bool(np.array_equal(mcg, mcg2) and np.array_equal(dxyz, dxyz2)),
                       True, case, tags)
        if idx % 50 == 0:
            bad = M6.copy()
            bad[0, 4] += 0.1 * abs(bad[0, 0]) + 1.0
            sh.count("mon:cgmass-errors")
            try:
                cb.cgmass(bad)
                sh.violation("cgmass-errors", case, {"accepted": "non-symmetric"}, tags)
            except ValueError:
                pass
            except Exception as e:
                sh.violation("cgmass-errors", case, {"exc": repr(e)[:200]}, tags)


# ======================================================================================
# cbconvert / cbreorder / uset_convert
# ======================================================================================

def own_factors(n, b, L, Mc):
    """(c, d) per matrix DOF for b = boundary DOF (consecutive 6 = one grid, translations
    first) anywhere in an n-DOF CB matrix.  Physical derivation in cb_model."""
    c = np.full(n, 1.0 / (math.sqrt(Mc) * L))
    d = np.full(n, math.sqrt(Mc) * L)
    for j, dof in enumerate(b):
        if j % 6 < 3:
            c[dof], d[dof] = 1.0 / L, Mc * L
        else:
            c[dof], d[dof] = 1.0, Mc * L * L
    return c, d


def run_conv(sh, params):
    from pyyeti import cb
    from pyyeti.nastran import n2p
    cnt, s = params["count"], params["slice"]
    for i in range(cnt):
        idx = s * cnt + i
        r = core.rng(sh.seed, "C06", "conv", idx)
        case = {"kind": "conv", "idx": idx, "seed": sh.seed}
        try:
            _conv_case(sh, cb, n2p, r, idx, case)
        except Exception as e:
            import traceback
            sh.violation("exception:conv", case,
                         {"trace": traceback.format_exc()[-1200:]}, {})


def _conv_case(sh, cb, n2p, r, idx, case):
    ng = int(r.integers(1, 5))
    nb = 6 * ng
    nq = [0, int(r.integers(1, 20))][idx % 5 != 0]
    n = nb + nq
    b = r.permutation(n)[:nb] if idx % 2 else np.sort(r.choice(n, nb, replace=False))
    convs = ["m2e", "e2m", (float(math.exp(r.uniform(-4, 4))),
                            float(math.exp(r.uniform(-4, 4))))]
    conv = convs[idx % 3]
    L, Mc = M2E if conv == "m2e" else (E2M if conv == "e2m" else conv)
    tags = {"conv": conv if isinstance(conv, str) else "numeric", "nq": nq, "ng": ng}
    sh.case(case, True, sample={"case": case, "b": b, "n": n, "conv": conv})
    A = r.standard_normal((n, n))
    m = A @ A.T / n + np.eye(n)
    A = r.standard_normal((n, n))
    k = (A @ A.T / n + 0.5 * np.eye(n)) * 1e3
    c, d = own_factors(n, b, L, Mc)
    with warnings.catch_warnings():
        warnings.simplefilter("ignore")
        # ---- cbconvert ----------------------------------------------------------------
        for X in (m, k):
            keep = X.copy()
            Xc = cb.cbconvert(X, b, conv)
            if not np.array_equal(keep, X):
                sh.violation("cbconvert-mutates-input", case, {}, tags)
            want = X * np.outer(d, c)
            sh.check_close("cbconvert-elementwise", Xc, want, 8 * EPS * np.abs(want), case,
                           tags)
            sym = np.abs(Xc - Xc.T) / (np.abs(Xc) + 1e-300)
            sh.check_close("cbconvert-symmetric", sym, 0 * sym, 16 * EPS, case, tags)
            # inverse conversion
            inv = {"m2e": "e2m", "e2m": "m2e"}.get(conv) if isinstance(conv, str) else (
                1.0 / L, 1.0 / Mc)
            Xb = cb.cbconvert(Xc, b, inv)
            itol = 1e-11 if isinstance(conv, str) else 32 * EPS
            # (the documented string constants are reciprocal to ~6e-13 only)
            sh.check_close("cbconvert-inverse", Xb, X, itol * np.abs(X), case, tags)
        mc, kc = cb.cbconvert(m, b, conv), cb.cbconvert(k, b, conv)
        w0 = sla.eigvalsh(k, m)
        w1 = sla.eigvalsh(0.5 * (kc + kc.T), 0.5 * (mc + mc.T))
        sh.check_close("cbconvert-frequencies", w1 / w0, np.ones(n), 1e-9, case, tags)
        # DRM: recovered items unchanged when x_old = c * x_new
        nr = int(r.integers(1, 9))
        drm = r.standard_normal((nr, n))
        dc = cb.cbconvert(drm, b, conv, drm=True)
        sh.check_close("cbconvert-drm", dc, drm * c[None, :], 8 * EPS * np.abs(drm * c),
                       case, tags)
        xnew = r.standard_normal(n)
        y_old = drm @ (c * xnew)
        y_new = dc @ xnew
        ysc = np.abs(drm) @ np.abs(c * xnew)
        sh.check_close("cbconvert-drm-recovery", y_new / ysc, y_old / ysc, 64 * EPS * n,
                       case, tags)
        # ---- cbreorder ----------------------------------------------------------------
        q = np.setdiff1d(np.arange(n), b)
        for last in (False, True):
            pv = np.r_[q, b] if last else np.r_[b, q]
            P = np.zeros((n, n))
            P[np.arange(n), pv] = 1.0
            Mr = cb.cbreorder(m, b, last=last)
            sh.check_equal("cbreorder-PMPt", np.ascontiguousarray(Mr),
                           np.ascontiguousarray(P @ m @ P.T), case,
                           dict(tags, last=last))
            Dr = cb.cbreorder(drm, b, drm=True, last=last)
            sh.check_equal("cbreorder-drm", np.ascontiguousarray(Dr),
                           np.ascontiguousarray(drm @ P.T), case, dict(tags, last=last))
            # undo: in the reordered matrix the old DOF j sits at position ipv[j]
            ipv = np.empty(n, int)
            ipv[pv] = np.arange(n)
            # a b-vector that, with the same `last`, restores the original order exists
            # only if the original had b leading/trailing; the general inverse is a second
            # reorder with b2 = positions of ALL old DOF, taken as one big b-set
            Mb = cb.cbreorder(Mr, ipv, last=last)
            sh.check_equal("cbreorder-inverse", np.ascontiguousarray(Mb),
                           np.ascontiguousarray(m), case, dict(tags, last=last))
            # b first -> b last and back (the documented `last` switch)
            if not last and nq:
                M_last = cb.cbreorder(Mr, np.arange(nb), last=True)
                M_first = cb.cbreorder(M_last, nq + np.arange(nb), last=False)
                sh.check_equal("cbreorder-last-roundtrip", np.ascontiguousarray(M_first),
                               np.ascontiguousarray(Mr), case, tags)
                want_last = Mr[np.ix_(np.r_[nb + np.arange(nq), np.arange(nb)],
                                      np.r_[nb + np.arange(nq), np.arange(nb)])]
                sh.check_equal("cbreorder-last", np.ascontiguousarray(M_last),
                               np.ascontiguousarray(want_last), case, tags)
        # reorder and convert commute
        X1 = cb.cbreorder(cb.cbconvert(m, b, conv), b)
        X2 = cb.cbconvert(cb.cbreorder(m, b), np.arange(nb), conv)
        sh.check_close("convert-reorder-commute", X1, X2, 8 * EPS * np.abs(X1), case, tags)
    # ---- errors ---------------------------------------------------------------------
    if idx % 10 == 0:
        sh.count("mon:convert-errors")
        probes = [lambda: cb.cbconvert(m, b[:-1], conv),
                  lambda: cb.cbconvert(drm, b, conv),
                  lambda: cb.cbreorder(drm, b)]
        if nr == n:
            probes = probes[:1]
        for p in probes:
            try:
                with warnings.catch_warnings():
                    warnings.simplefilter("ignore")
                    p()
                sh.violation("convert-errors", case, {"accepted": True}, tags)
            except ValueError:
                pass
            except Exception as e:
                sh.violation("convert-errors", case, {"exc": repr(e)[:200]}, tags)
        # b not a multiple of 6: cbreorder warns but still permutes
        bb = b[:-1] if nb > 1 else b
        with warnings.catch_warnings(record=True) as wl:
            warnings.simplefilter("always")
            Mr = cb.cbreorder(m, bb)
        pv = np.r_[bb, np.setdiff1d(np.arange(n), bb)]
        sh.check_equal("cbreorder-PMPt", np.ascontiguousarray(Mr),
                       np.ascontiguousarray(m[np.ix_(pv, pv)]), case, tags)
        sh.check_equal("cbreorder-warns", any(issubclass(w.category, RuntimeWarning)
                                              for w in wl), True, case, tags)
    # ---- mass properties scale by the documented factors (small physical model) -------
    if idx % 3 == 0:
        _massprops_case(sh, cb, n2p, r, idx, conv, L, Mc, case, tags)


def _massprops_case(sh, cb, n2p, r, idx, conv, L, Mc, case, tags):
    nn = int(r.integers(6, 9))
    mdl = cm.random_model(r, nn)
    nbg = int(r.integers(1, 3))
    bnodes = r.choice(nn, nbg, replace=False)
    bdof = np.concatenate([np.arange(6 * g, 6 * g + 6) for g in bnodes])
    cbm = cm.craig_bampton(mdl.M, mdl.K, bdof, int(r.integers(0, 10)))
    nb, n = cbm["nb"], cbm["nb"] + cbm["nq"]
    lay = r.permutation(n)
    M0 = np.zeros((n, n))
    M0[np.ix_(lay, lay)] = cbm["m"]
    b = lay[:nb]
    ref = mdl.xyz[bnodes[0]]
    rb_old = np.zeros((n, 6))
    rb_old[b] = mdl.rb(ref)[bdof]
    rb_new = np.zeros((n, 6))
    rb_new[b] = cm.rb_basic(mdl.xyz[bnodes] * L, ref * L)
    with warnings.catch_warnings():
        warnings.simplefilter("ignore")
        Mc_ = cb.cbconvert(M0, b, conv)
        m6o = rb_old.T @ M0 @ rb_old
        m6n = rb_new.T @ Mc_ @ rb_new
        mo = cb.cgmass(0.5 * (m6o + m6o.T), all6=True)
        mn = cb.cgmass(0.5 * (m6n + m6n.T), all6=True)
    mt = mdl.total_mass()
    D = float(np.linalg.norm(mdl.cg() - ref) + mdl.size)
    # truth in new units: mass x Mc, cg x L, inertia x Mc L^2, gyration x L
    dT = (mdl.cg() - ref)
    JT = mdl.inertia_about(mdl.cg())
    got = np.r_[np.diag(mn[0])[:3] / (mt * Mc), mn[1] / (D * L),
                (mn[4] / (mt * Mc * D * D * L * L)).ravel(), mn[2] / (D * L)]
    wnt = np.r_[np.ones(3), dT / D, (JT / (mt * D * D)).ravel(),
                np.sqrt(np.diag(JT) / mt) / D]
    sh.check_close("cbconvert-massprops", got, wnt, 1e-10, case, tags)
    # and the unconverted ones are the physical ones
    got0 = np.r_[np.diag(mo[0])[:3] / mt, mo[1] / D, (mo[4] / (mt * D * D)).ravel()]
    sh.check_close("cbconvert-massprops", got0, wnt[:15], 1e-10, case, tags)
    # uset_convert: grid locations and coordinate-system origins scale, nothing else
    ct = int(r.integers(1, 4))
    c = cm.random_cord(r, ct, 9, mdl.size, ref)
    co = np.vstack([[c["cid"], c["type"], 0], c["A"], c["B"], c["C"]])
    uset = n2p.addgrid(None, [11, 12], "b", 0, [ref, ref + 1.0], [0, co])
    keep = uset.values.copy()
    refpt = r.standard_normal(3)
    uc, rc = cb.uset_convert(uset, refpt, conv)
    want = keep.copy()
    for g0 in (0, 6):
        want[g0, 1:] *= L
        want[g0 + 2, 1:] *= L
    sh.check_close("uset-convert", uc.values.astype(float), want, 4 * EPS * np.abs(want),
                   case, tags)
    sh.check_close("uset-convert", np.asarray(rc, float), refpt * L,
                   4 * EPS * np.abs(refpt * L), case, tags)
    sh.check_equal("uset-convert-input-untouched", bool(np.array_equal(uset.values, keep)),
                   True, case, tags)
    u2, r2 = cb.uset_convert(uset, 11, conv)
    sh.check_equal("uset-convert-id-ref", r2, 11, case, tags)
