"""C05 -- rainflow: c_rain (built from the tree, plain + ASan/UBSan, both macro
variants) == py_rain (plain and via the numba-decorated definition under an identity
stub) == ASTM E1049-85 transcription; invariants; metamorphic relations; refcounts.
"""
import importlib.machinery
import importlib.util
import itertools
import os
import re
import subprocess
import sys
import sysconfig
import types

from vf import core

ID = "C05"
LEVEL = "exploration"
RULE = ("sequences = exhaustive words over small integer alphabets (ties, plateaus, "
        "monotone runs, non-alternating) + seeded random integer/real sequences, "
        "spirals, sawtooth, extreme magnitudes, odd input containers; each executed on "
        "4 builds of c_rain.c from the working tree (2 macro variants x {gcc -O2, clang "
        "ASan+UBSan}), py_rain, py_rain under a numba identity stub, and the ASTM "
        "transcription, with and without offsets.  distinct = distinct (sequence) "
        "digests; non-trivial = length >= 3 and not constant")
ASSUMPTIONS = [
    "ASTM E1049-85 5.4.4 is represented by vf/oracles/astm_rainflow.py (checked on "
    "the standard's worked example at every run)",
    "numba is not installed: the numba-decorated definitions are executed as plain "
    "Python under an identity stub; JIT code generation is not observed",
    "ASan/UBSan instrument c_rain.c only; CPython and NumPy are uninstrumented",
]
MIN_NONTRIVIAL = {"quick": 20000, "thorough": 150000}
TIMEOUT = {"quick": 900, "thorough": 7200}

# extra workload (never deciding): invariant monitors on the repository's own tests
AMBIENT = {"tests": ["test_cyclecount.py", "test_fdepsd.py"],
           "monitors": ["rainflow", "findap"], "quick": False}

VARIANTS = ["fast-gcc", "fast-asan", "lowmem-gcc", "lowmem-asan"]
ASAN_RT = "/usr/lib/llvm-14/lib/clang/14.0.6/lib/linux/libclang_rt.asan-x86_64.so"


def _asan_rt():
    try:
        p = subprocess.run(["clang", "-print-file-name=libclang_rt.asan-x86_64.so"],
                           capture_output=True, text=True).stdout.strip()
        if os.path.exists(p):
            return p
    except Exception:
        pass
    return ASAN_RT


def prepare(tier, seed):
    """Compile c_rain.c from the tree under test, four ways, into /verif/.build."""
    import numpy
    src = os.path.join(core.REPO, "pyyeti", "rainflow", "c_rain.c")
    text = open(src).read()
    inc = ["-I" + sysconfig.get_paths()["include"], "-I" + numpy.get_include()]
    suffix = sysconfig.get_config_var("EXT_SUFFIX")
    for v in VARIANTS:
        d = os.path.join(core.BUILD, "c05", v)
        os.makedirs(d, exist_ok=True)
        csrc = os.path.join(d, "c_rain.c")
        t = text
        if v.startswith("lowmem"):
            t, n = re.subn(r"(?m)^#define USE_FASTER_RAINFLOW_ROUTINE\s*$",
                           "/* macro removed by vf build */", t)
            if n != 1:
                raise RuntimeError("USE_FASTER_RAINFLOW_ROUTINE define not found")
        open(csrc, "w").write(t)
        out = os.path.join(d, "c_rain" + suffix)
        if v.endswith("asan"):
            cmd = ["clang", "-O1", "-g", "-fno-omit-frame-pointer",
                   "-fsanitize=address,undefined", "-fno-sanitize-recover=all",
                   "-shared", "-fPIC", "-shared-libasan"] + inc + [csrc, "-o", out]
        else:
            cmd = ["gcc", "-O2", "-g", "-shared", "-fPIC"] + inc + [csrc, "-o", out]
        p = subprocess.run(cmd, capture_output=True, text=True)
        if p.returncode != 0:
            raise RuntimeError(f"build {v} failed:\n{p.stderr[-3000:]}")


def shards(tier, seed):
    out = []
    nslice = 4 if tier == "quick" else 8
    for v in VARIANTS:
        for s in range(nslice):
            p = {"variant": v, "slice": s, "nslice": nslice}
            if v.endswith("asan"):
                p["_env"] = {
                    "LD_PRELOAD": _asan_rt(),
                    "ASAN_OPTIONS": "detect_leaks=0:halt_on_error=1:abort_on_error=1:"
                                    "allocator_may_return_null=1",
                    "UBSAN_OPTIONS": "halt_on_error=1:print_stacktrace=1"}
            out.append(p)
    return out


def on_shard_death(o):
    """A shard that dies (ASan abort, UBSan, segfault) is a violation for C05."""
    err = o["stderr"] or ""
    r = o["res"]
    if r is not None and "crash" in r:
        # ordinary Python exception inside the harness/pyyeti: report as violation too
        return {"kind": "shard-exception", "case": o["params"],
                "detail": r["crash"][-2000:], "tags": {}}
    if o["rc"] == "timeout":
        return None
    m = re.search(r"(ERROR: AddressSanitizer[^\n]*|runtime error:[^\n]*)", err)
    kind = "sanitizer-report" if m else "abnormal-exit"
    return {"kind": kind, "case": o["params"],
            "detail": {"rc": o["rc"], "report": (m.group(0) if m else ""),
                       "stderr_tail": err[-3000:]}, "tags": {}}


# ------------------------------------------------------------------------------------

def _load_c(variant):
    d = os.path.join(core.BUILD, "c05", variant)
    path = os.path.join(d, "c_rain" + sysconfig.get_config_var("EXT_SUFFIX"))
    loader = importlib.machinery.ExtensionFileLoader("c_rain", path)
    spec = importlib.util.spec_from_file_location("c_rain", path, loader=loader)
    mod = importlib.util.module_from_spec(spec)
    loader.exec_module(mod)
    return mod


def _load_py_numba_stub():
    """py_rain source from the tree, executed with a stub ``numba`` so that the
    ``numba.jit(...)(f)`` lines run (identity decorator)."""
    calls = []
    stub = types.ModuleType("numba")

    def jit(*a, **k):
        def deco(f):
            calls.append(f.__name__)
            return f
        return deco
    stub.jit = stub.njit = jit
    stub.types = types.SimpleNamespace(bool_=bool)
    path = os.path.join(core.REPO, "pyyeti", "rainflow", "py_rain.py")
    saved = sys.modules.get("numba")
    sys.modules["numba"] = stub
    try:
        spec = importlib.util.spec_from_file_location("vf_py_rain_numba", path)
        mod = importlib.util.module_from_spec(spec)
        spec.loader.exec_module(mod)
    finally:
        if saved is None:
            del sys.modules["numba"]
        else:
            sys.modules["numba"] = saved
    return mod, calls


def _sequences(sh, params, tier):
    """Yield (family, sequence-as-list-or-array).  Slices partition the workload."""
    import numpy as np
    s, ns = params["slice"], params["nslice"]
    idx = 0
    # -- exhaustive small alphabets ---------------------------------------------
    plans = [(3, 9), (2, 12), (4, 6)] if tier == "quick" else [(3, 11), (5, 7), (2, 15), (4, 8)]
    for nsym, maxlen in plans:
        for L in range(2, maxlen + 1):
            for w in itertools.product(range(nsym), repeat=L):
                idx += 1
                if idx % ns == s:
                    yield f"exh{nsym}", list(w)
    # -- random families ---------------------------------------------------------
    r = core.rng(sh.seed, "C05", "rand", s)
    nrand = 700 if tier == "quick" else 12000
    for i in range(nrand):
        fam = i % 10
        L = int(r.integers(2, 60)) if i % 7 else int(r.integers(60, 600))
        if fam == 0:
            x = r.integers(-4, 5, L).astype(float)
        elif fam == 1:
            x = r.standard_normal(L)
        elif fam == 2:   # strictly alternating reversals
            x = np.cumsum(r.random(L) + 0.01) * 0
            a = r.random(L) * 10 + 0.1
            x = np.where(np.arange(L) % 2 == 0, a, -a)
        elif fam == 3:   # diverging spiral: all half cycles
            x = np.arange(1, L + 1) * np.where(np.arange(L) % 2 == 0, 1.0, -1.0)
        elif fam == 4:   # converging spiral: mostly full cycles at the end
            x = np.arange(L, 0, -1) * np.where(np.arange(L) % 2 == 0, 1.0, -1.0)
        elif fam == 5:   # equal-range sawtooth (X == Y ties everywhere)
            x = np.where(np.arange(L) % 2 == 0, 1.0, -1.0) * float(r.integers(1, 9))
        elif fam == 6:   # huge / tiny magnitudes
            x = r.standard_normal(L) * 10.0 ** float(r.integers(-300, 300))
        elif fam == 7:   # random walk on coarse grid with plateaus
            x = np.cumsum(r.integers(-1, 2, L)).astype(float)
        elif fam == 8:   # spiral out then in (ends in nested full cycles)
            h = L // 2
            m = np.concatenate([np.arange(1, h + 1), np.arange(L - h, 0, -1)])
            x = m * np.where(np.arange(L) % 2 == 0, 1.0, -1.0)
        else:            # quantised noise + offset
            x = np.round(r.standard_normal(L) * 3) + float(r.integers(-5, 6)) * 1e6
        yield f"rand{fam}", x
    # -- long sequences ------------------------------------------------------------
    nlong = 2 if tier == "quick" else 6
    for i in range(nlong):
        L = int(r.integers(20000, 100001))
        if i % 2:
            x = r.standard_normal(L)
        else:
            x = np.arange(1, L + 1) * np.where(np.arange(L) % 2 == 0, 1.0, -1.0)
        yield "long", x


def _astm_tables(seq):
    import numpy as np
    from vf.oracles import astm_rainflow
    cyc = astm_rainflow.rainflow(seq)
    rf = np.array([[c[0], c[1], c[2]] for c in cyc], dtype=float).reshape(-1, 3)
    os_ = np.array([[c[3], c[4]] for c in cyc], dtype=np.int64).reshape(-1, 2)
    return rf, os_


def run_shard(sh, params):
    import numpy as np
    from vf.oracles import astm_rainflow
    if not astm_rainflow.selfcheck():
        raise RuntimeError("ASTM transcription fails the standard's worked example")
    variant = params["variant"]
    crain = _load_c(variant)
    import pyyeti.rainflow.py_rain as py_rain
    nb_rain, nb_calls = _load_py_numba_stub()
    if sorted(nb_calls) != ["_rainflow1", "_rainflow2"]:
        sh.violation("numba-decoration-missing", params, {"decorated": nb_calls})
    sh.count("build:" + variant)
    tier = sh.tier

    held = {}          # results of the previous sequence: (references, copies)
    for fam, seq in _sequences(sh, params, tier):
        x = np.asarray(seq, dtype=float)
        L = x.size
        x_keep = x.copy()
        case = {"variant": variant, "family": fam,
                "seq": x.tolist() if L <= 40 else
                {"len": int(L), "sha": core.digest(x.tolist())}}
        tags = {"variant": variant, "family": fam}
        nontrivial = L >= 3 and bool(np.ptp(x) > 0)
        sh.case(x.tolist() if L <= 200 else core.digest(x.tolist()), nontrivial,
                sample=case)
        sh.count("family:" + fam.rstrip("0123456789"))
        want_rf, want_os = _astm_tables(x)

        # C (no offsets / offsets), python, python-via-stub
        impls = {}
        impls["c"] = (crain.rainflow(x), *crain.rainflow(x, getoffsets=True))
        if L <= 3000 or fam == "long" and params["slice"] == 0 and variant == "fast-gcc":
            impls["py"] = (py_rain.rainflow(x), *py_rain.rainflow(x, getoffsets=True))
        if L <= 300:
            impls["py-numba-stub"] = (nb_rain.rainflow(x),
                                      *nb_rain.rainflow(x, getoffsets=True))
        # call history: tables handed out for the PREVIOUS sequence must not have changed
        # while this one was counted (results that are views of a reused work buffer), and
        # the record itself must come back untouched
        sh.count("mon:earlier-results-unmutated")
        for name, (refs, copies, pcase) in held.items():
            if any(np.asarray(a).tobytes() != b.tobytes() for a, b in zip(refs, copies)):
                sh.violation("earlier-results-unmutated", pcase, {"impl": name}, tags)
        held = {name: (res, [np.array(a, copy=True) for a in res], case)
                for name, res in impls.items() if L <= 3000}
        sh.check_equal("input-unmutated", bool(x.tobytes() == x_keep.tobytes()), True,
                       case, tags)
        for name, (rf1, rf2, os2) in impls.items():
            sh.check_equal(f"{name}-vs-astm-table", np.asarray(rf1, float), want_rf,
                           case, tags)
            sh.check_equal(f"{name}-offsets-call-table", np.asarray(rf2, float),
                           want_rf, case, tags)
            sh.check_equal(f"{name}-vs-astm-offsets",
                           np.asarray(os2).astype(np.int64), want_os, case, tags)
        rf, os_ = impls["c"][1], np.asarray(impls["c"][2]).astype(np.int64)

        # -- invariants on the C output (independent of the ASTM transcription) ----
        sh.count("mon:invariants")
        if rf.shape[0] != os_.shape[0] or rf.shape[1:] != (3,):
            sh.violation("shape", case, {"rf": rf.shape, "os": os_.shape}, tags)
            continue
        cnt = rf[:, 2]
        if not np.all((cnt == 0.5) | (cnt == 1.0)):
            sh.violation("count-values", case, {"counts": cnt}, tags)
        if 2 * cnt.sum() != L - 1:
            sh.violation("conservation", case, {"2*sum": 2 * cnt.sum(), "L-1": L - 1},
                         tags)
        a, b = x[os_[:, 0]], x[os_[:, 1]]
        if not (np.array_equal(rf[:, 0], np.abs(a - b) / 2)
                and np.array_equal(rf[:, 1], (a + b) / 2)):
            sh.violation("amp-mean-from-offsets", case, {"rf": rf, "os": os_}, tags)
        if not np.all(os_[:, 0] < os_[:, 1]):
            sh.violation("offset-order", case, {"os": os_}, tags)
        d = np.diff(x)
        alternating = L >= 2 and np.all(d != 0) and (L < 3 or np.all(d[1:] * d[:-1] < 0))
        if alternating:
            sh.count("mon:largest-range")
            if rf[:, 0].max() != np.ptp(x) / 2:
                sh.violation("largest-range", case, {"max_amp": rf[:, 0].max(),
                                                     "ptp/2": np.ptp(x) / 2}, tags)

        # -- metamorphic relations (C build) ----------------------------------------
        if L <= 600:
            sh.count("mon:metamorphic")
            n = crain.rainflow(-x)
            if not (np.array_equal(n[:, 0], rf[:, 0]) and np.array_equal(n[:, 1], -rf[:, 1])
                    and np.array_equal(n[:, 2], rf[:, 2])):
                sh.violation("negate", case, {"neg": n, "rf": rf}, tags)
            for alpha in (2.0, 0.25):
                s = crain.rainflow(alpha * x)
                ok = np.all(np.isfinite(alpha * x))
                if ok and not (np.array_equal(s[:, 0], alpha * rf[:, 0])
                               and np.array_equal(s[:, 1], alpha * rf[:, 1])
                               and np.array_equal(s[:, 2], rf[:, 2])):
                    # under/overflow to subnormals can legitimately change ties
                    tiny = np.abs(x[x != 0]).min() if np.any(x != 0) else 1.0
                    if tiny > 1e-290 and np.abs(x).max() < 1e290:
                        sh.violation("scale-pow2", case, {"alpha": alpha}, tags)
            if np.all(x == np.round(x)) and np.abs(x).max() < 2 ** 40:
                c = 7.0
                s = crain.rainflow(x + c)
                if not (np.array_equal(s[:, 0], rf[:, 0])
                        and np.array_equal(s[:, 1], rf[:, 1] + c)
                        and np.array_equal(s[:, 2], rf[:, 2])):
                    sh.violation("shift-int", case, {"c": c}, tags)

    _containers_and_errors(sh, crain, py_rain, variant)
    _refcounts(sh, crain, variant)
    if params["slice"] == 0:
        _cyclecount_wrapper(sh, crain, variant)


def _containers_and_errors(sh, crain, py_rain, variant):
    import numpy as np
    base = np.array([-2, 1, -3, 5, -1, 3, -4, 4, -2], dtype=float)
    want_rf, want_os = _astm_tables(base)
    tags = {"variant": variant, "family": "container"}
    big = np.zeros(40)
    big[::4][:9] = base
    forms = {
        "list": base.tolist(), "tuple": tuple(base.tolist()),
        "int64": base.astype(np.int64), "int8": base.astype(np.int8),
        "float32": base.astype(np.float32), "strided": big[::4][:9],
        "reversed-view": base[::-1][::-1], "fortran-2d-col": np.asfortranarray(
            np.stack([base, base], 1))[:, 0],
        "byteswapped": base.astype(">f8"), "readonly": _ro(base),
        "bool-list": None,
    }
    for name, inp in forms.items():
        if inp is None:
            continue
        sh.case(["container", name, variant], True)
        for f, nm in ((crain.rainflow, "c"), (py_rain.rainflow, "py")):
            rf, os_ = f(inp, getoffsets=True)
            sh.check_equal(f"{nm}-container-table", np.asarray(rf, float), want_rf,
                           {"container": name}, tags)
            sh.check_equal(f"{nm}-container-offsets", np.asarray(os_).astype(np.int64),
                           want_os, {"container": name}, tags)
            rf1 = f(inp)
            sh.check_equal(f"{nm}-container-table", np.asarray(rf1, float), want_rf,
                           {"container": name}, tags)
    # narrow dtypes over their whole range: ranges are formed in double precision, whatever
    # the input's own arithmetic would do (unsigned wrap-around, int8 overflow, float32 /
    # float16 rounding of differences)
    rr = core.rng(sh.seed, "C05", "dtype", variant)
    for dt, lo, hi in (("uint8", 0, 255), ("uint16", 0, 65535), ("int8", -128, 127),
                       ("int16", -32768, 32767), ("int32", -2**31, 2**31 - 1),
                       ("uint32", 0, 2**32 - 1), ("float32", None, None),
                       ("float16", None, None)):
        for rep in range(6 if sh.tier == "quick" else 60):
            n = int(rr.integers(4, 40))
            if lo is None:
                raw = (rr.standard_normal(n) * 10.0 ** rr.integers(-3, 4)).astype(dt)
                if not np.all(np.isfinite(raw)):
                    continue
            else:
                raw = rr.integers(lo, hi, n, endpoint=True).astype(dt)
                if rep % 2:
                    raw[rr.integers(0, n, 3)] = [lo, hi, lo]
            x64 = raw.astype(np.float64)
            if np.any(np.diff(x64) == 0):
                keep = np.concatenate([[True], np.diff(x64) != 0])
                raw, x64 = raw[keep], x64[keep]
            if raw.size < 3:
                continue
            w_rf, w_os = _astm_tables(x64)
            sh.case(["dtype", dt, variant, rep, raw.tolist()], True)
            sh.count("cell:dtype:" + dt)
            for f, nm in ((crain.rainflow, "c"), (py_rain.rainflow, "py")):
                rf, os_ = f(raw, getoffsets=True)
                sh.check_equal(f"{nm}-dtype-table", np.asarray(rf, float), w_rf,
                               {"dtype": dt, "peaks": raw.tolist()}, tags)
                sh.check_equal(f"{nm}-dtype-offsets", np.asarray(os_).astype(np.int64),
                               w_os, {"dtype": dt, "peaks": raw.tolist()}, tags)
                sh.check_equal(f"{nm}-dtype-table", np.asarray(f(raw), float), w_rf,
                               {"dtype": dt, "peaks": raw.tolist()}, tags)
    bad = {"scalar": 3.0, "len1": [1.0], "empty": [], "2d": np.ones((3, 3)),
           "2d-1col": np.ones((4, 1)), "strings": ["a", "b", "c"],
           "none": None, "complex": [1 + 2j, 3.0, 1.0], "ragged": [[1, 2], [3]],
           "dict": {"a": 1}}
    for name, inp in bad.items():
        for getoff in (False, True):
            sh.count("mon:bad-input")
            try:
                crain.rainflow(inp, getoffsets=getoff)
            except (ValueError, TypeError):
                continue
            except Exception as e:
                sh.violation("bad-input-wrong-exception", {"input": name},
                             {"exc": repr(e)}, tags)
                continue
            sh.violation("bad-input-accepted", {"input": name, "getoffsets": getoff},
                         {}, tags)


def _ro(a):
    b = a.copy()
    b.setflags(write=False)
    return b


def _refcounts(sh, crain, variant):
    """What red-zone tools miss at the CPython boundary: leaked references."""
    import gc
    import numpy as np
    tags = {"variant": variant, "family": "refcount"}
    x = np.array([-2, 1, -3, 5, -1, 3, -4, 4, -2], dtype=float)
    xi = x.astype(np.int64)       # forces a converted temporary
    lst = x.tolist()
    full = np.array([0, 10, 4, 6, 4, 6, 4, 6, 0], float)   # takes the slicing branch
    for name, inp in (("float", x), ("int", xi), ("list", lst), ("full", full)):
        for getoff in (False, True):
            gc.collect()
            before = sys.getrefcount(inp)
            keep = [crain.rainflow(inp, getoffsets=getoff) for _ in range(50)]
            mid = sys.getrefcount(inp)
            del keep
            gc.collect()
            after = sys.getrefcount(inp)
            sh.count("mon:refcount")
            if after != before or mid != before:
                sh.violation("refcount-input", {"input": name, "getoffsets": getoff},
                             {"before": before, "during": mid, "after": after}, tags)
    # returned objects own their memory and are not kept alive by the module
    rf, os_ = crain.rainflow(full, getoffsets=True)
    sh.count("mon:refcount")
    ref = np.empty((3, 3))
    want = sys.getrefcount(ref)
    if sys.getrefcount(rf) != want or sys.getrefcount(os_) != want:
        sh.violation("refcount-result", {},
                     {"rf": sys.getrefcount(rf), "os": sys.getrefcount(os_),
                      "fresh-array": want}, tags)
    # error paths must not leak the converted input
    bad = np.ones((3, 3))
    before = sys.getrefcount(bad)
    for _ in range(200):
        try:
            crain.rainflow(bad)
        except ValueError:
            pass
    sh.count("mon:refcount")
    if sys.getrefcount(bad) != before:
        sh.violation("refcount-error-path", {}, {"before": before,
                                                 "after": sys.getrefcount(bad)}, tags)
    # memory plateau over many calls (leak of result buffers / work arrays)
    if "asan" not in variant:
        import resource
        big = np.where(np.arange(20000) % 2 == 0, 1.0, -1.0) * np.arange(20000)
        for _ in range(30):
            crain.rainflow(big, getoffsets=True)
        r0 = resource.getrusage(resource.RUSAGE_SELF).ru_maxrss
        for _ in range(300):
            crain.rainflow(big, getoffsets=True)
            crain.rainflow(big)
        r1 = resource.getrusage(resource.RUSAGE_SELF).ru_maxrss
        sh.count("mon:rss-plateau")
        # 300 leaked calls would be >= 300*20000*8*3 bytes = 144 MB
        if (r1 - r0) > 60000:   # kB
            sh.violation("rss-growth", {"calls": 600}, {"kB_before": r0, "kB_after": r1},
                         tags)


def _cyclecount_wrapper(sh, crain, variant):
    """cyclecount.rainflow on top of the freshly built module (not the stale .so)."""
    import numpy as np
    import pandas as pd
    pkg = importlib.import_module("pyyeti.rainflow")
    saved = sys.modules.get("pyyeti.rainflow.c_rain")
    sys.modules["pyyeti.rainflow.c_rain"] = crain
    pkg.c_rain = crain
    sys.modules.pop("pyyeti.cyclecount", None)
    try:
        cc = importlib.import_module("pyyeti.cyclecount")
        tags = {"variant": variant, "family": "cyclecount"}
        if cc.rain is not crain:
            sh.violation("cyclecount-not-using-built-module", {}, {"rain": repr(cc.rain)},
                         tags)
        r = core.rng(sh.seed, "C05", "cc")
        for i in range(60):
            x = r.integers(-5, 6, int(r.integers(2, 40))).astype(float)
            want_rf, want_os = _astm_tables(x)
            sh.case(["cyclecount", x.tolist()], x.size >= 3 and np.ptp(x) > 0)
            case = {"seq": x.tolist(), "via": "cyclecount.rainflow"}
            df = cc.rainflow(x)
            sh.check_equal("cyclecount-pandas", isinstance(df, pd.DataFrame)
                           and list(df.columns) == ["amp", "mean", "count"], True,
                           case, tags)
            sh.check_equal("cyclecount-table", df.values.astype(float), want_rf, case,
                           tags)
            rf, os_ = cc.rainflow(x, getoffsets=True)
            sh.check_equal("cyclecount-table", rf.values.astype(float), want_rf, case,
                           tags)
            sh.check_equal("cyclecount-offsets", os_.values.astype(np.int64), want_os,
                           case, tags)
            sh.check_equal("cyclecount-offset-cols", list(os_.columns),
                           ["start", "stop"], case, tags)
            rf, os_ = cc.rainflow(x, getoffsets=True, use_pandas=False)
            sh.check_equal("cyclecount-table", np.asarray(rf, float), want_rf, case,
                           tags)
            sh.check_equal("cyclecount-offsets", np.asarray(os_).astype(np.int64),
                           want_os, case, tags)
    finally:
        sys.modules.pop("pyyeti.cyclecount", None)
        if saved is not None:
            sys.modules["pyyeti.rainflow.c_rain"] = saved
        else:
            sys.modules.pop("pyyeti.rainflow.c_rain", None)


def finalize(agg, tier):
    why = []
    c = agg["counters"]
    for v in VARIANTS:
        if not c.get("build:" + v):
            why.append(f"build {v} never executed")
    for k in ("c-vs-astm-table", "py-vs-astm-table", "py-numba-stub-vs-astm-table",
              "c-vs-astm-offsets", "invariants", "largest-range", "metamorphic",
              "refcount", "bad-input"):
        if not c.get("mon:" + k):
            why.append(f"monitor {k} never evaluated")
    return why


def evidence_extra(agg, tier):
    c = agg["counters"]
    return {"sanitizer_builds_executed": sorted(k[6:] for k in c if k.startswith("build:")
                                                and k.endswith("asan")),
            "sanitizer_reports": c.get("violation:sanitizer-report", 0),
            "abnormal_exits": c.get("violation:abnormal-exit", 0)}
