"""C06, cbcheck part: models from vf.oracles.cb_model through cb.cbcheck, cb.cbcoordchk,
cb.rbdispchk, cb.rbmultchk.  Helper of vf/props/c06.py (not a property module)."""
import io
import itertools
import math
import types
import warnings

import numpy as np
import scipy.linalg as sla

from vf import core
from vf.oracles import cb_model as cm

EPS = 2.220446049250313e-16
M2E = (1 / 0.0254, 0.005710147154735817)      # documented table in cb.cbconvert
E2M = (0.0254, 175.12683524637913)
NQ_REGIME = ["all", "few", "some", "some", "few", "all", "some", "few"]


# ======================================================================================
# case construction (everything derives from (seed, g))
# ======================================================================================

def conv_factors(conv):
    if conv is None:
        return 1.0, 1.0
    if conv == "m2e":
        return M2E
    if conv == "e2m":
        return E2M
    return float(conv[0]), float(conv[1])


def _perm(r, nbg, kind):
    idt = list(range(nbg))
    if nbg == 1 or kind in ("sorted",):
        return idt
    if kind == "reversed":
        return idt[::-1]
    if kind == "swap":
        i, j = r.choice(nbg, 2, replace=False)
        p = idt[:]
        p[i], p[j] = p[j], p[i]
        return p
    if kind == "cycle" and nbg >= 3:
        if nbg == 4 and r.random() < 0.5:       # a 3-cycle inside 4 grids
            keep = int(r.integers(0, 4))
            rest = [i for i in idt if i != keep]
            rot = rest[1:] + rest[:1]
            p = idt[:]
            for a, b in zip(rest, rot):
                p[a] = b
            return p
        k = int(r.integers(1, nbg))
        p = idt[k:] + idt[:k]
        if nbg == 4 and k == 2:                  # rotation by 2 of 4 is an involution
            p = idt[1:] + idt[:1]
        return p
    return idt


def perm_class(p):
    n = len(p)
    if list(p) == list(range(n)):
        return "sorted"
    inv = all(p[p[i]] == i for i in range(n))
    if not inv:
        return "cycle"
    return "reversed" if list(p) == list(range(n))[::-1] else "swap"


def _blockpos(r, nbg, nq, kind):
    if kind == "first" or nq == 0:
        return [6 * j for j in range(nbg)]
    if kind == "last":
        return [nq + 6 * j for j in range(nbg)]
    # scattered: blocks (kept in order) interleaved with the q DOF; at least one gap
    for _ in range(50):
        cuts = np.sort(r.integers(0, nq + 1, nbg))
        pos = [int(cuts[j]) + 6 * j for j in range(nbg)]
        contiguous_first = pos == [6 * j for j in range(nbg)]
        contiguous_last = pos == [nq + 6 * j for j in range(nbg)]
        if not contiguous_first and not contiguous_last:
            return pos
    return [nq + 6 * j for j in range(nbg)]


class Built:
    pass


def make_cords(r, mdl, bnodes, g):
    cords = []
    for j, nd in enumerate(bnodes):
        if j > 0 and r.random() < 0.3:
            c = cords[j - 1]
            if cm.well_placed(c, mdl.xyz[nd], mdl.size):
                cords.append(c)
                continue
        ct = (g + j) % 3 + 1
        for _ in range(100):
            if ct != 1 and r.random() < 0.3:
                # boundary grid on a quadrant boundary of its own output system
                c = cm.aligned_cord(r, ct, 11 + j, mdl.size, mdl.xyz[nd],
                                    [0.0, 90.0, 180.0, 270.0][int(r.integers(4))])
            else:
                c = cm.random_cord(r, ct, 11 + j, mdl.size, mdl.xyz[nd])
            if cm.well_placed(c, mdl.xyz[nd], mdl.size):
                break
        cords.append(c)
    return cords


def build(r, mdl, bnodes, cords, nq, layout_kind):
    """Reduce the model and lay the CB matrices out as they are handed to pyYeti."""
    B = Built()
    B.mdl, B.bnodes, B.cords = mdl, np.asarray(bnodes, int), cords
    B.triads = [cm.local_triad(c["type"], c["A"], c["axes"], mdl.xyz[nd])
                for c, nd in zip(cords, bnodes)]
    B.Ml, B.Kl, B.Q = cm.to_local(mdl, bnodes, B.triads)
    B.bdof = np.concatenate([np.arange(6 * nd, 6 * nd + 6) for nd in bnodes])
    B.cbm = cm.craig_bampton(B.Ml, B.Kl, B.bdof, nq)
    B.nb, B.nq = B.cbm["nb"], B.cbm["nq"]
    B.n = B.nb + B.nq
    B.nbg = len(bnodes)
    B.layout_kind = layout_kind if B.nq else "first"
    B.blockpos = _blockpos(r, B.nbg, B.nq, B.layout_kind)
    bpos = np.concatenate([np.arange(p, p + 6) for p in B.blockpos])
    qpos = np.setdiff1d(np.arange(B.n), bpos)
    B.lay = np.r_[bpos, qpos]                    # cbm index i sits at matrix index lay[i]
    B.Mcb = np.zeros((B.n, B.n))
    B.Kcb = np.zeros((B.n, B.n))
    B.Mcb[np.ix_(B.lay, B.lay)] = B.cbm["m"]
    B.Kcb[np.ix_(B.lay, B.lay)] = B.cbm["k"]
    B.ids = [101 + 7 * j for j in range(B.nbg)]
    # magnitude of the terms that are added when T'KT is formed (pre-cancellation)
    aT = np.abs(B.cbm["T"])
    B.kabs = aT.T @ np.abs(B.Kl) @ aT
    return B


def make_uset(B, r_in, xyz_override=None):
    """uset of the boundary grids in matrix order via n2p.addgrid; grid locations are
    given either in basic or in the grid's own output system (degrees)."""
    from pyyeti.nastran import n2p
    cin, cout, xyz = [], [], []
    for j, nd in enumerate(B.bnodes):
        c = B.cords[j]
        co = np.vstack([[c["cid"], c["type"], 0], c["A"], c["B"], c["C"]])
        x = B.mdl.xyz[nd] if xyz_override is None else xyz_override[j]
        if r_in[j]:
            cin.append(co)
            xyz.append(cm.coords_in_system(c["type"], c["A"], c["axes"], x))
        else:
            cin.append(0)
            xyz.append(x)
        cout.append(co)
    return n2p.addgrid(None, B.ids, "b", cin, xyz, cout)


def random_options(r, B, conv, force=None):
    force = force or {}
    o = types.SimpleNamespace()
    o.perm = force.get("perm", list(range(B.nbg)))
    o.pclass = perm_class(o.perm)
    o.reorder = True
    if o.pclass == "sorted" and r.random() < (0.5 if B.layout_kind == "first" else 0.25):
        o.reorder = False
    if "reorder" in force:
        o.reorder = force["reorder"]
    o.bseto = np.concatenate([np.arange(B.blockpos[j], B.blockpos[j] + 6)
                              for j in o.perm])
    # normalisation first: an explicit rb_norm=False is only meaningful (docstring of
    # `bref`) for the 6 DOF of one grid in their natural order
    u = r.random()
    o.rb_norm = None if u < 0.6 else (True if u < 0.85 else False)
    if "rb_norm" in force:
        o.rb_norm = force["rb_norm"]
    # reference DOF
    spread = B.nbg >= 2 and r.random() < 0.4 and o.rb_norm is not False
    if force.get("bref_kind") == "grid":
        spread = False
    if force.get("bref_kind") == "spread" and o.rb_norm is not False:
        spread = True
    o.gref = int(force.get("gref", r.integers(0, B.nbg)))
    if spread:
        o.bref_kind = "spread"
        o.bref = _spread_bref(r, B, force.get("exclude_grids", ()))
        if o.bref is None:
            spread = False
    if not spread:
        o.bref_kind = "grid"
        o.bref = np.arange(B.blockpos[o.gref], B.blockpos[o.gref] + 6)
    if spread and o.rb_norm is None:
        # the automatic rule only recognises NON-contiguous reference DOF; a spread set
        # that happens to be contiguous needs rb_norm=True (docstring of `bref`)
        where = (np.array([list(o.bseto).index(x) for x in o.bref]) if o.reorder
                 else np.asarray(o.bref))
        if np.all(np.diff(np.sort(where)) == 1):
            o.rb_norm = True
    o.bref_shuffled = bool(r.random() < 0.5) and o.rb_norm is not False
    if o.bref_shuffled:
        o.bref = r.permutation(o.bref)
    u = r.random()
    if u < 0.4:
        o.uref_kind = "id"
        o.uref_grid = int(r.integers(0, B.nbg))
        o.uref = B.ids[o.uref_grid]
    elif u < 0.85:
        o.uref_kind = "vec"
        o.uref = (B.mdl.xyz.mean(axis=0) + r.uniform(-1, 1, 3) * B.mdl.size).tolist()
    else:
        o.uref_kind = "vec"
        o.uref = [0.0, 0.0, 0.0]
    o.conv = conv
    u = r.random()
    # 150: a print filter no mode passes (empty table, a966639)
    o.em_filt = 0 if u < 0.45 else 2.0 if u < 0.9 else 150.0
    o.nff = 25 if r.random() < 0.7 else int(r.integers(6, 40))
    return o


def _spread_bref(r, B, exclude_grids=()):
    """6 boundary DOF over >= 2 grids that restrain rigid motion statically determinately
    and well conditioned (3-2-1 like).  Judged on the truth geometry."""
    ref = B.mdl.xyz[B.bnodes].mean(axis=0)
    RBt = (B.Q @ B.mdl.rb(ref))[B.bdof]
    D = B.mdl.size
    sc = np.r_[1, 1, 1, D, D, D]
    for _ in range(300):
        pick = np.sort(r.choice(B.nb, 6, replace=False))
        if len(set(pick // 6)) < 2 or set(pick // 6) & set(exclude_grids):
            continue
        # prefer translations (rotational reference DOF rely on joint rotations only)
        N = RBt[pick] / sc
        N = N / np.abs(N).max(axis=1, keepdims=True)
        if np.linalg.cond(N) < 25:
            mat = np.concatenate([np.arange(p, p + 6) for p in B.blockpos])
            return mat[pick]
    return None


# ======================================================================================
# truth
# ======================================================================================

def truth(B, o, xyz_uset=None):
    """Everything cbcheck should return for (B, o), from the physical model."""
    T = types.SimpleNamespace()
    L, Mc = conv_factors(o.conv)
    T.L, T.Mc = L, Mc
    mdl = B.mdl if o.conv is None else cm.convert_model(B.mdl, L, Mc)
    T.mdl = mdl
    nb, nq, n = B.nb, B.nq, B.n
    # -- output ordering: out index p  <->  cbm index oidx[p]
    if o.reorder:
        T.oidx = np.r_[np.concatenate([np.arange(6 * j, 6 * j + 6) for j in o.perm]),
                       nb + np.arange(nq)]
        T.bset_out = np.arange(nb)
        mat2out = np.empty(n, int)              # matrix index -> output index
        mat2out[B.lay[T.oidx]] = np.arange(n)
        T.bref_out = np.sort(mat2out[o.bref])
        T.grid_order = list(o.perm)
    else:
        T.oidx = np.argsort(B.lay)
        T.bset_out = np.sort(o.bseto)
        T.bref_out = np.asarray(o.bref)
        T.grid_order = list(range(B.nbg))
    T.b_out = np.nonzero(T.oidx < nb)[0]        # output rows that are boundary DOF
    # -- reference of the geometry-based modes
    if o.uref_kind == "id":
        j = o.uref_grid
        pt = (B.mdl.xyz[B.bnodes[j]] if xyz_uset is None else xyz_uset[j]) * L
    else:
        pt = np.asarray(o.uref, float) * L
    T.uref_pt = pt
    xyz_b = mdl.xyz[B.bnodes]
    T.D = float(max(np.linalg.norm(xyz_b - pt, axis=1).max(),
                    np.linalg.norm(mdl.cg() - pt)) + mdl.size)
    T.mtot = mdl.total_mass()
    # -- truth rb (normalised form: unit motions of the point uref in basic axes)
    rb_loc = B.Q @ mdl.rb(pt)
    rb_cbm = np.zeros((n, 6))
    rb_cbm[:nb] = rb_loc[B.bdof]
    T.rbfull = rb_cbm[T.oidx]                    # (n x 6), zeros on q
    T.rbg = T.rbfull[T.b_out]                    # rows in output b order
    # geometry modes as pyYeti must compute them from a (possibly moved) uset
    if xyz_uset is not None:
        tri = [cm.local_triad(c["type"], c["A"] * L, c["axes"], x * L)
               for c, x in zip(B.cords, xyz_uset)]
        rows = []
        for j in T.grid_order:
            G = cm.rigid_map(xyz_uset[j] * L - pt)
            rows.append(sla.block_diag(tri[j], tri[j]) @ G)
        T.rbg_uset = np.vstack(rows)
    else:
        T.rbg_uset = T.rbg
    T.M6g = mdl.mass6_about(pt)
    # -- stiffness / eigen based sets
    rbn = o.rb_norm
    if rbn is None:
        rbn = bool(np.any(np.diff(T.bref_out) != 1))
    T.rb_norm_eff = bool(rbn)
    N = T.rbfull[T.bref_out]
    T.N = N
    bsc = np.r_[1, 1, 1, T.D, T.D, T.D]
    T.bsc = bsc
    asc = np.empty(n)
    cb_t = (np.arange(nb) % 6) < 3
    a_cbm = np.r_[np.where(cb_t, 1.0, 1.0 / T.D), np.full(nq, math.sqrt(T.mtot))]
    T.asc = a_cbm[T.oidx]
    if T.rb_norm_eff:
        T.RS = T.rbfull
        T.Ms = T.M6g
        T.kN = 1.0
        T.csc = bsc
        T.col_trans = np.r_[True, True, True, False, False, False]
        T.rigid_s = (pt, np.eye(3))
    else:
        Ni = np.linalg.inv(N)
        T.RS = T.rbfull @ Ni
        T.Ms = Ni.T @ T.M6g @ Ni
        Nsc = N / T.asc[T.bref_out][:, None] / bsc[None, :]
        T.kN = float(np.linalg.cond(Nsc))
        # a unit motion of reference DOF i is "a length" or "an angle"
        ref_is_trans = (T.oidx[T.bref_out] % 6) < 3
        T.csc = np.where(ref_is_trans, 1.0, T.D)
        T.col_trans = ref_is_trans
        single = o.bref_kind == "grid" and bool(np.all(np.diff(T.bref_out) == 1))
        if single:
            jg = o.gref
            T.rigid_s = (mdl.xyz[B.bnodes[jg]], B.triads[jg])
        else:
            T.rigid_s = None
    # -- matrices
    c, d = cm.cb_unit_factors(nb, nq, L, Mc)
    if o.conv is None:
        mconv, kconv = B.cbm["m"], B.cbm["k"]
    else:
        mconv = B.cbm["m"] * np.outer(d, c)
        kconv = B.cbm["k"] * np.outer(d, c)
    T.m = mconv[np.ix_(T.oidx, T.oidx)]
    T.k = kconv[np.ix_(T.oidx, T.oidx)]
    kab = B.kabs if o.conv is None else B.kabs * np.outer(d, c)
    T.kabs = kab[np.ix_(T.oidx, T.oidx)]
    T.frq = np.sqrt(np.abs(B.cbm["w2"])) / (2 * math.pi)
    # -- effective mass from physical quantities
    phi = B.cbm["phi"]
    if o.conv is not None and nq:
        s = np.where(np.arange(6 * B.mdl.n) % 6 < 3, L, 1.0)[B.cbm["idof"]]
        phi = phi * s[:, None] / (math.sqrt(Mc) * L)
    Ml = B.Q @ mdl.M @ B.Q.T
    T.eff = cm.effmass_truth(Ml, rb_loc, B.cbm["idof"], phi)
    T.effpct = T.eff * (100.0 / np.diag(T.M6g))
    return T


def expected_uset(uset_in, B, o, T):
    """Input uset rows reordered to the output grid order, lengths scaled."""
    vals = uset_in.values.astype(float).copy()
    idx = list(uset_in.index)
    rows = np.concatenate([np.arange(6 * j, 6 * j + 6) for j in T.grid_order])
    vals = vals[rows]
    idx = [idx[i] for i in rows]
    if o.conv is not None:
        for g0 in range(0, vals.shape[0], 6):
            vals[g0, 1:] *= T.L
            vals[g0 + 2, 1:] *= T.L
    return idx, vals


# ======================================================================================
# conditioning on the oracle
# ======================================================================================

def _own_stiff_rb(kbb, bref):
    nb = kbb.shape[0]
    o = np.setdiff1d(np.arange(nb), bref)
    rb = np.zeros((nb, 6))
    rb[bref] = np.eye(6)
    if o.size:
        rb[o] = -np.linalg.solve(kbb[np.ix_(o, o)], kbb[np.ix_(o, bref)])
    return rb


def sensitivity(B, o, T, r, ntry=3):
    """Spread of the oracle's own stiffness-/eigen-based rigid-body modes (normalised to
    the truth reference, scaled) and of Kbb*RB under 1e-13 relative perturbations of the
    physical M and K.  Returns sigma dict (all dimensionless)."""
    nb, nq = B.nb, B.nq
    nd = B.Ml.shape[0]
    # everything in cbm order, conv None (unit scaling is an exact diagonal congruence)
    L, Mc = T.L, T.Mc
    o0 = types.SimpleNamespace(**vars(o))
    pt = T.uref_pt / L
    rb_loc = (B.Q @ B.mdl.rb(pt))
    RB = rb_loc[B.bdof]
    D = T.D / L
    mtot = T.mtot / Mc
    bsc = np.r_[1, 1, 1, D, D, D]
    a_b = np.where((np.arange(nb) % 6) < 3, 1.0, 1.0 / D)
    a_q = np.full(nq, math.sqrt(mtot))
    S_b = np.outer(a_b, bsc)
    # bref in cbm-b indexing
    mat2cbm = np.empty(B.n, int)
    mat2cbm[B.lay] = np.arange(B.n)
    bref = np.sort(mat2cbm[o.bref])
    sig = {"rbs": 0.0, "rbe": 0.0, "krbg": 0.0, "krbs": 0.0, "krbe": 0.0}
    for t in range(ntry):
        E = r.uniform(-1, 1, (nd, nd))
        E = np.triu(E) + np.triu(E, 1).T
        Kp = B.Kl * (1 + 1e-13 * E)
        E = r.uniform(-1, 1, (nd, nd))
        E = np.triu(E) + np.triu(E, 1).T
        Mp = B.Ml * (1 + 1e-13 * E)
        cbp = cm.craig_bampton(Mp, Kp, B.bdof, nq)
        kbb = cbp["k"][:nb, :nb]
        try:
            rs = _own_stiff_rb(kbb, bref) @ RB[bref]
            sig["rbs"] = max(sig["rbs"], float((np.abs(rs - RB) / S_b).max()))
            kabs = B.kabs[:nb, :nb] @ S_b + 1e-300
            sig["krbg"] = max(sig["krbg"], float((np.abs(kbb @ RB) / kabs).max()))
            sig["krbs"] = max(sig["krbs"], float((np.abs(kbb @ rs) / kabs).max()))
            w, v = sla.eigh(cbp["k"], cbp["m"])
            V6 = v[:, :6]
            re = V6 @ np.linalg.solve(V6[bref], RB[bref])
            RBf = np.vstack([RB, np.zeros((nq, 6))])
            S_f = np.outer(np.r_[a_b, a_q], bsc)
            sig["rbe"] = max(sig["rbe"], float((np.abs(re - RBf) / S_f).max()))
            kf = B.kabs @ S_f + 1e-300
            sig["krbe"] = max(sig["krbe"], float((np.abs(cbp["k"] @ re) / kf).max()))
        except (np.linalg.LinAlgError, ValueError):
            return None
    return sig


def tol_from_sigma(sigma, mult=1.0):
    """DESIGN section 4: tol = 200 (sigma/1e-13) eps + floor."""
    return mult * (200.0 * (sigma / 1e-13) * EPS) + 1e-12


# ======================================================================================
# monitors
# ======================================================================================

def scaled_max(err, S):
    return float((np.abs(err) / S).max()) if err.size else 0.0


def k_resid(k, rb, S, kabs):
    """max |K rb| over the size of the terms added: kabs = |T|'|K||T| >= |k|."""
    return float((np.abs(k @ rb) / (kabs @ S + 1e-300)).max())


def subspace_angle(A, Bm):
    """largest principal angle between column spaces (inputs already scaled)."""
    return float(sla.subspace_angles(A, Bm).max())


def call_cbcheck(sh, B, o, uset, Mcb=None, Kcb=None):
    from pyyeti import cb
    f = io.StringIO()
    Mcb = B.Mcb if Mcb is None else Mcb
    Kcb = B.Kcb if Kcb is None else Kcb
    uref = o.uref
    sh.count("cbcheck-calls")
    with warnings.catch_warnings():
        warnings.simplefilter("ignore")
        out = cb.cbcheck(f, Mcb.copy(), Kcb.copy(), o.bseto.copy(), o.bref.copy(), uset,
                         uref=uref, conv=o.conv, em_filt=o.em_filt, rb_norm=o.rb_norm,
                         reorder=o.reorder, n_freefree_modes=o.nff)
    txt = f.getvalue()
    sh.count("report-chars", len(txt))
    return out, txt


def tags_of(B, o, T, variant):
    bpos = np.sort(o.bseto)
    b_first = bool(bpos[0] == 0 and np.all(np.diff(bpos) == 1))
    b_contig = bool(np.all(np.diff(bpos) == 1))
    # DOF of bref that sit after a gap in the (sorted) b-set
    rel = np.searchsorted(bpos, np.asarray(o.bref))
    after_gap = bool(np.any(np.asarray(o.bref) - bpos[0] != rel))
    return {"variant": variant, "nbg": B.nbg, "nq": B.nq, "nq0": B.nq == 0,
            "layout": B.layout_kind, "order": o.pclass, "reorder": bool(o.reorder),
            "perm_involution": o.pclass != "cycle", "bref_kind": o.bref_kind,
            "rb_norm_eff": T.rb_norm_eff, "uref_kind": o.uref_kind,
            "conv": "none" if o.conv is None else (o.conv if isinstance(o.conv, str)
                                                   else "numeric"),
            "b_first": b_first, "b_contiguous": b_contig, "bref_after_gap": after_gap,
            "emfilt_empty": bool(o.em_filt > 0 and B.nq > 0 and T.eff.shape[0] == B.nq
                                 and not np.any(T.effpct > o.em_filt)),
            "cords": sorted({c["type"] for c in B.cords})}


def count_cells(sh, B, o, T, variant):
    sh.count("cell:variant:" + variant)
    sh.count("cell:nbg:%d" % min(B.nbg, 4))
    for c in B.cords:
        sh.count("cell:cord:%d" % c["type"])
    sh.count("cell:layout:" + B.layout_kind)
    sh.count("cell:order:" + o.pclass)
    sh.count("cell:bref:" + o.bref_kind)
    sh.count("cell:uref:" + o.uref_kind)
    sh.count("cell:conv:" + ("none" if o.conv is None else
                             (o.conv if isinstance(o.conv, str) else "numeric")))
    sh.count("cell:reorder:" + str(bool(o.reorder)))
    sh.count("cell:rbnorm:" + str(T.rb_norm_eff))


def judge_matrices(sh, B, o, T, out, uset_in, case, tags):
    """out.m / out.k / out.uset / out.bset / cb_frq: permutation and unit scaling."""
    if o.conv is None:
        sh.check_equal("out-m", np.asarray(out.m), T.m, case, tags)
        sh.check_equal("out-k", np.asarray(out.k), T.k, case, tags)
    else:
        sh.check_close("out-m", out.m, T.m, 8 * EPS * np.abs(T.m), case, tags)
        sh.check_close("out-k", out.k, T.k, 8 * EPS * np.abs(T.k), case, tags)
    sh.check_equal("out-bset", np.asarray(out.bset).astype(np.int64),
                   T.bset_out.astype(np.int64), case, tags)
    idx, vals = expected_uset(uset_in, B, o, T)
    got = out.uset
    ok_idx = list(got.index) == idx
    sh.check_equal("out-uset-index", ok_idx, True, case, tags)
    if got.shape == vals.shape:
        sh.check_close("out-uset", got.values.astype(float), vals,
                       8 * EPS * np.abs(vals), case, tags)
    else:
        sh.violation("out-uset", case, {"shape": got.shape}, tags)
        sh.count("mon:out-uset")
    sh.check_close("cb-frq", np.asarray(out.cb_frq, float), T.frq,
                   1e-12 * (np.abs(T.frq) + 1e-300), case, tags)


def judge_valid(sh, B, o, T, out, sig, case, tags, null_rows=None, prefix=""):
    """All monitors of a model that is a valid free structure.  null_rows = output rows
    where stiffness/eigen based modes must be exactly zero (null-column variant)."""
    from pyyeti import cb
    n, nb = B.n, B.nb
    S = np.outer(T.asc, T.csc)                   # scale of rbs/rbe entries
    Sg = np.outer(T.asc[T.b_out], T.bsc)
    loose = 1.0 if null_rows is None and prefix == "" else 50.0
    tol_s = tol_from_sigma(sig["rbs"], 20 * T.kN * loose)
    tol_e = tol_from_sigma(max(sig["rbe"], sig["rbs"]), 20 * T.kN * loose)
    rbs, rbg, rbe = (np.asarray(out.rbs, float), np.asarray(out.rbg, float),
                     np.asarray(out.rbe, float))
    if rbs.shape != (n, 6) or rbe.shape != (n, 6) or rbg.shape != (nb, 6):
        sh.violation("rb-shapes", case, {"rbs": rbs.shape, "rbg": rbg.shape,
                                         "rbe": rbe.shape}, tags)
        return
    RS = T.RS.copy()
    rbg_cmp = T.rbg
    if null_rows is not None:
        RS[null_rows] = 0.0
    P = prefix
    # -- the three sets against the geometric truth
    sh.check_close(P + "rbg-vs-truth", rbg / Sg, rbg_cmp / Sg, 1e-12, case, tags)
    sh.check_close(P + "rbs-vs-truth", rbs / S, RS / S, tol_s, case, tags)
    sh.check_close(P + "rbe-vs-truth", rbe / S, RS / S, tol_e, case, tags)
    # -- they span the same motion (scaled principal angles), q rows included
    keep = np.ones(n, bool)
    if null_rows is not None:
        keep[null_rows] = False
    gfull = np.zeros((n, 6))
    gfull[T.b_out] = rbg
    sc = T.asc[:, None] * T.D
    for nm, rb, tl in (("rbs", rbs, tol_s), ("rbe", rbe, tol_e)):
        try:
            ang = subspace_angle((rb / sc)[keep], (gfull / sc)[keep])
        except Exception as e:
            sh.violation(P + "subspace-%s-rbg" % nm, case, {"exc": repr(e)}, tags)
            sh.count("mon:" + P + "subspace-%s-rbg" % nm)
            continue
        sh.check_close(P + "subspace-%s-rbg" % nm, ang, 0.0, 50 * tol_e * T.kN, case,
                       tags)
    # -- mass, cg, inertia implied by each set equal those of the structure
    msc = T.mtot * np.outer(T.bsc, T.bsc)
    mscs = T.mtot * np.outer(T.csc, T.csc)
    bb = np.ix_(T.b_out, T.b_out)
    m_out, k_out = np.asarray(out.m, float), np.asarray(out.k, float)
    sets = (("rbs", rbs, m_out, T.Ms, mscs, max(tol_s * 4, 1e-11), T.rigid_s),
            ("rbg", rbg, m_out[bb], T.M6g, msc, 1e-11, (T.uref_pt, np.eye(3))),
            ("rbe", rbe, m_out, T.Ms, mscs, max(tol_e * 4, 1e-11), T.rigid_s))
    for nm, rb, mm, want, sc6, tl, rigid in sets:
        m6 = rb.T @ mm @ rb
        sh.check_close(P + "mass6-" + nm, m6 / sc6, want / sc6, tl, case, tags)
        if rigid is None:
            continue
        p, Tr = rigid
        m6s = 0.5 * (m6 + m6.T)
        try:
            mcg, dxyz, gyr, pgyr, I, pI = cb.cgmass(m6s, all6=True)
        except Exception as e:
            sh.violation("exception:cgmass-of-" + nm, case, {"exc": repr(e)}, tags)
            sh.count("mon:" + P + "cgmass-of-" + nm)
            continue
        d_w = Tr @ (T.mdl.cg() - p)
        J_w = Tr @ T.mdl.inertia_about(T.mdl.cg()) @ Tr.T
        Dd = T.D
        got = np.r_[dxyz / Dd, (I / (T.mtot * Dd * Dd)).ravel(),
                    np.sort(np.diag(pI)) / (T.mtot * Dd * Dd),
                    np.diag(mcg)[:3] / T.mtot,
                    (mcg[:3, 3:] / (T.mtot * Dd)).ravel()]
        wnt = np.r_[d_w / Dd, (J_w / (T.mtot * Dd * Dd)).ravel(),
                    np.linalg.eigvalsh(J_w) / (T.mtot * Dd * Dd),
                    np.ones(3), np.zeros(9)]
        sh.check_close(P + "cgmass-of-" + nm, got, wnt, 8 * tl, case, tags)
    # -- rigid-body motion produces no stiffness force
    kr_s = k_resid(k_out, rbs, S, T.kabs)
    kr_e = k_resid(k_out, rbe, S, T.kabs)
    kr_g = k_resid(k_out[bb], rbg, Sg, T.kabs[bb])
    sh.check_close(P + "Krb-rbs", kr_s, 0.0,
                   tol_from_sigma(max(sig["krbs"], sig["rbs"]), 20 * T.kN * loose),
                   case, tags)
    sh.check_close(P + "Krb-rbg", kr_g, 0.0, tol_from_sigma(sig["krbg"], 20 * loose),
                   case, tags)
    sh.check_close(P + "Krb-rbe", kr_e, 0.0,
                   tol_from_sigma(max(sig["krbe"], sig["rbe"]), 20 * T.kN * loose),
                   case, tags)
    # -- effective mass
    eff = np.asarray(out.effmass.values, float)
    effp = np.asarray(out.effmass_percent.values, float)
    if eff.shape != T.eff.shape:
        sh.violation(P + "effmass-vs-truth", case, {"shape": eff.shape,
                                                    "want": T.eff.shape}, tags)
        sh.count("mon:" + P + "effmass-vs-truth")
    else:
        tot = np.diag(T.M6g)
        tl = 1e-11 * np.sqrt(tot)
        tolE = 2 * np.sqrt(T.eff) * tl + tl * tl
        if B.nq:
            sh.check_close(P + "effmass-vs-truth", eff, T.eff, tolE, case, tags)
            sh.check_close(P + "effmass-percent", effp / 100.0, T.effpct / 100.0,
                           tolE / tot + 1e-11 * T.effpct / 100, case, tags)
            sh.check_close(P + "effmass-index", np.asarray(out.effmass.index, float),
                           T.frq, 1e-12 * T.frq, case, tags)
        q_out = np.nonzero(T.oidx >= nb)[0]
        mbb = m_out[bb]
        mbq = m_out[np.ix_(T.b_out, q_out)]
        resid = np.diag(rbg.T @ (mbb - mbq @ mbq.T) @ rbg)
        book = eff.sum(axis=0) + resid
        sh.check_close(P + "effmass-bookkeeping", book / tot, np.ones(6), 1e-10, case,
                       tags)
    return {"krs": kr_s, "krg": kr_g, "kre": kr_e}


# ======================================================================================
# the shard
# ======================================================================================

def plan_model(seed, g):
    r = core.rng(seed, "C06", "model", g)
    nbg = 1 + g % 4
    regime = "zero" if g % 32 == 6 else NQ_REGIME[(g // 4) % 8]
    nn = int(r.integers(max(6, nbg + 2), 26))
    mdl = cm.random_model(r, nn)
    lam7 = float(sla.eigvalsh(mdl.K, mdl.M)[6])
    if lam7 < 400.0:                             # keep clear of eigsh's sigma = 1.0
        mdl = cm.scale_stiffness(mdl, 400.0 * math.exp(r.uniform(0, 4)) / lam7)
    bnodes = r.choice(nn, nbg, replace=False)
    cords = make_cords(r, mdl, bnodes, g)
    ni = 6 * (nn - nbg)
    nq = {"zero": 0, "all": ni, "few": int(r.integers(1, min(10, ni) + 1)),
          "some": int(r.integers(1, ni + 1))}[regime]
    P = types.SimpleNamespace(
        g=g, r=r, mdl=mdl, bnodes=bnodes, cords=cords, nq=nq, regime=regime,
        layout_kind=["first", "last", "scattered"][g % 3],
        order_kind=["sorted", "reversed", "swap", "cycle", "sorted"][(g // 3) % 5],
        conv=["m2e", "e2m", "numeric"][g % 3])
    if P.conv == "numeric":
        P.conv = (float(math.exp(r.uniform(-4, 4))), float(math.exp(r.uniform(-4, 4))))
    return P


def known_defect_cell(B, o, T, tg):
    """Mechanisms listed in findings/C06.json: the case is probed for the symptom and,
    if it shows, reported once under the defect's own kind; no other monitor is judged on
    outputs the defect pollutes."""
    if B.nq == 0:
        return "nq0"
    # (cbcheck-uset-argsort was repaired in the repository, b4ca5b2: cyclic grid orders
    # are judged like every other order, without compensation)
    if (not o.reorder) and (not tg["b_first"]) and (T.rb_norm_eff or tg["bref_after_gap"]):
        return "noreorder-indexing"
    return None


def run_valid_call(sh, B, o, uset, rsens, case, variant="valid"):
    """One cbcheck call on a valid model.  Returns (out, T, sig, resid) or None."""
    T = truth(B, o)
    tg = tags_of(B, o, T, variant)
    count_cells(sh, B, o, T, variant)
    cell = known_defect_cell(B, o, T, tg)
    sh.case(case, nontrivial=True, sample={"case": case, "tags": tg})
    Sg = np.outer(T.asc[T.b_out], T.bsc)
    S = np.outer(T.asc, T.csc)
    uset_call = uset
    urows = None
    if cell == "uset-reorder":
        # known mechanism (findings/C06.json, cbcheck-uset-argsort): cbcheck applies
        # argsort(bseto) where the inverse permutation is needed.  (1) probe the natural
        # call for the symptom; (2) judge ALL monitors on a call whose uset is
        # pre-permuted so that the wrong reordering lands on the right grids.
        pp = [o.perm[o.perm[i]] for i in range(B.nbg)]
        rows = np.concatenate([np.arange(6 * j, 6 * j + 6) for j in pp])
        uset_call = uset.iloc[rows]
        urows = rows
        sym = {}
        try:
            o1, _ = call_cbcheck(sh, B, types.SimpleNamespace(**dict(vars(o), em_filt=0)),
                                 uset)
            e = scaled_max(np.asarray(o1.rbg) - T.rbg, Sg)
            if e > 1e-6:
                wrong = np.argsort(o.bseto)[::6] // 6
                sym = {"symptom_argsort_uset": bool(
                    list(o1.uset.index.get_level_values("id")[::6])
                    == [B.ids[j] for j in wrong]), "rbg_scaled_err": e}
        except Exception as e:
            sym = {"symptom_exception": True, "exc": repr(e)[:200]}
    try:
        # (an empty effective-mass print table used to raise IndexError -- a966639)
        out, txt = call_cbcheck(sh, B, o, uset_call)
    except Exception as e:
        if cell == "nq0":
            sh.violation("exception:cbcheck", case, {"exc": repr(e)[:300]}, tg)
        elif cell == "noreorder-indexing":
            sh.violation("cbcheck-noreorder-indexing", case, {"exc": repr(e)[:300]}, tg)
        else:
            sh.violation("exception:cbcheck", case, {"exc": repr(e)[:300]},
                         dict(tg, nq0=False))
        sh.count("mon:cbcheck-runs")
        return None
    sh.count("mon:cbcheck-runs")
    if cell == "uset-reorder" and sym:
        ok = scaled_max(np.asarray(out.rbg) - T.rbg, Sg) < 1e-9
        sh.violation("cbcheck-uset-reorder", case, sym,
                     dict(tg, compensated_ok=bool(ok),
                          symptom_argsort_uset=bool(sym.get("symptom_argsort_uset")),
                          symptom_exception=bool(sym.get("symptom_exception"))))
        sh.count("known-defect-probes")
    if cell == "noreorder-indexing":
        e = max(scaled_max(np.asarray(out.rbs) - T.RS, S),
                scaled_max(np.asarray(out.rbe) - T.RS, S))
        if e > 1e-6:
            sh.violation("cbcheck-noreorder-indexing", case, {"rb_scaled_err": e}, tg)
            sh.count("skipped-known-defect")
            return None
    sig = sensitivity(B, o, T, rsens)
    if sig is None or max(sig.values()) > 1e-7:
        sh.refused += 1
        return None
    judge_matrices(sh, B, o, T, out, uset, case, tg)
    resid = judge_valid(sh, B, o, T, out, sig, case, tg)
    if resid is None:
        return None
    return out, T, sig, resid, tg, urows


def run(sh, params):
    for g in range(params["first"], params["first"] + params["count"]):
        try:
            run_model(sh, g)
        except Exception as e:                   # harness trouble must not kill the shard
            import traceback
            sh.violation("harness-exception", {"kind": "model", "g": g},
                         {"trace": traceback.format_exc()[-1500:]}, {})


def run_model(sh, g):
    seed = sh.seed
    P = plan_model(seed, g)
    r = P.r
    sh.count("cell:nq:" + P.regime)
    B = build(core.rng(seed, "C06", "layout", g), P.mdl, P.bnodes, P.cords, P.nq,
              P.layout_kind)
    r_in = [bool(r.random() < 0.5) for _ in P.bnodes]
    uset = make_uset(B, r_in)
    perm = _perm(r, B.nbg, P.order_kind)
    base = {"kind": "model", "g": g, "seed": seed}
    # ---- A: valid, no conversion ----------------------------------------------------
    oA = random_options(r, B, None, {"perm": perm})
    resA = run_valid_call(sh, B, oA, uset, core.rng(seed, "C06", "sens", g, "A"),
                          dict(base, call="A"))
    # ---- B: valid, converted units, other options -----------------------------------
    permB = _perm(r, B.nbg, ["sorted", "reversed", "swap"][int(r.integers(0, 3))])
    oB = random_options(r, B, P.conv, {"perm": permB})
    run_valid_call(sh, B, oB, uset, core.rng(seed, "C06", "sens", g, "B"),
                   dict(base, call="B"))
    if B.nq == 0:
        return
    # a defect-free option set for the variants if A fell into a known-defect cell
    if resA is None:
        oA = random_options(r, B, None, {"perm": list(range(B.nbg)), "reorder": True})
        resA = run_valid_call(sh, B, oA, uset, core.rng(seed, "C06", "sens", g, "A2"),
                              dict(base, call="A2"))
        if resA is None:
            return
    outA, TA, sigA, residA, tgA, urows = resA
    direct_calls(sh, B, oA, TA, outA, sigA, dict(base, call="direct"), tgA, r)
    # (urows: the pre-permutation that compensates the known uset-reordering defect)
    grounded(sh, g, B, P, oA, TA, outA, sigA, residA,
             uset if urows is None else uset.iloc[urows], base, r)
    if B.nbg >= 2:
        moved(sh, B, oA, TA, outA, sigA, residA, r_in, base, r, urows)
    if g % 3 != 2:
        degenerate(sh, g, B, P, sigA, base, r, "massless" if g % 2 else "null")


# ---------------------------------------------------------------------------- variants

def _resid_vs_free(out, kfree, T):
    """|K rb| of a variant scaled with the *free* model's |K| (fixed denominators)."""
    S = np.outer(T.asc, T.csc)
    Sg = np.outer(T.asc[T.b_out], T.bsc)
    bb = np.ix_(T.b_out, T.b_out)
    k = np.asarray(out.k, float)
    den = T.kabs @ S + 1e-300
    deng = T.kabs[bb] @ Sg + 1e-300
    return (float((np.abs(k @ out.rbs) / den).max()),
            float((np.abs(k[bb] @ out.rbg) / deng).max()),
            float((np.abs(k @ out.rbe) / den).max()))


def grounded(sh, g, B, P, o, T, outA, sig, residA, uset, base, r):
    node = int(r.integers(0, B.mdl.n))
    dof = int(r.integers(0, 6))
    # spring of 1e-2 ... 1 times the softest joint scale; rotational DOF in moment units
    kg = B.mdl.kbase * 0.3 * float(math.exp(r.uniform(math.log(1e-2), 0.0)))
    if dof >= 3:
        kg *= B.mdl.ell ** 2
    kfree = np.asarray(outA.k, float)
    free = _resid_vs_free(outA, kfree, T)
    vals = []
    o = types.SimpleNamespace(**dict(vars(o), em_filt=0))
    for mult, tag in ((1.0, "G1"), (10.0, "G10")):
        mg = cm.ground(B.mdl, node, dof, kg * mult)
        Bg = build(core.rng(sh.seed, "C06", "layout", g), mg, B.bnodes, B.cords, B.nq,
                   B.layout_kind)
        case = dict(base, call=tag, ground={"node": node, "dof": dof, "kg": kg * mult})
        tg = tags_of(Bg, o, T, "grounded")
        count_cells(sh, Bg, o, T, "grounded")
        sh.case(case, True)
        try:
            out, txt = call_cbcheck(sh, Bg, o, uset)
        except Exception as e:
            sh.violation("exception:cbcheck-grounded", case, {"exc": repr(e)[:300]}, tg)
            return
        rs, rg, re = _resid_vs_free(out, kfree, T)
        energy = float(np.trace((out.rbg / T.bsc).T @ np.asarray(out.k)[
            np.ix_(T.b_out, T.b_out)] @ (out.rbg / T.bsc)))
        vals.append((rs, rg, re, energy))
        if tag == "G1":
            ratios = [v / max(f, 1e-16) for v, f in zip((rs, rg, re), free)]
            sh.count("mon:grounded-Krb-moves")
            worst = min(ratios)
            sh.worst("grounded-Krb-moves", 1e6 / max(worst, 1e-300))
            if not worst >= 1e6:
                sh.violation("grounded-Krb-moves", case,
                             {"free": free, "grounded": (rs, rg, re),
                              "ratios": ratios, "need": 1e6}, tg)
        if g % 2:
            break
    if len(vals) == 2:
        sh.count("mon:grounded-monotone")
        e1, e10 = vals[0][3], vals[1][3]
        ok = e10 > e1 * (1 + 1e-9) and e10 <= 10 * e1 * (1 + 1e-6)
        if not ok:
            sh.violation("grounded-monotone", dict(base, call="G10"),
                         {"energy_kg": e1, "energy_10kg": e10}, tags_of(B, o, T,
                                                                        "grounded"))


def moved(sh, B, o, T, outA, sig, residA, r_in, base, r, urows=None):
    jm = int(r.integers(0, B.nbg))
    u = r.standard_normal(3)
    u /= np.linalg.norm(u)
    xyz_u = B.mdl.xyz[B.bnodes].copy()
    xyz_u[jm] = xyz_u[jm] + 0.01 * B.mdl.size * u
    o = types.SimpleNamespace(**dict(vars(o), em_filt=0))
    uset_m = make_uset(B, r_in, xyz_override=xyz_u)
    if urows is not None:
        uset_m = uset_m.iloc[urows]
    Tm = truth(B, o, xyz_uset=xyz_u)
    case = dict(base, call="moved", moved={"grid": jm, "dir": u.tolist()})
    tg = tags_of(B, o, Tm, "moved")
    count_cells(sh, B, o, Tm, "moved")
    sh.case(case, True)
    try:
        out, txt = call_cbcheck(sh, B, o, uset_m)
    except Exception as e:
        sh.violation("exception:cbcheck-moved", case, {"exc": repr(e)[:300]}, tg)
        return
    Sg = np.outer(Tm.asc[Tm.b_out], Tm.bsc)
    sh.check_close("moved-rbg-follows-uset", np.asarray(out.rbg) / Sg, Tm.rbg_uset / Sg,
                   1e-12, case, tg)
    kfree = np.asarray(outA.k, float)
    free = _resid_vs_free(outA, kfree, T)
    rs, rg, re = _resid_vs_free(out, kfree, Tm)
    sh.count("mon:moved-Krbg-moves")
    ratio = rg / max(free[1], 1e-16)
    sh.worst("moved-Krbg-moves", 1e6 / max(ratio, 1e-300))
    if not ratio >= 1e6:
        sh.violation("moved-Krbg-moves", case, {"free": free[1], "moved": rg,
                                                "need_ratio": 1e6}, tg)
    # rbs / rbe keep describing the true geometry, rbg the moved one: the angle between
    # them is the one the oracle computes from the two geometries
    sc = (Tm.asc[Tm.b_out] * Tm.D)[:, None]
    want = subspace_angle(Tm.rbg / sc, Tm.rbg_uset / sc)
    tol_e = tol_from_sigma(max(sig["rbe"], sig["rbs"]), 20 * T.kN)
    for nm in ("rbs", "rbe"):
        got = subspace_angle(np.asarray(getattr(out, nm))[Tm.b_out] / sc,
                             np.asarray(out.rbg) / sc)
        sh.check_close("moved-angle", got, want, 1e-6 * want + 50 * tol_e, case,
                       dict(tg, set=nm))
    if want < 1e-5:
        sh.violation("harness:moved-angle-too-small", case, {"angle": want}, tg)


def degenerate(sh, g, B, P, sigA, base, r, kind):
    ja = int(r.integers(0, B.nbg))
    mdl2 = cm.add_massless_grid(B.mdl, r, int(B.bnodes[ja]), kind)
    new = mdl2.n - 1
    bnodes2 = np.r_[B.bnodes, new]
    ct = int(r.integers(1, 4))
    for _ in range(100):
        c = cm.random_cord(r, ct, 77, mdl2.size, mdl2.xyz[new])
        if cm.well_placed(c, mdl2.xyz[new], mdl2.size):
            break
    cords2 = list(B.cords) + [c]
    ni = 6 * (mdl2.n - len(bnodes2))
    nq = min(B.nq, ni)
    B2 = build(core.rng(sh.seed, "C06", "layout2", g), mdl2, bnodes2, cords2, nq,
               B.layout_kind)
    uset2 = make_uset(B2, [False] * B2.nbg)
    perm = _perm(r, B2.nbg, "sorted" if r.random() < 0.5 else "reversed")
    force = {"perm": perm, "bref_kind": "grid", "gref": int(r.integers(0, B.nbg)),
             "reorder": True}
    if kind == "null" and B2.nbg >= 3 and (g // 4) % 2 == 0:
        # the grid whose rotations carry no stiffness (trimmed by the stiffness check)
        # sits BETWEEN the grids that hold the reference DOF
        perm = list(range(B2.nbg))
        perm[1], perm[-1] = perm[-1], perm[1]
        force = {"perm": perm, "bref_kind": "spread", "exclude_grids": (B2.nbg - 1,),
                 "gref": int(r.integers(0, B.nbg)), "reorder": True}
        sh.count("cell:deg-null:trimmed-dof-between-reference-dof")
    o = random_options(r, B2, None if r.random() < 0.6 else P.conv, force)
    o.em_filt = 0
    T = truth(B2, o)
    case = dict(base, call="deg-" + kind)
    tg = tags_of(B2, o, T, kind)
    count_cells(sh, B2, o, T, kind)
    sh.case(case, True)
    try:
        out, txt = call_cbcheck(sh, B2, o, uset2)
    except Exception as e:
        sh.violation("exception:cbcheck-" + kind, case, {"exc": repr(e)[:300]}, tg)
        return
    null_rows = None
    if kind == "null":
        jn = T.grid_order.index(B2.nbg - 1)
        null_rows = np.arange(6 * jn + 3, 6 * jn + 6)
        # the trimmed DOF come back as exact zeros in the stiffness/eigen based sets
        z = np.abs(np.asarray(out.rbs)[null_rows]).max() + np.abs(
            np.asarray(out.rbe)[null_rows]).max()
        sh.check_equal("deg-null-rows-zero", float(z), 0.0, case, tg)
    judge_matrices(sh, B2, o, T, out, uset2, case, tg)
    judge_valid(sh, B2, o, T, out, sigA, case, tg, null_rows=null_rows, prefix="deg-")


# ------------------------------------------------------------------------ direct calls

def direct_calls(sh, B, o, T, out, sig, case, tags, r):
    """cbcoordchk / rbdispchk / rbmultchk called directly + DRM recovery of rigid motion."""
    from pyyeti import cb
    nb, n = B.nb, B.n
    tol_s = tol_from_sigma(sig["rbs"], 20)
    jg = int(r.integers(0, B.nbg))
    # cbcoordchk on the *reordered* stiffness returned by cbcheck (b-set leading) or, when
    # the b-set is contiguous and ascending in the input, on the input matrix itself
    use_input = (o.reorder is False or o.pclass == "sorted") and o.conv is None and (
        B.layout_kind in ("first", "last"))
    if use_input:
        K = B.Kcb
        bset = np.concatenate([np.arange(p, p + 6) for p in B.blockpos])
        order = list(range(B.nbg))
        full_rows = bset
    else:
        # cbcoordchk documents a b-set "partition vector", but (findings/C06.json,
        # cbcheck-noreorder-indexing) only a contiguous ascending one works: put the
        # boundary DOF of the returned stiffness in front with our own permutation
        q_out = np.setdiff1d(np.arange(n), T.b_out)
        pv = np.r_[T.b_out, q_out]
        K = np.asarray(out.k, float)[np.ix_(pv, pv)]
        bset = np.arange(nb)
        order = T.grid_order
        full_rows = bset
    pos = order.index(jg)
    refpoint = bset[6 * pos:6 * pos + 6]
    L = T.L if not use_input else 1.0
    xyz = B.mdl.xyz[B.bnodes] * L
    Tr = B.triads[jg]
    want_coords = np.array([Tr @ (xyz[j] - xyz[jg]) for j in order])
    rows = []
    for j in order:
        G = cm.rigid_map(xyz[j] - xyz[jg])
        rows.append(sla.block_diag(B.triads[j], B.triads[j]) @ G
                    @ sla.block_diag(Tr, Tr).T)
    want_rb = np.vstack(rows)
    D = T.D if not use_input else T.D / T.L
    f = io.StringIO()
    try:
        with warnings.catch_warnings():
            warnings.simplefilter("ignore")
            chk = cb.cbcoordchk(K, bset, refpoint, grids=[B.ids[j] for j in order],
                                ttl="t", verbose=True, outfile=f)
        sh.check_close("cbcoordchk-coords", chk.coords / D, want_coords / D,
                       max(tol_s, 1e-11) * 4, case, tags)
        a = np.where(np.arange(nb) % 6 < 3, 1.0, 1.0 / D)
        Sx = np.outer(a, np.r_[1, 1, 1, D, D, D])
        got = np.asarray(chk.rbmodes)
        if got.shape[0] == K.shape[0] and K.shape[0] > nb:
            qrows = np.setdiff1d(np.arange(K.shape[0]), full_rows)
            sh.check_equal("cbcoordchk-qrows-zero", float(np.abs(got[qrows]).max()), 0.0,
                           case, tags)
            got = got[full_rows]
        sh.check_close("cbcoordchk-rbmodes", got / Sx, want_rb / Sx, max(tol_s, 1e-11) * 4,
                       case, tags)
        sh.check_equal("cbcoordchk-refpoint-pass", chk.refpoint_chk, "pass", case, tags)
        sh.check_close("cbcoordchk-maxerr", np.max(chk.maxerr) / D, 0.0,
                       max(tol_s, 1e-11) * 8, case, tags)
    except Exception as e:
        sh.violation("exception:cbcoordchk", case, {"exc": repr(e)[:300]}, tags)
    # rbdispchk on the truth translations (local systems of every grid)
    xyzrows = np.concatenate([np.arange(6 * j, 6 * j + 3) for j in range(len(order))])
    try:
        f = io.StringIO()
        coords, errs = cb.rbdispchk(f, want_rb[xyzrows], grids=[B.ids[j] for j in order])
        sh.check_close("rbdispchk-coords", coords / D, want_coords / D, 1e-12, case, tags)
        sh.check_close("rbdispchk-errs", np.asarray(errs) / D, 0 * np.asarray(errs),
                       1e-12, case, tags)
    except Exception as e:
        sh.violation("exception:rbdispchk", case, {"exc": repr(e)[:300]}, tags)
    # DRM: displacement recovery of a few physical nodes; columns converted / reordered
    # by pyYeti; times the rigid-body sets must be the rigid motion of those nodes
    nsel = min(3, B.mdl.n)
    nodes = r.choice(B.mdl.n, nsel, replace=False)
    prow = np.concatenate([np.arange(6 * j, 6 * j + 6) for j in nodes])
    drm_cbm = B.cbm["T"][prow]
    drm_lay = np.zeros((prow.size, n))
    drm_lay[:, B.lay] = drm_cbm
    try:
        with warnings.catch_warnings():
            warnings.simplefilter("ignore")
            d = drm_lay
            if o.conv is not None:
                d = cb.cbconvert(d, o.bseto, o.conv, drm=True)
            if o.reorder:
                d = cb.cbreorder(d, o.bseto, drm=True)
            mode = int(r.integers(0, 3))
            f = io.StringIO()
            if mode == 0:
                got = cb.rbmultchk(f, d, "DRM", np.asarray(out.rbe))
                rbw = T.RS
                own = d @ np.asarray(out.rbe)
            elif mode == 1:
                got = cb.rbmultchk(f, d, "DRM", np.asarray(out.rbg), bset=T.b_out)
                rbw = None
                own = d[:, T.b_out] @ np.asarray(out.rbg)
            else:
                # b-set leading or trailing columns by keyword
                if np.array_equal(T.b_out, np.arange(nb)):
                    kw = "first"
                elif np.array_equal(T.b_out, np.arange(n - nb, n)):
                    kw = "last"
                else:
                    kw = T.b_out
                got = cb.rbmultchk(f, d, "DRM", np.asarray(out.rbs)[T.b_out], bset=kw,
                                   prtnullrows=True, drm2=d)
                rbw = T.RS
                own = d[:, T.b_out] @ np.asarray(out.rbs)[T.b_out]
        q_out = np.setdiff1d(np.arange(n), T.b_out)
        rbb = np.asarray(out.rbg)
        for kw, dd in (("first", np.hstack([d[:, T.b_out], d[:, q_out]])),
                       ("last", np.hstack([d[:, q_out], d[:, T.b_out]]))):
            g2 = cb.rbmultchk(io.StringIO(), dd, "DRM", rbb, bset=kw)
            o2 = d[:, T.b_out] @ rbb
            sh.check_close("rbmultchk-first-last", g2, o2,
                           64 * EPS * (np.abs(d[:, T.b_out]) @ np.abs(rbb)) + 1e-300,
                           case, dict(tags, bset_kw=kw))
        sh.check_close("rbmultchk-product", got, own,
                       64 * EPS * (np.abs(d) @ np.ones((n, 6)) * np.abs(own).max()
                                   / max(np.abs(d).max(), 1e-300) + np.abs(own)),
                       case, tags)
        # physical truth: rigid motion of the selected nodes, in OLD length units
        rbp = (B.Q @ B.mdl.rb(T.uref_pt / T.L))[prow] @ np.diag(
            np.r_[np.ones(3) / T.L, np.ones(3)])
        if rbw is not None and not T.rb_norm_eff:
            rbp = rbp @ np.linalg.inv(T.N)
        Dp = T.D / T.L
        ap = np.where(np.arange(prow.size) % 6 < 3, 1.0, 1.0 / Dp)
        ctr = (np.r_[True, True, True, False, False, False]
               if (rbw is None or T.rb_norm_eff) else T.col_trans)
        Sp = np.outer(ap, np.where(ctr, 1.0 / T.L, Dp))
        tol = tol_from_sigma(max(sig["rbe"], sig["rbs"]), 40 * T.kN)
        sh.check_close("drm-rb-recovery", got / Sp, rbp / Sp, tol, case,
                       dict(tags, drm_mode=mode))
    except Exception as e:
        sh.violation("exception:rbmultchk", case, {"exc": repr(e)[:300]}, tags)
