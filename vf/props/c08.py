"""C08 -- step-wise generator solution == batch solution for any send history.

A *sequential model of the interface* (``_Model``: a plain force array and the index of
the current step) replays every history; after EVERY send the caller-visible
``d[:, :last+1]``, ``v[:, :last+1]`` and ``ts._force[:, :last+1]`` are compared with the
batch ``tsolve`` of the force prefix on a twin solver, and at the end
``finalize(get_force=True)`` with the batch solution including the acceleration, which is
additionally judged against the equation of motion written with dense matrices built
here.  ``get_f2x(phi, velo)`` is compared with the change that unit add-on forces produce.
"""
from vf import core

ID = "C08"
LEVEL = "exploration"
KINDS = ["unc", "cplx", "cdflag", "cdf", "se2"]
RULE = ("case = (system, history).  system: solver kind in {SolveUnc real-uncoupled, "
        "SolveUnc complex-eigen (coupled m/b/k, or complex-valued diagonal), "
        "SolveUnc(cd_as_force=True), SolveCDF, SolveExp2 (diagonal and full)} x order "
        "{0,1} x rb block {none, auto-detected, explicit index} x rf block x block "
        "order {rb el rf, el rb rf, rf rb el, rf el rb} x m {None, 1-D, 2-D} x "
        "{zero ic, static_ic, d0, v0, d0+v0}.  history: seeded random walk over "
        "send(i,f) with 1<=i<=last+1 and send(-1,f_addon): re-sends of the current step, "
        "jump-backs of 1..last-1 steps, add-on bursts (also directly after a jump-back "
        "and as the first send after step 1), zero forces, then a monotone tail to nt-1; "
        "nt 6..25, 8..40 sends.  distinct = distinct (kind, order, layout, ic, history "
        "shape string) digests; non-trivial = the history contains at least one re-send, "
        "jump-back or add-on and the forces are not all zero")
ASSUMPTIONS = [
    "the batch tsolve of the same class on a twin instance is the reference the property "
    "names; its own correctness is C01/C17's business",
    "round-off tolerance: 1e-11 (uncoupled, cd_as_force, SolveExp2) / max(1e-9, "
    "2000*eps*cond(V)) (complex-eigen path; cond(V) of the eigenvectors of the dense "
    "state matrix built by the harness, cases with cond(V) > 1e6 refused) relative to the "
    "size of the terms that are added to form d, v, a (from the batch solution and the "
    "harness's dense matrices); bugs in the recurrences show up at >= 1e-5",
    "numba is not installed: _solve_real_unc_inner_loop runs as plain Python",
]
MIN_NONTRIVIAL = {"quick": 10000, "thorough": 150000}
TIMEOUT = {"quick": 900, "thorough": 7200}

NSLICE = {"quick": 3, "thorough": 16}
NHIST = {"quick": 1000, "thorough": 2500}     # histories per (kind, slice)
LAYOUTS = [("rb", "el", "rf"), ("el", "rb", "rf"), ("rf", "rb", "el"),
           ("rf", "el", "rb")]
PATTERNS = ["resend", "jumpback", "addon", "addon-burst", "addon-after-jumpback",
            "addon-first", "zero-force", "zero-addon", "deep-jumpback"]


def shards(tier, seed):
    return [{"kind": k, "slice": s} for k in KINDS for s in range(NSLICE[tier])]


# ------------------------------------------------------------------------------------
# workload: systems
# ------------------------------------------------------------------------------------

def _spd_mix(r, np, diag, strength):
    """T' diag T with T = I + strength*randn: symmetric, same inertia, moderate
    eigenvector conditioning."""
    n = len(diag)
    T = np.eye(n) + strength * r.standard_normal((n, n)) / max(1, n) ** 0.5
    return T.T @ (np.asarray(diag)[:, None] * T)


def make_system(r, kind, np):
    """Random legal system for `kind`; returns a dict with ctor args, dense reference
    matrices on the non-rf block, partitions and mechanism tags."""
    order = int(r.integers(0, 2))
    rbmode = ["none", "auto", "explicit"][int(r.integers(0, 3))]
    nrb = 0 if rbmode == "none" else int(r.integers(1, 3))
    nrf = int(r.integers(1, 3)) if r.random() < 0.5 else 0
    nel = int(r.integers(1, 5))
    sub = "diag"
    if kind == "cplx":
        sub = "cvalued" if r.random() < 0.12 else "coupled"
    elif kind == "se2":
        sub = "diag" if r.random() < 0.4 else "coupled"
    elif kind in ("cdflag", "cdf"):
        sub = "cd"
    rfonly = r.random() < 0.05
    if rfonly:
        nrb, nel, nrf, rbmode = 0, 0, 2, "none"
    if sub in ("coupled", "cd") and not rfonly and nrb + nel < 2:
        nel = 2
    layout = LAYOUTS[int(r.integers(0, 4))]
    sizes = {"rb": nrb, "el": nel, "rf": nrf}
    idx, pos = {}, 0
    for blk in layout:
        idx[blk] = np.arange(pos, pos + sizes[blk])
        pos += sizes[blk]
    n = pos
    rb, el, rf = idx["rb"], idx["el"], idx["rf"]
    nonrf = np.sort(np.concatenate([rb, el])).astype(int)

    # -- modal data ----------------------------------------------------------------
    mform = ["none", "1d", "2d"][int(r.integers(0, 3))]
    mass = np.ones(n) if mform == "none" else r.uniform(0.5, 20.0, n)
    freq = r.uniform(1.0, 40.0, n)
    freq[rf] = r.uniform(100.0, 400.0, nrf)
    wn = 2 * np.pi * freq
    zeta = r.uniform(0.01, 0.3, n)
    if kind == "unc":
        for i in el:
            u = r.random()
            if u < 0.15:
                zeta[i] = 1.0
            elif u < 0.35:
                zeta[i] = r.uniform(1.2, 3.0)
    kd = mass * wn ** 2
    bd = 2 * zeta * mass * wn
    kd[rb] = 0.0
    bd[rb] = 0.0
    damped_rb = bool(kind == "unc" and nrb and rbmode == "auto" and r.random() < 0.3)
    if kind == "unc" and nrb and rbmode != "none" and r.random() < 0.3:
        damped_rb = True
        bd[rb] = r.uniform(0.5, 5.0, nrb) * mass[rb]
    wmax = wn[el].max() if nel else 2 * np.pi * 10.0
    h = float(r.uniform(0.05, 1.0) / wmax)

    M = np.diag(mass)
    B = np.diag(bd)
    K = np.diag(kd)
    if sub == "coupled":
        if nel >= 2:
            K[np.ix_(el, el)] = _spd_mix(r, np, kd[el], 0.4)
            B[np.ix_(el, el)] = _spd_mix(r, np, bd[el], 0.6)
            if mform == "2d":
                M[np.ix_(el, el)] = _spd_mix(r, np, mass[el], 0.3)
                if kind == "se2" and r.random() < 0.5:
                    # SolveExp2 takes general matrices: a non-symmetric mass (e.g. a
                    # transformed or gyroscopically augmented one) separates inv(M)
                    # from its transpose
                    Z = r.standard_normal((nel, nel))
                    M[np.ix_(el, el)] += 0.12 * np.sqrt(np.outer(mass[el], mass[el])) \
                        * (Z - Z.T) / 2
        else:
            # a single elastic DOF cannot be coupled: couple the damping of the
            # non-rf block through the rigid-body rows?  no -- rb must stay undamped
            # for auto detection; use a full rf or rb mass block instead
            pass
        if mform == "2d" and nrb >= 2:
            M[np.ix_(rb, rb)] = _spd_mix(r, np, mass[rb], 0.3)
        if nrf >= 2:
            K[np.ix_(rf, rf)] = _spd_mix(r, np, kd[rf], 0.3)
    elif sub == "cd":
        if rfonly:
            B[np.ix_(rf, rf)] += 0.1 * bd[rf].mean() * (np.ones((2, 2)) - np.eye(2))
        else:
            sc = 0.2 * (bd[el].mean() if nel else 1.0)
            X = sc * r.standard_normal((len(nonrf), len(nonrf)))
            X = (X + X.T) / 2
            X[np.arange(len(nonrf)), np.arange(len(nonrf))] = 0.0
            B[np.ix_(nonrf, nonrf)] += X

    def isdiag(a):
        return not np.any(a - np.diag(np.diag(a)))

    # -- what is handed to pyYeti ------------------------------------------------------
    twod = {"m": False, "b": False, "k": False}
    if sub in ("diag", "cvalued"):
        for nm in twod:
            twod[nm] = bool(r.random() < 0.3)
    if mform == "none":
        m_in = None
    elif mform == "2d" or not isdiag(M) or twod["m"]:
        m_in = M.copy()
    else:
        m_in = np.diag(M).copy()
    b_in = B.copy() if (not isdiag(B) or twod["b"]) else np.diag(B).copy()
    k_in = K.copy() if (not isdiag(K) or twod["k"]) else np.diag(K).copy()
    if sub == "cd" and b_in.ndim == 1:
        b_in = B.copy()
    if sub == "cvalued":
        b_in = b_in * (1 + 0.05j)
        B = B * (1 + 0.05j)
    coupled_in = any(a is not None and a.ndim == 2 and not isdiag(a)
                     for a in (m_in, b_in, k_in))
    if sub == "coupled" and not coupled_in:
        sub = "diag-fallback"      # 1 elastic DOF, nothing to couple: real path
    rb_arg = None if rbmode == "auto" else ([] if rbmode == "none" else
                                            (rb.copy() if r.random() < 0.5 else
                                             np.isin(np.arange(n), rb)))
    rf_arg = None if nrf == 0 else (rf.copy() if r.random() < 0.6 else
                                    np.isin(np.arange(n), rf))
    cls = {"unc": "SolveUnc", "cplx": "SolveUnc", "cdflag": "SolveUnc",
           "cdf": "SolveCDF", "se2": "SolveExp2"}[kind]
    kw = dict(h=h, rb=rb_arg, rf=rf_arg, order=order)
    if kind == "cdflag":
        kw["cd_as_force"] = True

    # -- forces / initial conditions ----------------------------------------------------
    fscale = mass * np.where(kd > 0, wn ** 2, wn[el].mean() ** 2 if nel else 1.0)
    if sub == "coupled":
        fscale = np.full(n, fscale[nonrf].mean() if len(nonrf) else 1.0)
        fscale[rf] = (mass * wn ** 2)[rf]
    icmode = ["zero", "static", "d0", "v0", "d0v0"][int(r.integers(0, 5))]
    d0 = r.standard_normal(n) if icmode in ("d0", "d0v0") else None
    v0 = r.standard_normal(n) * wn.mean() * 0.2 if icmode in ("v0", "d0v0") else None
    path = ("complex" if (coupled_in and kind in ("unc", "cplx")) or sub == "cvalued"
            else "se2" if kind == "se2" else "cdforces" if sub == "cd" else "real")
    tags = {"kind": kind, "sub": sub, "path": path, "order": order, "rbmode": rbmode,
            "nrb": nrb, "nel": nel, "nrf": nrf, "layout": "-".join(layout),
            "mform": mform, "ic": icmode, "rfonly": bool(rfonly),
            "damped_rb": damped_rb,
            "m_in": "none" if m_in is None else f"{m_in.ndim}d",
            "b_in": f"{b_in.ndim}d", "k_in": f"{k_in.ndim}d"}
    return dict(cls=cls, m=m_in, b=b_in, k=k_in, kw=kw, n=n, h=h, order=order,
                M=M, B=B, K=K, rb=rb, el=el, rf=rf, nonrf=nonrf, fscale=fscale,
                d0=d0, v0=v0, static_ic=(icmode == "static"), tags=tags)


def build(ode, S):
    return getattr(ode, S["cls"])(S["m"], S["b"], S["k"], **S["kw"])


# ------------------------------------------------------------------------------------
# workload: histories
# ------------------------------------------------------------------------------------

def make_history(r, nt):
    """List of ops (i, fkind): i >= 1 ordinary send, i == -1 add-on; fkind in
    {'r' random force, 'z' zero force}.  Returns (ops, patterns)."""
    ops, pats = [], set()
    last = 0

    def fk():
        z = r.random() < 0.1
        return "z" if z else "r"

    def addons(nmax):
        k = 1 + int(r.integers(0, nmax))
        for _ in range(k):
            f = fk()
            ops.append((-1, f))
            pats.add("addon")
            if f == "z":
                pats.add("zero-addon")
        if k > 1:
            pats.add("addon-burst")

    ops.append((1, fk()))
    last = 1
    if r.random() < 0.3:
        pats.add("addon-first")
        addons(3)
    K = int(r.integers(3, max(4, 40 - (nt - 1)) + 1))
    while len(ops) < K:
        u = r.random()
        if u < 0.40 and last < nt - 1:
            last += 1
            ops.append((last, fk()))
        elif u < 0.55:
            ops.append((last, fk()))
            pats.add("resend")
        elif u < 0.75 and last >= 2:
            j = int(r.integers(1, last))
            if last - j >= 3:
                pats.add("deep-jumpback")
            last = j
            ops.append((last, fk()))
            pats.add("jumpback")
            if r.random() < 0.4:
                pats.add("addon-after-jumpback")
                addons(2)
        else:
            addons(3)
    while last < nt - 1:
        last += 1
        ops.append((last, fk()))
    if any(f == "z" for _, f in ops):
        pats.add("zero-force")
    return ops, pats


def shape_string(ops):
    return " ".join("+" if i < 0 else str(i) for i, _ in ops)


class _Model:
    """The sequential model of the interface (the oracle): a plain force array."""

    def __init__(self, np, n, nt, F0, dtype):
        self._abs = np.abs
        self.F = np.zeros((n, nt), dtype)
        self.F[:, 0] = F0
        # size of the terms that were added to form each force column (add-ons may
        # cancel: the tolerance scale must follow the summands, not their sum)
        self.Fabs = np.zeros((n, nt))
        self.Fabs[:, 0] = np.abs(F0)
        self.last = 0

    def send(self, i, f):
        if i < 0:
            self.F[:, self.last] += f
            self.Fabs[:, self.last] += self._abs(f)
        else:
            assert 1 <= i <= self.last + 1
            self.F[:, i] = f
            self.Fabs[:, i] = self._abs(f)
            self.last = i
        return self.F[:, :self.last + 1]


# ------------------------------------------------------------------------------------
# monitors
# ------------------------------------------------------------------------------------

def _absmats(np, S):
    """|inv(M)|, |B|, |K| on the non-rf block and |inv(K_rf)| (dense, built here)."""
    nonrf, rf = S["nonrf"], S["rf"]
    ix = np.ix_(nonrf, nonrf)
    out = {"Mi": np.abs(np.linalg.inv(S["M"][ix])) if len(nonrf) else None,
           "B": np.abs(S["B"][ix]), "K": np.abs(S["K"][ix]),
           "Krfi": np.abs(np.linalg.inv(S["K"][np.ix_(rf, rf)])) if len(rf) else None}
    return out


def _scales(np, S, am, want, F):
    """Row scales for d, v, a: the size of the terms that are added to form them (a
    static start makes v cancel to round-off: v_{i+1} = v_i + (integral of a) where a is a
    sum of terms inv(M) F, inv(M) B v, inv(M) K d; likewise d_{i+1} = d_i + h v + ...).
    Computed from the batch (reference) solution, never from the generator's output."""
    n = S["n"]
    nonrf, rf, h = S["nonrf"], S["rf"], S["h"]
    d, v = np.abs(want.d), np.abs(want.v)
    sd = np.zeros((n, 1))
    sv = np.zeros((n, 1))
    sa = np.zeros((n, 1))
    if len(nonrf):
        acc = am["Mi"] @ (am["B"] @ v[nonrf] + am["K"] @ d[nonrf] + np.abs(F[nonrf]))
        A = acc.max(axis=1, keepdims=True)
        A = np.maximum(A, 1e-3 * A.max())
        V = np.maximum(v[nonrf].max(axis=1, keepdims=True), h * A)
        V = np.maximum(V, 1e-3 * V.max())
        D = np.maximum(d[nonrf].max(axis=1, keepdims=True), h * V)
        D = np.maximum(D, 1e-3 * D.max())
        sd[nonrf], sv[nonrf], sa[nonrf] = D, V, A
    if len(rf):
        sd[rf] = (am["Krfi"] @ np.abs(F[rf])).max(axis=1, keepdims=True)
    return sd + 1e-300, sv + 1e-300, sa + 1e-300


EPS = 2.220446049250313e-16


def _tolrel(np, sh, S):
    """Relative round-off allowance.  Uncoupled / cd_as_force / SolveExp2 recurrences are
    sums of a handful of products: 1e-11.  The complex-eigen path transforms through the
    eigenvector matrix of the state matrix, so its round-off is eps*cond(V); cond(V) is
    measured HERE on the dense state matrix built by the workload generator (numpy eig,
    unit-norm columns), never on pyYeti's pc.ur.  Observed: errors up to 1e-11 at
    cond(V) ~ 1e2..1e4 (err/(eps*cond) up to 200); allowed max(1e-9, 2000 eps cond(V)).
    cond(V) > 1e6 -> the case is refused (not judged)."""
    if "rtol" in S:
        return S["rtol"]
    rtol = 1e-11
    el = S["el"]
    if S["tags"]["path"] == "complex" and len(el):
        ix = np.ix_(el, el)
        n = len(el)
        Mi = np.linalg.inv(S["M"][ix])
        A = np.zeros((2 * n, 2 * n), dtype=np.result_type(S["B"], float))
        A[:n, :n] = -Mi @ S["B"][ix]
        A[:n, n:] = -Mi @ S["K"][ix]
        A[n:, :n] = np.eye(n)
        _, V = np.linalg.eig(A)
        V = V / np.linalg.norm(V, axis=0)
        cV = float(np.linalg.cond(V))
        S["condV"] = cV
        sh.count("cell:eigvec-cond:" + ("<1e3" if cV < 1e3 else "1e3-1e4" if cV < 1e4
                                        else "1e4-1e6" if cV < 1e6 else ">1e6"))
        if not cV < 1e6:
            rtol = None
        else:
            rtol = max(1e-9, 2000 * EPS * cV)
    S["rtol"] = rtol
    return rtol


def _batch(twin, S, F):
    return twin.tsolve(F, d0=S["d0"], v0=S["v0"], static_ic=S["static_ic"])


def _eom_check(sh, np, S, sol, F, case, tags):
    """M a + B v + K d = F on the non-rf block, K_rf d_rf = F_rf, v_rf = a_rf = 0; all
    with the dense matrices built by the workload generator."""
    nonrf, rf = S["nonrf"], S["rf"]
    d, v, a = sol.d, sol.v, sol.a
    if len(nonrf):
        ix = np.ix_(nonrf, nonrf)
        M, B, K = S["M"][ix], S["B"][ix], S["K"][ix]
        res = M @ a[nonrf] + B @ v[nonrf] + K @ d[nonrf] - F[nonrf]
        sc = (np.abs(M) @ np.abs(a[nonrf]) + np.abs(B) @ np.abs(v[nonrf])
              + np.abs(K) @ np.abs(d[nonrf]) + np.abs(F[nonrf]))
        sc = np.maximum(sc, 1e-3 * sc.max()) + 1e-300
        sh.check_close("finalize-eom-residual", res, np.zeros_like(res),
                       1e-10 * sc, case, tags)
    if len(rf):
        Krf = S["K"][np.ix_(rf, rf)]
        res = Krf @ d[rf] - F[rf]
        sc = np.abs(Krf) @ np.abs(d[rf]) + np.abs(F[rf])
        sc = np.maximum(sc, 1e-3 * sc.max()) + 1e-300
        sh.check_close("finalize-rf-static", res, np.zeros_like(res), 1e-11 * sc,
                       case, tags)
        sh.check_equal("finalize-rf-va-zero",
                       bool(not np.any(v[rf]) and not np.any(a[rf])), True, case, tags)


def run_history(sh, np, ode, S, ops, r, case, tags, warm=False):
    """Drive one history through the generator; monitors after every send."""
    n = S["n"]
    nt = 1 + max(i for i, _ in ops)
    rtol = _tolrel(np, sh, S)
    ts = build(ode, S)
    twin = build(ode, S)
    am = _absmats(np, S)
    if warm:
        # a previous, abandoned-then-finalized use of the same instance must not leak
        g0, _, _ = ts.generator(4, np.zeros(n), d0=S["d0"], v0=S["v0"])
        g0.send((1, S["fscale"] * r.standard_normal(n)))
        g0.send((-1, S["fscale"] * r.standard_normal(n)))
        g0.send((1, S["fscale"] * r.standard_normal(n)))
        ts.finalize()
    F0 = S["fscale"] * r.standard_normal(n)
    if r.random() < 0.1:
        F0 = np.zeros(n)
    gen, d, v = ts.generator(nt, F0, d0=S["d0"], v0=S["v0"], static_ic=S["static_ic"])
    sh.check_equal("shared-arrays", bool(d is ts._d and v is ts._v), True, case, tags)
    model = _Model(np, n, nt, F0, d.dtype)
    for step, (i, fkind) in enumerate(ops):
        f = np.zeros(n) if fkind == "z" else S["fscale"] * r.standard_normal(n)
        if fkind != "z" and r.random() < 0.2:
            f[r.random(n) < 0.5] = 0.0
        Fp = model.send(i, f)
        gen.send((i, f.copy()))
        last = model.last
        want = _batch(twin, S, Fp.copy())
        ctx = {**case, "failed_at_send": step, "op": [i, fkind], "last": last}
        sd, sv, _ = _scales(np, S, am, want, model.Fabs[:, :last + 1])
        okd = sh.check_close("send-d", d[:, :last + 1], want.d, rtol * sd, ctx, tags)
        okv = sh.check_close("send-v", v[:, :last + 1], want.v, rtol * sv, ctx, tags)
        okf = sh.check_equal("send-force", np.asarray(ts._force[:, :last + 1]),
                             np.asarray(Fp, dtype=ts._force.dtype), ctx, tags)
        sh.count("sends")
        if not (okd and okv and okf):
            return False          # later sends inherit the damage: one report per case
    sol = ts.finalize(get_force=True)
    want = _batch(twin, S, model.F.copy())
    sd, sv, sa = _scales(np, S, am, want, model.Fabs)
    sh.check_close("finalize-d", sol.d, want.d, rtol * sd, case, tags)
    sh.check_close("finalize-v", sol.v, want.v, rtol * sv, case, tags)
    sh.check_close("finalize-a", sol.a, want.a, rtol * sa, case, tags)
    sh.check_equal("finalize-force", np.asarray(sol.force),
                   np.asarray(model.F, dtype=sol.force.dtype), case, tags)
    sh.check_close("finalize-t", sol.t, S["h"] * np.arange(nt), 0.0, case, tags)
    sh.check_equal("finalize-deletes-refs",
                   any(hasattr(ts, a) for a in ("_d", "_v", "_a", "_force")), False,
                   case, tags)
    _eom_check(sh, np, S, sol, model.F, case, tags)
    return True


def run_f2x(sh, np, ode, S, r, case, tags):
    """get_f2x(phi, velo) == phi X phi' with X[:, k] the change of d (v) at the current
    step caused by send(-1, e_k).  Measured (a) on a zero state, where the change is the
    value itself, and (b) on a live state at a random step."""
    n = S["n"]
    ts = build(ode, S)
    p = int(r.integers(1, 4))
    phi = r.standard_normal((p, n))
    if S["tags"]["sub"] == "cvalued":
        sh.count("mon:f2x-complex-notimplemented")
        try:
            ts.get_f2x(phi)
        except NotImplementedError:
            return
        except Exception as e:
            sh.violation("f2x-complex-notimplemented", case, {"exc": repr(e)}, tags)
            return
        sh.violation("f2x-complex-notimplemented", case, {"returned": True}, tags)
        return
    flex = {velo: ts.get_f2x(phi, velo=velo) for velo in (False, True)}
    if S["order"] == 0:
        for velo in (False, True):
            sh.check_equal("f2x-order0-zeros", np.asarray(flex[velo]),
                           np.zeros((p, p)), case, tags)
        return
    for state in ("zero", "live"):
        nt = 5
        istep = int(r.integers(1, nt))
        if state == "zero":
            gen, d, v = ts.generator(nt, np.zeros(n))
            for i in range(1, istep + 1):
                gen.send((i, np.zeros(n)))
        else:
            gen, d, v = ts.generator(nt, S["fscale"] * r.standard_normal(n),
                                     d0=S["d0"], v0=S["v0"], static_ic=S["static_ic"])
            for i in range(1, istep + 1):
                gen.send((i, S["fscale"] * r.standard_normal(n)))
        amp = S["fscale"]
        Xd = np.zeros((n, n))
        Xv = np.zeros((n, n))
        floor_d = np.zeros(n)
        floor_v = np.zeros(n)
        for k in range(n):
            e = np.zeros(n)
            e[k] = amp[k]
            d0c, v0c = d[:, istep].real.copy(), v[:, istep].real.copy()
            gen.send((-1, e))
            Xd[:, k] = (d[:, istep].real - d0c) / amp[k]
            Xv[:, k] = (v[:, istep].real - v0c) / amp[k]
            floor_d = np.maximum(floor_d, np.abs(d[:, istep]) / amp[k])
            floor_v = np.maximum(floor_v, np.abs(v[:, istep]) / amp[k])
            if state == "zero":
                gen.send((istep, np.zeros(n)))     # re-send: back to the zero state
        ts.finalize()
        for velo, X, fl in ((False, Xd, floor_d), (True, Xv, floor_v)):
            want = phi @ X @ phi.T
            sc = np.abs(phi) @ np.abs(X) @ np.abs(phi.T)
            # subtraction d_after - d_before costs eps*|d| per row (live state only)
            cancel = (np.abs(phi) @ fl)[:, None] * np.abs(phi).sum(axis=1)[None, :]
            tol = S["rtol"] * np.maximum(sc, 1e-3 * sc.max()) + 1e-300
            if state == "live":
                tol = tol + 64 * 2.3e-16 * cancel * n
            sh.check_close(f"f2x-{'velo' if velo else 'disp'}-{state}",
                           np.asarray(flex[velo]), want, tol, case, tags)


def run_refusals(sh, np, ode, r):
    """Interleaved layouts and pre_eig must raise NotImplementedError."""
    h = 0.01
    for cls in ("SolveUnc", "SolveCDF", "SolveExp2"):
        C = getattr(ode, cls)
        for variant in ("rf-in-middle", "rb-split", "rf-split", "pre_eig-full",
                        "pre_eig-diag-ok"):
            n = 5
            m = r.uniform(1, 3, n)
            k = m * (2 * np.pi * r.uniform(2, 20, n)) ** 2
            b = 0.05 * np.sqrt(k * m)
            kw = {}
            if variant == "rf-in-middle":
                kw["rf"] = [2]
            elif variant == "rb-split":
                k[[0, 3]] = 0.0
                b[[0, 3]] = 0.0
            elif variant == "rf-split":
                kw["rf"] = [0, 4]
            elif variant == "pre_eig-full":
                kw["pre_eig"] = True
                k = np.diag(k)
                k[0, 1] = k[1, 0] = 0.1 * k[0, 0]
            elif variant == "pre_eig-diag-ok":
                kw["pre_eig"] = True       # all 1-D input: documented as ignored
            bb = b
            if variant != "pre_eig-diag-ok" and (
                    cls == "SolveCDF" or (cls == "SolveUnc" and r.random() < 0.3)):
                bb = np.diag(b)
                bb[1, 2] = bb[2, 1] = 0.05 * b[1]
            case = {"cls": cls, "variant": variant}
            tags = {"cls": cls, "variant": variant}
            sh.case(["refusal", cls, variant], nontrivial=False)
            try:
                ts = C(m, bb, k, h, **kw)
            except Exception as e:
                sh.violation("exception:ctor-refusal", case, {"exc": repr(e)}, tags)
                continue
            expect_ok = variant == "pre_eig-diag-ok"
            sh.count("mon:refusal" if not expect_ok else "mon:pre_eig-diag-accepted")
            try:
                gen, d, v = ts.generator(4, np.ones(n))
                gen.send((1, np.ones(n)))
            except NotImplementedError:
                if expect_ok:
                    sh.violation("pre_eig-diag-accepted", case,
                                 {"raised": "NotImplementedError"}, tags)
                continue
            except Exception as e:
                sh.violation("refusal", case, {"exc": repr(e)}, tags)
                continue
            if not expect_ok:
                sh.violation("refusal", case, {"returned": "a generator"}, tags)


def run_degenerate(sh, np, ode, kind, r):
    """nt = 1 (nothing can be sent; also with h=None, the static solver) and nt = 2."""
    for j in range(12):
        S = make_system(r, kind, np)
        if _tolrel(np, sh, S) is None:
            continue
        n = S["n"]
        nt = 1 + j % 2
        static = j % 4 == 2
        if static:
            S = {**S, "kw": {**S["kw"], "h": None}}
            nt = 1
        tags = {**S["tags"], "degenerate": True, "nt": nt, "h_none": static}
        case = {"degenerate": j, "kind": kind, "nt": nt, "h_none": static,
                "tags": S["tags"]}
        sh.case(["degenerate", kind, j, S["tags"]["layout"]], nontrivial=False)
        try:
            ts, twin = build(ode, S), build(ode, S)
            F = S["fscale"][:, None] * r.standard_normal((n, nt))
            gen, d, v = ts.generator(nt, F[:, 0].copy(), d0=S["d0"], v0=S["v0"],
                                     static_ic=S["static_ic"])
            if nt == 2:
                gen.send((1, F[:, 1].copy()))
                gen.send((-1, F[:, 1].copy()))
                F[:, 1] *= 2
            sol = ts.finalize(get_force=True)
            want = _batch(twin, S, F.copy())
            am = _absmats(np, S)
            S1 = {**S, "h": S["h"] if not static else 0.0}
            sd, sv, sa = _scales(np, S1, am, want, F)
            sh.check_close("degenerate-d", sol.d, want.d, S["rtol"] * sd, case, tags)
            sh.check_close("degenerate-v", sol.v, want.v, S["rtol"] * sv, case, tags)
            sh.check_close("degenerate-a", sol.a, want.a, S["rtol"] * sa, case, tags)
            sh.check_equal("degenerate-force", np.asarray(sol.force),
                           np.asarray(F, dtype=sol.force.dtype), case, tags)
        except Exception as e:
            import traceback
            sh.violation("exception:degenerate", case,
                         {"exc": repr(e), "tb": traceback.format_exc()[-1200:]}, tags)


# ------------------------------------------------------------------------------------

def run_shard(sh, params):
    import numpy as np
    from pyyeti import ode
    kind, sl = params["kind"], params["slice"]
    nh = NHIST[sh.tier]
    shapes = set()
    for ci in range(nh):
        r = core.rng(sh.seed, "C08", kind, sl, ci)
        S = make_system(r, kind, np)
        nt = int(r.integers(6, 26))
        ops, pats = make_history(r, nt)
        shp = shape_string(ops)
        tags = dict(S["tags"])
        tags["patterns"] = sorted(pats)
        case = {"slice": sl, "index": ci, "kind": kind, "nt": nt, "shape": shp,
                "tags": S["tags"]}
        nontriv = bool(pats & {"resend", "jumpback", "addon"})
        sh.case([kind, S["order"], S["tags"]["layout"], S["tags"]["ic"],
                 S["tags"]["sub"], S["tags"]["rbmode"], S["tags"]["nrf"] > 0, shp],
                nontriv, sample=case)
        shapes.add(shp)
        sh.count(f"cell:{kind}:order{S['order']}")
        sh.count(f"cell:path:{S['tags']['path']}")
        sh.count(f"cell:sub:{S['tags']['sub']}")
        sh.count(f"cell:{kind}:rb-{S['tags']['rbmode']}")
        sh.count(f"cell:{kind}:rf-{'yes' if S['tags']['nrf'] else 'no'}")
        sh.count(f"cell:{kind}:m-{S['tags']['mform']}")
        sh.count(f"cell:{kind}:ic-{S['tags']['ic']}")
        sh.count(f"cell:layout:{S['tags']['layout']}")
        if S["tags"]["rfonly"]:
            sh.count(f"cell:{kind}:rf-only")
        for p in pats:
            sh.count(f"pattern:{kind}:{p}")
        sh.count("hist:sends-total", len(ops))
        ns = len(ops)
        sh.count("hist:sends:" + ("08-15" if ns < 16 else "16-23" if ns < 24 else
                                  "24-31" if ns < 32 else "32-40" if ns <= 40 else
                                  "41+"))
        sh.count(f"hist:nt:{'06-12' if nt < 13 else '13-19' if nt < 20 else '20-25'}")
        if _tolrel(np, sh, S) is None:
            sh.refused += 1
            sh.count("refused:eigvec-cond>1e6")
            continue
        try:
            run_history(sh, np, ode, S, ops, r, case, tags, warm=(ci % 4 == 3))
        except Exception as e:
            import traceback
            sh.violation("exception:history", case,
                         {"exc": repr(e), "tb": traceback.format_exc()[-1200:]}, tags)
        if ci % 3 == 0:
            try:
                run_f2x(sh, np, ode, S, r, case, tags)
            except Exception as e:
                import traceback
                sh.violation("exception:f2x", case,
                             {"exc": repr(e), "tb": traceback.format_exc()[-1200:]},
                             tags)
    sh.count("hist:distinct-shapes-in-shard", len(shapes))
    sh.shapes = shapes
    # distinct shapes across shards: exported through counters keyed by digest prefix
    for s in shapes:
        sh.count("shape:" + core.digest(s))
    if sl == 0:
        run_refusals(sh, np, ode, core.rng(sh.seed, "C08", "refusals", kind))
    run_degenerate(sh, np, ode, kind, core.rng(sh.seed, "C08", "degenerate", kind, sl))


MONITORS = ["send-d", "send-v", "send-force", "finalize-d", "finalize-v", "finalize-a",
            "finalize-force", "finalize-eom-residual", "finalize-rf-static",
            "f2x-disp-zero", "f2x-velo-zero", "f2x-disp-live", "f2x-velo-live",
            "f2x-order0-zeros", "refusal", "shared-arrays", "finalize-deletes-refs",
            "f2x-complex-notimplemented", "degenerate-d", "degenerate-a",
            "finalize-rf-va-zero", "finalize-t"]


def finalize(agg, tier):
    why = []
    c = agg["counters"]
    for k in MONITORS:
        if not c.get("mon:" + k):
            why.append(f"monitor {k} never evaluated")
    for kind in KINDS:
        for o in (0, 1):
            if not c.get(f"cell:{kind}:order{o}"):
                why.append(f"cell {kind} x order {o} empty")
        for cell in ("rb-none", "rb-auto", "rb-explicit", "rf-yes", "rf-no", "m-none",
                     "m-1d", "m-2d", "ic-zero", "ic-static", "ic-d0", "ic-v0",
                     "ic-d0v0"):
            if not c.get(f"cell:{kind}:{cell}"):
                why.append(f"cell {kind} x {cell} empty")
        for p in PATTERNS:
            if not c.get(f"pattern:{kind}:{p}"):
                why.append(f"history pattern {p} never generated for {kind}")
    for p in ("real", "complex", "cdforces", "se2"):
        if not c.get("cell:path:" + p):
            why.append(f"solver path {p} never executed")
    return why


def evidence_extra(agg, tier):
    c = agg["counters"]
    nshape = sum(1 for k in c if k.startswith("shape:"))
    shapes = [x["shape"] for x in agg["samples"] if isinstance(x, dict) and "shape" in x]
    return {"distinct_history_shapes": nshape,
            "history_shape_examples": shapes[:4],
            "sends_checked_against_batch": c.get("sends", 0),
            "sends_per_history": {k[11:]: v for k, v in sorted(c.items())
                                  if k.startswith("hist:sends:")},
            "history_patterns": {k[8:]: v for k, v in sorted(c.items())
                                 if k.startswith("pattern:")},
            # the per-shape counters are only a vehicle for the distinct count
            "coverage_cells": {k: v for k, v in sorted(c.items())
                               if not k.startswith(("mon:", "violation:", "shape:",
                                                    "pattern:"))}}
