"""C13 -- bulk-data writers and their readers are mutual inverses.

wtspoints/rdspoints, wtcsuper/rdcsupers, wtextrn/rdextrn, wtset/rdsets,
wttabled1/rdtabled1, wtdmig/rddmig, wtgrids/rdgrids, wtcoordcards/rdcord2cards,
wtcoordcards+wtgrids -> bulk2uset, uset2bulk -> bulk2uset.

Every text a writer produces is (a) limited to 80 columns, (b) parsed by the harness'
own readers (vf/oracles/nas_bulk.py on top of nas_field.py) and compared with the input
(writer alone), (c) read by pyYeti's reader and compared with the own reading exactly
and with the input (integers / labels exactly, reals to half a unit of the last digit
the writer's format wrote).
"""
import io
import math
import os

from vf import core

ID = "C13"
LEVEL = "exploration"
RULE = ("round trips: id lists (singleton, THRU run, run broken by one gap, runs of two, "
        "mixed, 8k/8k+-1 non-consecutive items, up to 500 ids, 8-digit ids, unsorted) "
        "through SPOINT / CSUPER / EXTRN / SET; tables with 1,2,3,4,5,8,9 and random "
        "numbers of points in both field widths and several formats and names; DMIG "
        "real/complex x single/double, forms 1/2/6/9, grid + scalar-point labels with "
        "partial DOF, unsorted labels, empty rows/columns, magnitudes 1e-99..1e99, "
        "square blocks with row labels != column labels, nearly symmetric values; GRID "
        "with scalar/vector cp, cd, ps, seid and 5 number formats; CORD2R/C/S chains of "
        "depth 0-4 in all type mixes with GRIDs defined in them; USET tables -> "
        "uset2bulk -> bulk2uset.  distinct = digest of (family, input); non-trivial = "
        "at least one identifier / one non-zero value written")
ASSUMPTIONS = [
    "entry layouts as in the Quick Reference Guide (DMIG header/column entries, "
    "TABLED1 pairs from the second line with ENDT, CORD2x A/B/C points in the "
    "reference system's own coordinates, angles in degrees)",
    "DMIG rows/columns that are entirely zero have no card image: labels are compared "
    "after dropping them; rddmig returns labels sorted by (id, dof), so unsorted input "
    "labels are aligned by label, not by position",
    "bulk2uset returns grids sorted by id and puts them in the b-set (documented); USET "
    "inputs are generated with ascending ids in the b-set, unsorted ones are aligned by "
    "id",
    "table / GRID number formats are the caller's: values are generated inside the "
    "range the chosen format can hold",
]
MIN_NONTRIVIAL = {"quick": 2500, "thorough": 100000}
TIMEOUT = {"quick": 1200, "thorough": 7200}
NSLICE = {"quick": 12, "thorough": 16}
# per shard counts
BUDGET = {"quick": {"ids": 200, "table": 140, "dmig": 160, "grid": 90, "cord": 50,
                    "uset": 50},
          "thorough": {"ids": 4200, "table": 2600, "dmig": 2600, "grid": 1500,
                       "cord": 900, "uset": 900}}


def shards(tier, seed):
    n = NSLICE[tier]
    return [{"slice": s, "nslice": n} for s in range(n)]


# ------------------------------------------------------------------------------------
# helpers

def _lines_ok(sh, text, case, tags, limit=80, where="line-length"):
    sh.count("mon:line-length")
    mx = max((len(ln) for ln in text.split("\n")), default=0)
    if mx > limit:
        bad = [ln for ln in text.split("\n") if len(ln) > limit][:3]
        sh.violation("line-length", case, {"max": mx, "limit": limit, "lines": bad},
                     tags)
        return False
    return True


def _half_unit(raw):
    from vf.oracles import nas_field as nf
    h = nf.half_unit_of_text(raw)
    return h


def _real_close(sh, kind, x, own, raw, case, tags):
    """input x vs the own reading of the written field ``raw``: half a unit of the last
    written digit (+ 1 ulp for the binary/decimal conversion)."""
    h = _half_unit(raw)
    if h is None or not isinstance(own, float):
        sh.violation(kind, case, {"field": raw, "own_read": own, "input": x}, tags)
        return False
    tol = h * (1 + 1e-9) + math.ulp(x)
    err = abs(own - x)
    sh.worst(kind + ":real", err / tol if tol > 0 else (0 if err == 0 else math.inf))
    if not err <= tol:
        sh.violation(kind, case, {"field": raw, "own_read": own, "input": x,
                                  "err": err, "half_unit": h}, tags)
        return False
    return True


def _idlist(r, kind):
    import numpy as np
    if kind == "single":
        return [int(r.integers(1, 10 ** int(r.integers(1, 9))))]
    if kind == "run":
        a = int(r.integers(1, 10 ** int(r.integers(1, 8))))
        return list(range(a, a + int(r.integers(2, 60))))
    if kind == "pairs":
        out, a = [], int(r.integers(1, 1000))
        for _ in range(int(r.integers(1, 12))):
            out += [a, a + 1]
            a += int(r.integers(3, 50))
        return out
    if kind == "gap1":
        a = int(r.integers(1, 100000))
        n = int(r.integers(4, 40))
        lst = list(range(a, a + n))
        del lst[int(r.integers(1, n - 1))]
        return lst
    if kind == "mixed":
        out, a = [], int(r.integers(1, 5000))
        for _ in range(int(r.integers(2, 25))):
            if r.random() < 0.5:
                n = int(r.integers(2, 12))
                out += list(range(a, a + n))
                a += n + int(r.integers(1, 30))
            else:
                out.append(a)
                a += int(r.integers(2, 30))
        return out
    if kind == "fill":
        n = max(1, 8 * int(r.integers(1, 9)) + int(r.integers(-1, 2))
                - int(r.choice([0, 0, 2, 1])))
        a = int(r.integers(1, 1000))
        return [a + 2 * i + (i % 3 == 0) * 0 for i in range(n)]
    if kind == "long":
        n = int(r.integers(100, 501))
        steps = r.choice([1, 1, 1, 2, 5], n)
        return np.cumsum(steps).astype(int).tolist()
    if kind == "big":
        n = int(r.integers(1, 30))
        top = 99999999
        steps = r.choice([1, 1, 2, 7], n)
        lst = (top - np.cumsum(steps)[::-1] + 1).astype(int).tolist()
        return [x for x in lst if x > 0]
    if kind == "unsorted":
        lst = r.choice(np.arange(1, 400), int(r.integers(2, 40)), replace=False)
        return [int(x) for x in lst]
    raise ValueError(kind)


IDKINDS = ["single", "run", "pairs", "gap1", "mixed", "fill", "long", "big", "unsorted"]


def _as_container(r, ids):
    import numpy as np
    k = int(r.integers(0, 4))
    if k == 0:
        return list(ids), "list"
    if k == 1:
        return np.array(ids, dtype=np.int64), "int64"
    if k == 2 and max(ids) < 2 ** 31:
        return np.array(ids, dtype=np.int32), "int32"
    return tuple(ids), "tuple"


# ------------------------------------------------------------------------------------
# id lists

def _run_ids(sh, params, bulk, nb):
    import numpy as np
    s = params["slice"]
    n = BUDGET[sh.tier]["ids"]
    for i in range(n):
        r = core.rng(sh.seed, "C13", "ids", s, i)
        kind = IDKINDS[(i + s) % len(IDKINDS)]
        ids = _idlist(r, kind)
        cont, cname = _as_container(r, ids)
        tags = {"family": "ids", "kind": kind, "n": len(ids), "container": cname}
        key = {"seed_key": [sh.seed, s, i], "kind": kind,
               "ids": ids if len(ids) <= 60 else {"n": len(ids), "head": ids[:20]}}
        sh.case(["ids", kind, ids], True, sample=key)
        sh.count("cell:ids:" + kind)
        sh.count("cell:ids:mod8=" + str(len(ids) % 8))

        # ---- SPOINT --------------------------------------------------------------------
        try:
            f = io.StringIO()
            bulk.wtspoints(f, cont)
            text = f.getvalue()
            case = {**key, "card": "SPOINT", "text": text[:1500]}
            _lines_ok(sh, text, case, tags)
            sh.count("mon:spoint-own")
            own = nb.spoints(text)
            if own != ids:
                sh.violation("spoint-own", case, {"own_read": own[:80]}, tags)
            if "THRU" in text:
                sh.count("cell:spoint:thru")
            got = bulk.rdspoints(io.StringIO(text))
            sh.count("mon:spoint-roundtrip")
            if not (isinstance(got, np.ndarray) and got.dtype == np.int64
                    and got.tolist() == ids):
                sh.violation("spoint-roundtrip", case, {"read": got}, tags)
        except Exception as e:
            sh.violation("exception:spoint", key, {"exc": repr(e)}, tags)

        # ---- CSUPER (two cards in a file) ------------------------------------------------
        try:
            sid = int(r.integers(1, 10 ** int(r.integers(1, 9))))
            ids2 = _idlist(r, IDKINDS[int(r.integers(0, len(IDKINDS)))])
            sid2 = sid + 1
            f = io.StringIO()
            bulk.wtcsuper(f, sid, cont)
            f.write("$ comment between\n")
            bulk.wtcsuper(f, sid2, ids2)
            text = f.getvalue()
            case = {**key, "card": "CSUPER", "superid": sid, "ids2": ids2[:60],
                    "text": text[:1500]}
            _lines_ok(sh, text, case, tags)
            want = {sid: [sid, 0] + ids, sid2: [sid2, 0] + ids2}
            sh.count("mon:csuper-own")
            own = nb.csupers(text)
            if own != want:
                sh.violation("csuper-own", case, {"own_read": {k: v[:40] for k, v in
                                                               own.items()}}, tags)
            got = bulk.rdcsupers(io.StringIO(text))
            sh.count("mon:csuper-roundtrip")
            ok = isinstance(got, dict) and sorted(got) == sorted(want) and all(
                np.asarray(got[k]).dtype == np.int64
                and np.asarray(got[k]).tolist() == want[k] for k in want)
            if not ok:
                sh.violation("csuper-roundtrip", case,
                             {"read": {str(k): np.asarray(v)[:40] for k, v in
                                       (got or {}).items()}}, tags)
        except Exception as e:
            sh.violation("exception:csuper", key, {"exc": repr(e)}, tags)

        # ---- EXTRN ---------------------------------------------------------------------
        try:
            comps = [0, 123456, 123, 1, 36, 246, 5, 12345, 456, 6]
            mode = int(r.integers(0, 3))
            if mode == 0:
                dof = [comps[int(k)] for k in r.integers(0, len(comps), len(ids))]
            elif mode == 1:
                dof = [int(k) for k in r.integers(0, 7, len(ids))]     # all <= 6
            else:
                dof = [123456] * len(ids)
            f = io.StringIO()
            bulk.wtextrn(f, cont, dof if r.random() < 0.5 else np.array(dof))
            text = f.getvalue()
            case = {**key, "card": "EXTRN", "dof": dof[:60], "text": text[:1500]}
            _lines_ok(sh, text, case, tags)
            pairs = list(zip(ids, dof))
            sh.count("mon:extrn-own")
            own = nb.extrn(text)
            if own != pairs:
                sh.violation("extrn-own", case, {"own_read": own[:40]}, tags)
            got = bulk.rdextrn(io.StringIO(text), expand=False)
            sh.count("mon:extrn-roundtrip")
            if not (got.dtype == np.int64 and got.tolist() == [list(p) for p in pairs]):
                sh.violation("extrn-roundtrip", case, {"read": got}, tags)
            got = bulk.rdextrn(io.StringIO(text))
            sh.count("mon:extrn-expand")
            want = [list(p) for p in nb.expand_components(pairs)]
            if got.tolist() != want:
                sh.violation("extrn-expand", case, {"read": got, "want": want[:60]},
                             tags)
        except Exception as e:
            sh.violation("exception:extrn", key, {"exc": repr(e)}, tags)

        # ---- SET (two or three sets in a file) ------------------------------------------------
        try:
            setid = int(r.integers(1, 10 ** int(r.integers(1, 9))))
            # (short legal line lengths push the whole list off the "SET n =" header line)
            ml = [72, 72, 72, 60, 80, 40, 24, 20][int(r.integers(0, 8))]
            # one item ("a THRU b, ") must fit on a line: a shorter limit makes the text
            # wrapper cut numbers in two, which is the caller's error, not a round trip
            longest = 2 * len(str(max(list(cont) + [1]))) + 8
            if ml < longest:
                ml = 72
            ids2 = sorted(_idlist(r, IDKINDS[int(r.integers(0, len(IDKINDS)))]))
            f = io.StringIO()
            f.write("TITLE = check\n")
            if ml == 72 and r.random() < 0.5:
                bulk.wtset(f, setid, cont)
            else:
                bulk.wtset(f, setid, cont, max_length=ml)
            f.write("\n")
            bulk.wtset(f, setid + 1, ids2)
            f.write("\nDISP = ALL\n")
            text = f.getvalue()
            case = {**key, "card": "SET", "setid": setid, "max_length": ml,
                    "ids2": ids2[:60], "text": text[:2500]}
            _lines_ok(sh, text, case, tags, limit=max(ml, 72))
            nl = text.count("\n")
            if nl > 6:
                sh.count("cell:set:wrapped")
            want = {setid: ids, setid + 1: ids2}
            sh.count("mon:set-own")
            own = nb.case_control_sets(text)
            if own != want:
                sh.violation("set-own", case, {"own_read": {k: v[:40] for k, v in
                                                            own.items()}}, tags)
            got = bulk.rdsets(io.StringIO(text))
            sh.count("mon:set-roundtrip")
            if not (isinstance(got, dict) and {k: [int(x) for x in v]
                                               for k, v in got.items()} == want):
                sh.violation("set-roundtrip", case,
                             {"read": {str(k): v[:40] for k, v in (got or {}).items()}},
                             tags)
        except Exception as e:
            sh.violation("exception:set", key, {"exc": repr(e)}, tags)


# ------------------------------------------------------------------------------------
# tables

# (pair format, largest |t|, largest |d|, exponent range for E parts)
TFORMS = [
    ("{:16.9E}{:16.9E}", None, None),
    ("{:16.8f}{:16.6f}", 9e5, 9e7),
    ("{:16.4f}{:16.9E}", 9e9, None),
    ("{:8.2f}{:8.5f}", 9e3, 9.0),
    ("{:8.4f}{:8.4f}", 90.0, 90.0),
    ("{:8.3f}{:8.1E}", 900.0, None),
    ("{:#8.0f}{:8.2f}", 9e5, 9e3),
]
TPOINTS = [1, 2, 3, 4, 5, 8, 9]


def _tvals(r, n, lim, eform):
    import numpy as np
    if lim is None:          # E format: any magnitude with a 2-digit exponent
        mode = int(r.integers(0, 3))
        if mode == 0:
            v = r.standard_normal(n) * 10.0 ** r.integers(-3, 4)
        elif mode == 1:
            v = 10.0 ** r.uniform(-99, 99.9, n) * r.choice([-1, 1], n)
        else:
            v = np.round(r.standard_normal(n) * 100)
        return v
    v = r.uniform(-lim, lim, n)
    if r.random() < 0.3:
        v = np.round(v)
    return v


def _run_tables(sh, params, bulk, nb):
    import numpy as np
    s = params["slice"]
    n = BUDGET[sh.tier]["table"]
    names = ["TABLED1", "TABLED1", "TABLEM1", "TABDMP1", "TABLED2", "TABRND1"]
    for i in range(n):
        r = core.rng(sh.seed, "C13", "table", s, i)
        ntab = 1 if r.random() < 0.6 else int(r.integers(2, 4))
        tname = names[int(r.integers(0, len(names)))]
        f = io.StringIO()
        inputs = []
        tid0 = int(r.integers(1, 10 ** int(r.integers(1, 8))))
        key = {"seed_key": [sh.seed, s, i], "name": tname}
        tags = {"family": "table"}
        try:
            for k in range(ntab):
                fi = (i + k + s) % len(TFORMS)
                form, tl, dl = TFORMS[fi]
                npts = TPOINTS[(i // len(TFORMS) + k) % len(TPOINTS)] \
                    if r.random() < 0.75 else int(r.integers(1, 41))
                t = _tvals(r, npts, tl, form)
                d = _tvals(r, npts, dl, form)
                if r.random() < 0.5:
                    t = np.sort(t)
                u = r.random()
                if u < 0.2:
                    # exact zeros are data, not padding: a curve that ends (or starts)
                    # at the origin, a zero ordinate in the middle
                    t[-1] = 0.0
                    d[-1] = 0.0
                    if u < 0.07 and npts > 1:
                        t[0] = d[0] = 0.0
                    sh.count("cell:table:ends-at-origin")
                elif u < 0.3:
                    d[int(r.integers(0, npts))] = 0.0
                    if r.random() < 0.5:
                        d[-1] = 0.0
                tid = tid0 + k
                title = None if r.random() < 0.5 else f"table {tid}, with a comma"
                wide = len(form.format(1, 1)) == 32
                sh.count(f"cell:table:{'16' if wide else '8'}wide:npts="
                         + (str(npts) if npts in TPOINTS else "other"))
                sh.count("cell:table:form=" + str(fi))
                tt, dd = (t.tolist(), d.tolist()) if r.random() < 0.3 else (t, d)
                kw = {}
                if form != "{:16.9E}{:16.9E}" or r.random() < 0.5:
                    kw["form"] = form
                if tname != "TABLED1" or r.random() < 0.5:
                    kw["tablestr"] = tname
                bulk.wttabled1(f, tid, tt, dd, title, **kw)
                inputs.append((tid, form, t, d))
                tags = {"family": "table", "npts": npts, "wide": wide, "form": form}
        except Exception as e:
            sh.violation("exception:wttabled1", {**key, "npts": npts, "form": form},
                         {"exc": repr(e)}, tags)
            continue
        text = f.getvalue()
        case = {**key, "text": text[:3000],
                "tables": [(tid, form, len(t)) for tid, form, t, d in inputs]}
        sh.case(["table", tname, [(tid, form, t.tolist(), d.tolist())
                                  for tid, form, t, d in inputs]], True, sample=case)
        _lines_ok(sh, text, case, tags)
        sh.count("mon:table-own")
        try:
            own = nb.tables(text, tname)
        except Exception as e:
            sh.violation("table-own", case, {"own_reader": repr(e)}, tags)
            continue
        good = sorted(own) == sorted(tid for tid, *_ in inputs)
        if not good:
            sh.violation("table-own", case, {"ids_read": sorted(own)}, tags)
            continue
        for tid, form, t, d in inputs:
            x, y, rx, ry = own[tid]
            if len(x) != len(t):
                sh.violation("table-own", case, {"tid": tid, "npts_read": len(x),
                                                 "npts": len(t)}, tags)
                continue
            for a, b, ra in list(zip(t, x, rx)) + list(zip(d, y, ry)):
                if not _real_close(sh, "table-own", float(a), b, ra, case, tags):
                    break
        try:
            got = bulk.rdtabled1(io.StringIO(text), tname.lower()
                                 if r.random() < 0.5 else tname)
        except Exception as e:
            sh.violation("exception:rdtabled1", case, {"exc": repr(e)}, tags)
            continue
        sh.count("mon:table-roundtrip")
        ok = isinstance(got, dict) and sorted(got) == sorted(own)
        if ok:
            for tid in own:
                x, y, _, _ = own[tid]
                want = np.column_stack([x, y]).reshape(-1, 2)
                g = np.asarray(got[tid])
                if g.shape != want.shape or not np.array_equal(g, want):
                    ok = False
        if not ok:
            sh.violation("table-roundtrip", case,
                         {"read": {str(k): np.asarray(v) for k, v in
                                   (got or {}).items()}}, tags)


# ------------------------------------------------------------------------------------
# DMIG

def _labels(r, n, spoints=True):
    """n distinct (id, dof) labels: grids with partial DOF and scalar points."""
    out, used = [], set()
    while len(out) < n:
        gid = int(r.integers(1, 10 ** int(r.integers(1, 9))))
        if gid in used:
            continue
        used.add(gid)
        if spoints and r.random() < 0.3:
            out.append((gid, 0))
        else:
            k = int(r.integers(1, 7))
            dofs = sorted(int(x) for x in r.choice([1, 2, 3, 4, 5, 6], k, replace=False))
            out.extend((gid, d) for d in dofs)
    out = out[:n]
    return out


def _values(r, shape, dtype, mag):
    import numpy as np
    cplx = np.dtype(dtype).kind == "c"
    single = np.dtype(dtype).itemsize == (8 if cplx else 4)

    def part():
        if mag == "unit":
            v = r.standard_normal(shape)
        elif mag == "int":
            v = np.round(r.standard_normal(shape) * 50)
        elif mag == "wide":
            lim = 37 if single else 99
            v = 10.0 ** r.uniform(-lim, lim + 0.9, shape) * r.choice([-1, 1], shape)
        else:   # extreme: the ends of the two-digit exponent range
            if single:
                ch = np.array([1e-37, 9.999999e37, -3.3e38, 1.5e-38, -1.0])
            else:
                # (incl. values that ROUND UP into a three-digit exponent, where the
                # field has one decimal less, and three-digit exponents themselves)
                ch = np.array([1e-99, 9.999999999e99, -9.999999999e99, -1e-99,
                               1.0000000005e-99, 123456789.5, -0.5,
                               9.99999999996e99, -9.99999999996e99, -9.9999999995e99,
                               1e100, -1e100, 3.3e100, -4.4e-100, -9.99999999996e-100,
                               2.5e-120, -7.5e250])
            v = r.choice(ch, shape)
        return v
    m = part()
    if cplx:
        m = m + 1j * part()
    return m.astype(dtype)


def _df_entries(df):
    """{(col label, row label): value} of the non-zero terms of a DataFrame."""
    m = df.values
    out = {}
    rows = list(df.index)
    cols = list(df.columns)
    for j, cl in enumerate(cols):
        cl = tuple(cl) if isinstance(cl, tuple) else (int(cl), 0)
        for i, rl in enumerate(rows):
            if m[i, j] != 0:
                out[(cl, tuple(int(x) for x in rl))] = m[i, j]
    return out


def _fmt_tol(v):
    """half a unit of the 10th significant digit of a number written with 16.9E."""
    if v == 0:
        return 0.0
    from vf.oracles import nas_field as nf
    e = nf.exponent10(v)
    return 0.5 * nf.pow10(e - 9) * (1 + 1e-6) + math.ulp(v)


def _cclose(sh, key, a, b):
    """a (written/read) vs b (input), both real or complex; returns bool."""
    ok = True
    for x, y in ((a.real, b.real), (a.imag, b.imag)) if isinstance(b, complex) or \
            isinstance(a, complex) else ((a, b),):
        x, y = float(x), float(y)
        tol = _fmt_tol(y)
        err = abs(x - y)
        if not err <= tol:
            ok = False          # reported as a violation by the caller
        elif tol > 0:
            sh.worst(key, err / tol)
    return ok


def _make_dmig(r, variant):
    """One DataFrame + facts.  variant decides the structure."""
    import numpy as np
    import pandas as pd
    dtype = [np.float64, np.float32, np.complex128, np.complex64][int(r.integers(0, 4))]
    mag = ["unit", "unit", "int", "wide", "wide", "extreme"][int(r.integers(0, 6))]
    n = int(r.integers(1, 9))
    rl = _labels(r, n)
    if r.random() < 0.4:
        rl = [rl[int(k)] for k in r.permutation(len(rl))]        # unsorted labels
    facts = {"variant": variant, "dtype": np.dtype(dtype).name, "mag": mag}
    mi = lambda lab: pd.MultiIndex.from_tuples(lab, names=["id", "dof"])
    if variant == "hermitian":
        # complex Hermitian, not symmetric: m == m^H but m != m^T, so it is NOT a form-6
        # candidate (half storage mirrors without conjugation)
        dtype = [np.complex128, np.complex64][int(r.integers(0, 2))]
        facts["dtype"] = np.dtype(dtype).name
        n = max(n, 2)
        rl = _labels(r, n)
        m = _values(r, (n, n), dtype, mag).astype(np.complex128)
        m = np.tril(m) + np.tril(m, -1).conj().T
        m[np.diag_indices(n)] = m[np.diag_indices(n)].real
        if not np.any(np.tril(m, -1).imag):
            m[1, 0] += 0.5j
            m[0, 1] -= 0.5j
        m = m.astype(dtype)
        df = pd.DataFrame(m, index=mi(rl), columns=mi(rl))
    elif variant in ("sym", "unsym", "nearsym", "smallunsym"):
        if variant == "smallunsym":
            m = (10.0 ** r.uniform(-12, -8.5, (n, n)) * r.choice([-1, 1], (n, n)))
            if np.dtype(dtype).kind == "c":
                m = m + 1j * 10.0 ** r.uniform(-12, -8.5, (n, n))
            m = m.astype(dtype)
        else:
            m = _values(r, (n, n), dtype, mag if variant != "nearsym" else "unit")
        if variant in ("sym", "nearsym"):
            m = np.tril(m) + np.tril(m, -1).T
        if variant == "nearsym" and n > 1:
            m = m.astype(np.complex128 if np.dtype(dtype).kind == "c" else np.float64)
            facts["dtype"] = m.dtype.name
            i, j = 0, n - 1
            if m[i, j] == 0:
                m[i, j] = m[j, i] = 1.0
            m[i, j] = m[i, j] * (1 + 10.0 ** r.uniform(-7, -5.5))
        z = r.random((n, n)) < r.choice([0.0, 0.3, 0.7])
        if variant in ("sym", "nearsym"):
            z = np.tril(z) | np.tril(z, -1).T
        if variant != "nearsym":
            m[z] = 0
        if r.random() < 0.3 and n > 2:               # an entirely empty row+column
            k = int(r.integers(0, n))
            m[k, :] = 0
            m[:, k] = 0
            if variant == "nearsym":
                pass
        df = pd.DataFrame(m, index=mi(rl), columns=mi(rl))
    elif variant == "difflabels":
        # square block, row labels != column labels (the repaired defect)
        cl = _labels(r, n)
        while set(cl) == set(rl):
            cl = _labels(r, n)
        m = _values(r, (n, n), dtype, mag)
        if r.random() < 0.7:
            m = np.tril(m) + np.tril(m, -1).T          # symmetric-looking values
        if r.random() < 0.3:
            m[r.random((n, n)) < 0.4] = 0
        df = pd.DataFrame(m, index=mi(rl), columns=mi(cl))
    elif variant == "rect":
        nc = int(r.integers(1, 9))
        while nc == n:
            nc = int(r.integers(1, 9))
        cl = _labels(r, nc)
        m = _values(r, (n, nc), dtype, mag)
        m[r.random((n, nc)) < r.choice([0.0, 0.4, 0.8])] = 0
        df = pd.DataFrame(m, index=mi(rl), columns=mi(cl))
    else:   # form9
        nc = int(r.integers(1, 9))
        cols = sorted(int(x) for x in r.choice(np.arange(1, 40), nc, replace=False))
        m = _values(r, (n, nc), dtype, mag)
        m[r.random((n, nc)) < r.choice([0.0, 0.4])] = 0
        df = pd.DataFrame(m, index=mi(rl), columns=cols)
    return df, facts


DVARIANTS = ["sym", "unsym", "difflabels", "rect", "form9", "difflabels", "sym",
             "nearsym", "smallunsym", "unsym", "hermitian"]


def _expected_frame(df, form):
    """Input with all-zero rows/columns dropped (stated rule) and labels sorted the way
    the reader documents: by (id, dof); symmetric form keeps the union."""
    import numpy as np
    m = df.values
    rows = [tuple(int(x) for x in t) for t in df.index]
    nzr = [bool(np.any(m[i, :] != 0)) for i in range(m.shape[0])]
    nzc = [bool(np.any(m[:, j] != 0)) for j in range(m.shape[1])]
    if df.columns.nlevels == 2:
        cols = [tuple(int(x) for x in t) for t in df.columns]
    else:
        cols = [int(c) for c in df.columns]
    if form == 6:
        keep = [a or b for a, b in zip(nzr, nzc)]
        nzr = nzc = keep
    ri = sorted((rows[i], i) for i in range(len(rows)) if nzr[i])
    ci = sorted((cols[j], j) for j in range(len(cols)) if nzc[j])
    sub = m[np.ix_([i for _, i in ri], [j for _, j in ci])] if ri and ci else \
        np.zeros((len(ri), len(ci)), m.dtype)
    return [l for l, _ in ri], [l for l, _ in ci], sub


def _check_dmig(sh, bulk, nb, dct, facts_by_name, key, extra_tags=None):
    import numpy as np
    tags0 = {"family": "dmig", **(extra_tags or {})}
    f = io.StringIO()
    try:
        bulk.wtdmig(f, dct)
    except Exception as e:
        sh.violation("exception:wtdmig", key, {"exc": repr(e)}, tags0)
        return
    text = f.getvalue()
    case = {**key, "text": text[:3500]}
    _lines_ok(sh, text, case, tags0)
    try:
        own = nb.dmig(text)
    except Exception as e:
        sh.count("mon:dmig-own")
        sh.violation("dmig-own", case, {"own_reader": repr(e)},
                     {**tags0, **next(iter(facts_by_name.values()))})
        own = None
    try:
        src = io.StringIO(text)
        if key["seed_key"][-1] % 4 == 0:
            path = f"dmig_{key['seed_key'][-1]}.pch"
            open(path, "w").write(text)
            src = path
        got = bulk.rddmig(src)
    except Exception as e:
        sh.violation("exception:rddmig", case, {"exc": repr(e)},
                     {**tags0, **next(iter(facts_by_name.values()))})
        got = None
    nviol0 = len(sh.violations) + sum(v for k, v in sh.counters.items()
                                      if k.startswith("violation:"))
    for name, df in dct.items():
        facts = facts_by_name[name]
        tags = {**tags0, **facts}
        m = df.values
        same = df.columns.nlevels == 2 and df.index.equals(df.columns)
        square = m.shape[0] == m.shape[1]
        if df.columns.nlevels == 1:
            wform = 9
        elif not square:
            wform = 2
        elif same and bool(np.array_equal(m.T, m)):
            wform = 6
        else:
            wform = 1
        tags.update({"same_labels": bool(same), "square": bool(square),
                     "exactly_symmetric": bool(square and np.array_equal(m.T, m)),
                     "allclose_symmetric": bool(square and np.allclose(m.T, m)),
                     "expected_form": wform})
        sh.count("cell:dmig:form=" + str(wform))
        sh.count("cell:dmig:dtype=" + facts["dtype"])
        sh.count("cell:dmig:variant=" + facts["variant"])
        sh.count("cell:dmig:mag=" + facts["mag"])
        entries = _df_entries(df)
        # ---- writer alone (own reader) ---------------------------------------------------
        if own is not None:
            sh.count("mon:dmig-own")
            o = own.get(name.upper())
            bad = None
            if o is None:
                bad = {"missing": name}
            else:
                tags["header_form"] = o["form"]
                tin = {"float32": 1, "float64": 2, "complex64": 3, "complex128": 4}[
                    m.dtype.name]
                if o["tin"] != tin:
                    bad = {"tin": o["tin"], "want": tin}
                elif o["form"] not in (1, 2, 6, 9):
                    bad = {"form": o["form"]}
                elif o["form"] == 9 and o["ncol"] != int(max(df.columns)):
                    bad = {"ncol": o["ncol"]}
                else:
                    wr = dict(o["entries"])
                    if o["form"] == 6:
                        full = {}
                        for (c, rw), v in wr.items():
                            full[(c, rw)] = v
                            full[(rw, c)] = v
                        dup = [k for k in wr if k[0] != k[1] and (k[1], k[0]) in wr]
                        if dup:
                            bad = {"both_triangles_written": dup[:3]}
                        wr = full
                    if bad is None:
                        if set(wr) != set(entries):
                            miss = sorted(set(entries) - set(wr))[:4]
                            extra = sorted(set(wr) - set(entries))[:4]
                            bad = {"terms_missing": miss, "terms_extra": extra,
                                   "header_form": o["form"]}
                        else:
                            for k, v in entries.items():
                                if not _cclose(sh, "dmig-own:real", wr[k],
                                               complex(v) if np.iscomplexobj(m)
                                               else float(v)):
                                    bad = {"term": k, "written": wr[k], "input": v,
                                           "header_form": o["form"]}
                                    break
            if bad:
                sh.violation("dmig-own", case, {"name": name, **bad}, tags)
        # ---- round trip -------------------------------------------------------------------
        if got is not None:
            sh.count("mon:dmig-roundtrip")
            g = got.get(name.lower())
            if g is None:
                sh.violation("dmig-roundtrip", case, {"missing": name}, tags)
                continue
            rform = tags.get("header_form", wform)
            wr, wc, wm = _expected_frame(df, 6 if (rform == 6 and wform == 6) else wform)
            gr = [tuple(int(x) for x in t) for t in g.index]
            gc = [tuple(int(x) for x in t) if isinstance(t, tuple) else int(t)
                  for t in g.columns]
            bad = None
            if gr != wr or gc != wc:
                bad = {"rows_read": gr[:12], "rows_want": wr[:12],
                       "cols_read": gc[:12], "cols_want": wc[:12]}
            else:
                gv = g.values
                for a in range(len(wr)):
                    for b in range(len(wc)):
                        v = wm[a, b]
                        if not _cclose(sh, "dmig-roundtrip:real", gv[a, b].item(),
                                       complex(v) if np.iscomplexobj(wm) else float(v)):
                            bad = {"row": wr[a], "col": wc[b], "read": gv[a, b],
                                   "input": v}
                            break
                    if bad:
                        break
                want_kind = "c" if np.iscomplexobj(m) else "f"
                if bad is None and gv.size and g.values.dtype.kind != want_kind:
                    bad = {"dtype_read": str(g.values.dtype)}
            if bad:
                sh.violation("dmig-roundtrip", case, {"name": name, **bad,
                                                      "header_form": rform}, tags)
    # ---- reader options on the first matrix: expanded / square / name filter -------------------
    nviol1 = len(sh.violations) + sum(v for k, v in sh.counters.items()
                                      if k.startswith("violation:"))
    if got is not None and own is not None and nviol1 == nviol0:
        name, df = next(iter(dct.items()))
        o = own.get(name.upper())
        if o is None or o["form"] not in (1, 2, 6, 9):
            return
        tags = {**tags0, **facts_by_name[name], "option": True}
        try:
            sh.count("mon:dmig-options")
            ge = bulk.rddmig(io.StringIO(text), name, expanded=True)
            if sorted(ge) != [name.lower()]:
                sh.violation("dmig-options", case, {"names_read": sorted(ge)}, tags)
                return
            ge = ge[name.lower()]
            form = o["form"]
            wr, wc, wm = _expected_frame(df, form)

            def expand(labels):
                out, seen = [], set()
                for gid, d in sorted(labels):
                    if gid in seen:
                        continue
                    seen.add(gid)
                    out.extend([(gid, 0)] if d == 0 else [(gid, k) for k in range(1, 7)])
                return out
            er = expand(wr if form != 6 else sorted(set(wr) | set(wc)))
            if form == 9:
                ec = list(range(1, o["ncol"] + 1))
            elif form == 6:
                ec = er
            else:
                ec = expand(wc)
            gr = [tuple(int(x) for x in t) for t in ge.index]
            gc = [tuple(int(x) for x in t) if isinstance(t, tuple) else int(t)
                  for t in ge.columns]
            if gr != er or gc != ec:
                sh.violation("dmig-options", case,
                             {"option": "expanded", "rows_read": gr[:14],
                              "rows_want": er[:14], "cols_read": gc[:14],
                              "cols_want": ec[:14]}, tags)
            else:
                full = np.zeros((len(er), len(ec)), complex)
                for a, rl in enumerate(wr):
                    for b, cl in enumerate(wc):
                        full[er.index(rl), ec.index(cl)] = wm[a, b]
                if not np.allclose(ge.values, full, rtol=1e-9, atol=0):
                    sh.violation("dmig-options", case, {"option": "expanded",
                                                        "values": "differ"}, tags)
            if form == 1:
                gs = bulk.rddmig(io.StringIO(text), [name], square=True)[name.lower()]
                un = sorted(set(wr) | set(wc))
                gr = [tuple(int(x) for x in t) for t in gs.index]
                gc = [tuple(int(x) for x in t) for t in gs.columns]
                full = np.zeros((len(un), len(un)), complex)
                for a, rl in enumerate(wr):
                    for b, cl in enumerate(wc):
                        full[un.index(rl), un.index(cl)] = wm[a, b]
                if gr != un or gc != un or not np.allclose(gs.values, full, rtol=1e-9,
                                                            atol=0):
                    sh.violation("dmig-options", case,
                                 {"option": "square", "rows_read": gr[:14],
                                  "want": un[:14]}, tags)
        except Exception as e:
            sh.violation("exception:rddmig-options", case, {"exc": repr(e)}, tags)


def _run_dmig(sh, params, bulk, nb):
    import numpy as np
    import pandas as pd
    s = params["slice"]
    n = BUDGET[sh.tier]["dmig"]
    for i in range(n):
        r = core.rng(sh.seed, "C13", "dmig", s, i)
        nm = 1 if r.random() < 0.7 else int(r.integers(2, 4))
        dct, facts = {}, {}
        for k in range(nm):
            variant = DVARIANTS[(i + k + s) % len(DVARIANTS)]
            df, fa = _make_dmig(r, variant)
            name = "M" + "".join("ABCDEFGHJKLMNPQRSTUVWXYZ0123456789"[int(c)]
                                 for c in r.integers(0, 34, int(r.integers(0, 7)))) \
                + str(k)
            name = name[:8]
            if r.random() < 0.3:
                name = name.lower()
            dct[name] = df
            facts[name] = fa
        key = {"seed_key": [sh.seed, s, i],
               "matrices": {k: {"variant": facts[k]["variant"],
                                "dtype": facts[k]["dtype"],
                                "rows": [list(t) for t in v.index][:10],
                                "cols": [list(t) if isinstance(t, tuple) else t
                                         for t in v.columns][:10],
                                "values": v.values if v.size <= 16 else None}
                            for k, v in dct.items()}}
        sh.case(["dmig", {k: [[list(t) for t in v.index],
                              [list(t) if isinstance(t, tuple) else int(t)
                               for t in v.columns], v.values.tolist()]
                          for k, v in dct.items()}],
                any(np.any(v.values != 0) for v in dct.values()), sample=key)
        _check_dmig(sh, bulk, nb, dct, facts, key)

    # ---- deterministic family: negative values with three-digit exponents ------------------
    if s == 0:
        for k, vals in enumerate(([[1.0, -2e100], [3e-100, 4e100]],
                                  [[-1e-100, 0.0], [0.0, 1.0]],
                                  [[5.0, -7.5e150], [-7.5e150, 2.0]])):
            ind = pd.MultiIndex.from_product([[100 + k], [1, 2]], names=["id", "dof"])
            df = pd.DataFrame(np.array(vals), index=ind, columns=ind)
            key = {"seed_key": [sh.seed, "exp3", k], "values": vals}
            sh.case(["dmig-exp3", vals], True)
            sh.count("cell:dmig:three-digit-exponent")
            _check_dmig(sh, bulk, nb, {"E3": df},
                        {"E3": {"variant": "exp3", "dtype": "float64", "mag": "exp3"}},
                        key, {"neg_value_with_3digit_exponent": True})
        # all-zero matrix: header only
        ind = pd.MultiIndex.from_product([[7], [1, 2]], names=["id", "dof"])
        df = pd.DataFrame(np.zeros((2, 2)), index=ind, columns=ind)
        sh.case(["dmig-zero"], False)
        _check_dmig(sh, bulk, nb, {"ZERO": df},
                    {"ZERO": {"variant": "zero", "dtype": "float64", "mag": "zero"}},
                    {"seed_key": [sh.seed, "zero", 0]})


# ------------------------------------------------------------------------------------
# GRID

GFORMS = [("{:16.8f}", 9e5), ("{:8.2f}", 9e3), ("{:8.3f}", 900.0), ("{:16.9E}", None),
          ("{:16.10f}", 9e3), ("{:8.1E}", None)]


def _opt_vector(r, n, what):
    """scalar / list / ndarray forms of an optional integer column; returns
    (argument, expected ints, container name)."""
    import numpy as np
    k = int(r.integers(0, 5))
    hi = {"cp": 50, "cd": 50, "ps": 0, "seid": 99}[what]
    if what == "ps":
        pool = [1, 123, 123456, 456, 3, 246]
        vals = [pool[int(x)] for x in r.integers(0, len(pool), n)]
    else:
        vals = [int(x) for x in r.integers(0, hi + 1, n)]
    if k == 0 or n == 1:
        return vals[0], [vals[0]] * n, "scalar"
    if k == 1:
        return list(vals), vals, "list"
    if k == 2:
        return np.array(vals), vals, "ndarray"
    if k == 3 and what in ("ps", "seid"):
        v = [x if r.random() < 0.6 else "" for x in vals]
        return v, [0 if x == "" else x for x in v], "list-with-blanks"
    if what in ("ps", "seid"):
        return list(vals), vals, "list"
    return np.array(vals, dtype=np.int32), vals, "ndarray"


def _run_grids(sh, params, bulk, nb):
    import numpy as np
    s = params["slice"]
    n = BUDGET[sh.tier]["grid"]
    for i in range(n):
        r = core.rng(sh.seed, "C13", "grid", s, i)
        ng = [1, 2, 3, 7][i % 4] if r.random() < 0.6 else int(r.integers(1, 31))
        ids = np.cumsum(r.integers(1, 10 ** int(r.integers(1, 7)), ng)).astype(int)
        if ids.max() > 99999999:
            ids = np.arange(1, ng + 1) * 3
        fi = (i + s) % len(GFORMS)
        form, lim = GFORMS[fi]
        if lim is None:
            xyz = 10.0 ** r.uniform(-50, 60, (ng, 3)) * r.choice([-1, 1], (ng, 3))
        else:
            xyz = r.uniform(-lim, lim, (ng, 3))
        if r.random() < 0.2:
            xyz = np.round(xyz)
        one_row = ng > 1 and r.random() < 0.15
        if one_row:
            xyz = xyz[:1]
        cp, cpv, cpc = _opt_vector(r, ng, "cp")
        cd, cdv, cdc = _opt_vector(r, ng, "cd")
        mode = int(r.integers(0, 4))
        ps, psv, psc = ("", [0] * ng, "blank")
        se, sev, sec = ("", [0] * ng, "blank")
        if mode in (1, 3):
            ps, psv, psc = _opt_vector(r, ng, "ps")
        if mode in (2, 3):
            se, sev, sec = _opt_vector(r, ng, "seid")
        tags = {"family": "grid", "ngrids": ng, "form": form, "cp": cpc, "cd": cdc,
                "ps": psc, "seid": sec,
                "ps_or_seid_ndarray": psc == "ndarray" or sec == "ndarray"}
        key = {"seed_key": [sh.seed, s, i], "ids": ids.tolist()[:10], "form": form,
               "ps": ps if psc != "ndarray" else ps.tolist(),
               "seid": se if sec != "ndarray" else se.tolist(),
               "containers": [cpc, cdc, psc, sec]}
        sh.case(["grid", ids.tolist(), form, xyz.tolist(), cpv, cdv, psv, sev], True,
                sample=key)
        sh.count("cell:grid:form=" + str(fi))
        sh.count("cell:grid:ps=" + psc)
        sh.count("cell:grid:seid=" + sec)
        sh.count("cell:grid:n=" + (str(ng) if ng <= 3 else "more"))
        f = io.StringIO()
        try:
            kw = {}
            if form != "{:16.8f}" or r.random() < 0.5:
                kw["form"] = form
            gi = ids if r.random() < 0.5 else ids.tolist()
            if mode == 0:
                bulk.wtgrids(f, gi, cp, xyz, cd, **kw)
            else:
                bulk.wtgrids(f, gi, cp, xyz, cd, ps, se, **kw)
        except Exception as e:
            sh.violation("exception:wtgrids", key, {"exc": repr(e)}, tags)
            continue
        text = f.getvalue()
        case = {**key, "text": text[:2500]}
        _lines_ok(sh, text, case, tags)
        X = np.repeat(xyz, ng, axis=0) if one_row else xyz
        sh.count("mon:grid-own")
        try:
            own = nb.grids(text)
        except Exception as e:
            sh.violation("grid-own", case, {"own_reader": repr(e)}, tags)
            continue
        bad = None
        if len(own) != ng:
            bad = {"cards": len(own)}
        else:
            from vf.oracles import nas_field as nf
            raws = [c["fields"] for c in nf.split_fixed(text)]
            for k in range(ng):
                o = own[k]
                if [o[0], o[1], o[5], o[6], o[7]] != [int(ids[k]), cpv[k], cdv[k],
                                                     psv[k], sev[k]]:
                    bad = {"card": k, "own_read": o}
                    break
                for c in range(3):
                    if not _real_close(sh, "grid-own", float(X[k, c]), o[2 + c],
                                       raws[k][2 + c], case, tags):
                        bad = "reported"
                        break
                if bad:
                    break
        if bad and bad != "reported":
            sh.violation("grid-own", case, bad, tags)
        if bad:
            continue
        try:
            got = bulk.rdgrids(io.StringIO(text))
        except Exception as e:
            sh.violation("exception:rdgrids", case, {"exc": repr(e)}, tags)
            continue
        sh.count("mon:grid-roundtrip")
        want = np.array(own, float)
        if not (isinstance(got, np.ndarray) and got.shape == want.shape
                and np.array_equal(got, want)):
            sh.violation("grid-roundtrip", case, {"read": got, "own": want}, tags)


# ------------------------------------------------------------------------------------
# coordinate systems

def _natural(r, typ, scale):
    """A point in the natural coordinates of a system of type typ."""
    if typ == 1:
        return r.uniform(-scale, scale, 3)
    if typ == 2:
        return [r.uniform(0.2, 1.0) * scale, r.uniform(-180, 180),
                r.uniform(-scale, scale)]
    return [r.uniform(0.2, 1.0) * scale, r.uniform(10, 170), r.uniform(-180, 180)]


def _make_chain(r, nb, nsys, maxdepth):
    """{cid: (type, rid, A, B, C)} with well-conditioned geometry; returns also depth."""
    import numpy as np
    cs, depth = {}, {0: 0}
    cids = sorted(int(x) for x in r.choice(np.arange(1, 9000), nsys, replace=False))
    order = [cids[int(k)] for k in r.permutation(nsys)]
    types = {0: 1}
    for k, cid in enumerate(order):
        cand = [c for c in [0] + order[:k] if depth[c] < maxdepth]
        # prefer deep chains
        rid = max(cand, key=lambda c: (depth[c], r.random())) if r.random() < 0.6 \
            else cand[int(r.integers(0, len(cand)))]
        typ = int(r.integers(1, 4))
        scale = float(10.0 ** r.uniform(-1, 3))
        for _ in range(200):
            A, B, C = (np.array(_natural(r, types[rid], scale), float)
                       for _ in range(3))
            a, b, c = (nb.to_rect(types[rid], P) for P in (A, B, C))
            ab, ac = b - a, c - a
            la, lc = np.linalg.norm(ab), np.linalg.norm(ac)
            if la < 0.05 * scale or lc < 0.05 * scale:
                continue
            cosang = abs(ab @ ac) / (la * lc)
            if cosang < 0.9:
                break
        else:
            raise RuntimeError("could not build a well-conditioned system")
        cs[cid] = (typ, rid, A, B, C)
        types[cid] = typ
        depth[cid] = depth[rid] + 1
    return cs, depth


def _ci_from_chain(cs, order):
    import numpy as np
    ci = {}
    for cid in order:
        typ, rid, A, B, C = cs[cid]
        ci[cid] = [["CORD2R", "CORD2C", "CORD2S"][typ - 1],
                   np.vstack([[cid, typ, rid], A, B, C])]
    return ci


def _cmp_coordref(sh, kind, got5x3, res, cid, case, tags, scale, kap=None):
    """pyYeti's 5x3 [cid type 0; origin; T] against the own resolution of the same
    card text.  Tolerance = 200*eps*kappa (kappa: conditioning of the chain measured
    on the oracle) with a floor of 1e-13; origin scaled by the size of the model."""
    import numpy as np
    typ, o, E = res[cid]
    g = np.asarray(got5x3, float)
    sh.count("mon:" + kind)
    if g.shape != (5, 3) or [g[0, 0], g[0, 1], g[0, 2]] != [cid, typ, 0]:
        sh.violation(kind, case, {"cid": cid, "read": g, "want_type": typ}, tags)
        return False
    k = 1.0 if kap is None else float(kap[cid])
    tol_T = 200 * 2.2e-16 * k + 1e-13
    tol_o = tol_T * scale
    eo = np.abs(g[1] - o).max()
    eT = np.abs(g[2:] - E).max()
    sh.worst(kind + ":origin", eo / tol_o)
    sh.worst(kind + ":triad", eT / tol_T)
    if not (eo <= tol_o and eT <= tol_T):
        sh.violation(kind, case, {"cid": cid, "origin_err": eo, "triad_err": eT,
                                  "read": g, "want_origin": o, "want_triad": E}, tags)
        return False
    return True


def _run_cords(sh, params, bulk, nb, n2p):
    import numpy as np
    s = params["slice"]
    n = BUDGET[sh.tier]["cord"]
    for i in range(n):
        r = core.rng(sh.seed, "C13", "cord", s, i)
        nsys = int(r.integers(1, 8))
        maxdepth = [1, 2, 3, 4, 5][(i + s) % 5]
        try:
            cs, depth = _make_chain(r, nb, nsys, maxdepth)
        except RuntimeError:
            sh.refused += 1
            continue
        order = [list(cs)[int(k)] for k in r.permutation(len(cs))]
        ci = _ci_from_chain(cs, order)
        ng = int(r.integers(1, 12))
        gids = np.sort(r.choice(np.arange(1, 100000), ng, replace=False)).astype(int)
        allc = [0] + list(cs)
        cp = [allc[int(k)] for k in r.integers(0, len(allc), ng)]
        cd = [allc[int(k)] for k in r.integers(0, len(allc), ng)]
        tp = {0: 1, **{c: v[0] for c, v in cs.items()}}
        xyz = np.array([_natural(r, tp[c], float(10.0 ** r.uniform(-1, 3)))
                        for c in cp], float)
        key = {"seed_key": [sh.seed, s, i],
               "systems": {str(c): [v[0], v[1], v[2].tolist(), v[3].tolist(),
                                    v[4].tolist()] for c, v in cs.items()},
               "write_order": order, "cp": cp, "cd": cd}
        tags = {"family": "cord", "nsys": nsys, "maxdepth": max(depth.values())}
        sh.case(["cord", key["systems"], order, gids.tolist(), cp, cd, xyz.tolist()],
                True, sample=key)
        for c in cs:
            sh.count("cell:cord:depth=" + str(depth[c] - 1))
            sh.count(f"cell:cord:type={'RCS'[cs[c][0] - 1]}-in-"
                     f"{'RCS'[tp[cs[c][1]] - 1]}")
        f = io.StringIO()
        try:
            bulk.wtcoordcards(f, ci)
            if i % 4 == 1 and nsys >= 1:
                # the same coordinate cards written again into the same file (two tables
                # sharing their systems, each writer call adds what it needs): EQUAL
                # duplicates are documented to be quietly ignored on reading
                for _ in range(1 + (i // 4) % 2):
                    bulk.wtcoordcards(f, ci)
                sh.count("cell:cord:cards-written-%d-times" % (2 + (i // 4) % 2))
            gform = "{:16.9E}" if r.random() < 0.5 else "{:16.8f}"
            if gform == "{:16.8f}" and np.abs(xyz).max() >= 9e5:
                gform = "{:16.9E}"
            bulk.wtgrids(f, gids, cp, xyz, cd, form=gform)
        except Exception as e:
            sh.violation("exception:wtcoordcards", key, {"exc": repr(e)}, tags)
            continue
        text = f.getvalue()
        case = {**key, "text": text[:4000]}
        _lines_ok(sh, text, case, tags)
        # writer alone: the cards hold A, B, C, rid, type as given
        sh.count("mon:cord-own")
        try:
            wcs = nb.cord2(text)
            bad = None
            if sorted(wcs) != sorted(cs):
                bad = {"cids_written": sorted(wcs)}
            else:
                for c in cs:
                    if wcs[c][0] != cs[c][0] or wcs[c][1] != cs[c][1]:
                        bad = {"cid": c, "type_rid_written": wcs[c][:2]}
                        break
                    P = np.concatenate(cs[c][2:])
                    Q = np.concatenate(wcs[c][2:])
                    # 16.8e: half a unit of the 9th significant digit; values below
                    # 1e-15 of the largest are documented to be zeroed
                    tol = 0.5e-8 * np.abs(P) * 1.000001 + 1e-15 * np.abs(P).max()
                    sh.worst("cord-own:real", (np.abs(P - Q) / tol).max())
                    if not np.all(np.abs(P - Q) <= tol):
                        bad = {"cid": c, "written": Q, "input": P}
                        break
            if bad:
                sh.violation("cord-own", case, bad, tags)
                continue
            res = nb.resolve(wcs)
            kap = nb.conditioning(wcs)
            wgr = nb.grids(text)
        except Exception as e:
            sh.violation("cord-own", case, {"own_reader": repr(e)}, tags)
            continue
        if max(kap.values()) > 1e6:
            sh.refused += 1
            sh.count("cell:cord:refused-ill-conditioned")
            continue
        scale = 1.0 + max(float(np.abs(v[1]).max()) for v in res.values())
        # reader: rdcord2cards
        try:
            src = io.StringIO(text)
            if i % 3 == 0:
                path = f"cord_{i}.bdf"
                open(path, "w").write(text)
                src = path
            got = bulk.rdcord2cards(src)
        except Exception as e:
            sh.violation("exception:rdcord2cards", case, {"exc": repr(e)}, tags)
            continue
        if sorted(k for k in got if k != 0) != sorted(cs):      # 0 = basic, always there
            sh.count("mon:cord-roundtrip")
            sh.violation("cord-roundtrip", case, {"cids_read": sorted(got)}, tags)
            continue
        for c in cs:
            _cmp_coordref(sh, "cord-roundtrip", got[c], res, c, case, tags, scale, kap)
        # reader: bulk2uset on the same text
        try:
            if i % 3 == 0:
                uset, cref = bulk.bulk2uset(path)
            else:
                uset, cref = bulk.bulk2uset(io.StringIO(text))
        except Exception as e:
            sh.violation("exception:bulk2uset", case, {"exc": repr(e)}, tags)
            continue
        sh.count("mon:bulk2uset-grids")
        ids_read = uset.index.get_level_values("id").values.reshape(-1, 6)[:, 0]
        dof_read = uset.index.get_level_values("dof").values.reshape(-1, 6)
        if ids_read.tolist() != gids.tolist() or not np.all(
                dof_read == np.arange(1, 7)):
            sh.violation("bulk2uset-grids", case, {"ids_read": ids_read}, tags)
            continue
        vals = uset.iloc[:, 1:].values.reshape(-1, 6, 3)
        bad = None
        for k in range(ng):
            w = wgr[k]
            loc = nb.location_basic(res, w[1], [float(x) for x in w[2:5]])
            gscale = 1.0 + np.abs(loc).max() + scale
            gtol = (200 * 2.2e-16 * kap[w[1]] + 1e-13) * gscale
            e = np.abs(vals[k, 0] - loc).max()
            sh.worst("bulk2uset-grids:xyz", e / gtol)
            if not e <= gtol:
                bad = {"grid": int(gids[k]), "xyz_read": vals[k, 0], "want": loc}
                break
            if not _cmp_coordref(sh, "bulk2uset-triad", vals[k, 1:], res, w[5], case,
                                 tags, scale, kap):
                bad = "reported"
                break
        if bad and bad != "reported":
            sh.violation("bulk2uset-grids", case, bad, tags)


def _run_usets(sh, params, bulk, nb, n2p):
    import numpy as np
    s = params["slice"]
    n = BUDGET[sh.tier]["uset"]
    for i in range(n):
        r = core.rng(sh.seed, "C13", "uset", s, i)
        nsys = int(r.integers(0, 6))
        try:
            cs, depth = _make_chain(r, nb, nsys, 4) if nsys else ({}, {0: 0})
        except RuntimeError:
            sh.refused += 1
            continue
        order = sorted(cs, key=lambda c: depth[c])
        ng = int(r.integers(1, 15))
        top = 99999999 if r.random() < 0.2 else 5000
        gids = np.array([], int)
        while gids.size < ng:
            gids = np.unique(np.concatenate([gids, r.integers(1, top + 1, ng)]))
        gids = gids[r.permutation(gids.size)][:ng].astype(int)
        ascending = r.random() < 0.8
        if ascending:
            gids = np.sort(gids)
        allc = [0] + list(cs)
        cp = [allc[int(k)] for k in r.integers(0, len(allc), ng)]
        cd = [allc[int(k)] for k in r.integers(0, len(allc), ng)]
        tp = {0: 1, **{c: v[0] for c, v in cs.items()}}
        xyz = np.array([_natural(r, tp[c], float(10.0 ** r.uniform(-1, 2.5)))
                        for c in cp], float)
        key = {"seed_key": [sh.seed, s, i],
               "systems": {str(c): [v[0], v[1], v[2].tolist(), v[3].tolist(),
                                    v[4].tolist()] for c, v in cs.items()},
               "gids": gids.tolist(), "cp": cp, "cd": cd, "xyz": xyz.tolist()}
        tags = {"family": "uset", "nsys": nsys, "ascending": bool(ascending)}
        sh.case(["uset", key["systems"], gids.tolist(), cp, cd, xyz.tolist()], True,
                sample=key)
        sh.count("cell:uset:nsys=" + str(min(nsys, 3)))
        sh.count("cell:uset:" + ("ascending" if ascending else "unsorted"))
        # ---- build the USET table (input of the property) -------------------------------------
        try:
            cref = {}
            ci = _ci_from_chain(cs, order)
            for c in order:
                n2p.addgrid(None, 1, "b", 0, [0, 0, 0], ci[c][1], cref)
            u = n2p.addgrid(None, gids.tolist(), "b", cp, xyz, cd, cref)
        except Exception as e:
            sh.violation("exception:addgrid", key, {"exc": repr(e)}, tags)
            continue
        uv = u.iloc[:, 1:].values.reshape(-1, 6, 3)
        if np.abs(uv[:, 0]).max() >= 9e5:
            sh.refused += 1
            continue
        # SPOINT rows in the table (e.g. the modal DOF of a Craig-Bampton component) have
        # no GRID card and are simply left out; they may sit anywhere between the grids
        u_in = u
        nsp = 0
        if i % 5 in (1, 3):
            import pandas as pd
            nsp = int(r.integers(1, 9))
            free = np.setdiff1d(np.arange(1, 20000), gids)
            sids = np.sort(r.choice(free, nsp, replace=False)).astype(np.int64)
            dof0 = np.zeros((nsp, 2), np.int64)
            dof0[:, 0] = sids
            sp = n2p.make_uset(dof0, n2p.mkusetmask("q"), np.zeros((nsp, 3)))
            blocks = [u.iloc[6 * k:6 * k + 6] for k in range(ng)]
            where = np.sort(r.integers(0, ng + 1, nsp)) if i % 5 == 1 \
                else np.full(nsp, ng)
            parts = []
            for k in range(ng + 1):
                parts += [sp.iloc[j:j + 1] for j in np.nonzero(where == k)[0]]
                if k < ng:
                    parts.append(blocks[k])
            u_in = pd.concat(parts, axis=0)
            key = dict(key, spoints=sids.tolist(), spoint_slots=where.tolist())
            sh.count("cell:uset:spoints-" + ("between" if i % 5 == 1 else "after"))
        f = io.StringIO()
        try:
            bulk.uset2bulk(f, u_in)
        except Exception as e:
            sh.violation("exception:uset2bulk", key, {"exc": repr(e)}, tags)
            continue
        text = f.getvalue()
        case = {**key, "text": text[:4000]}
        _lines_ok(sh, text, case, tags)
        # ---- writer alone -----------------------------------------------------------------------
        sh.count("mon:uset2bulk-own")
        try:
            wcs = nb.cord2(text)
            wgr = nb.grids(text)
            from vf.oracles import nas_field as nf
            raws = [c["fields"] for c in nf.split_fixed(text)
                    if c["name"].rstrip("*") == "GRID"]
        except Exception as e:
            sh.violation("uset2bulk-own", case, {"own_reader": repr(e)}, tags)
            continue
        bad = None
        used = sorted(set(int(c) for c in cd) - {0})
        if sorted(wcs) != used:
            bad = {"cids_written": sorted(wcs), "output_systems_of_uset": used}
        elif [g[0] for g in wgr] != gids.tolist():
            bad = {"grid_ids_written": [g[0] for g in wgr][:20]}
        else:
            for k in range(ng):
                g = wgr[k]
                if g[1] != 0 or g[5] != cd[k] or g[6] != 0 or g[7] != 0:
                    bad = {"grid": g}
                    break
                for c in range(3):
                    if not _real_close(sh, "uset2bulk-own", float(uv[k, 0, c]),
                                       g[2 + c], raws[k][2 + c], case, tags):
                        bad = "reported"
                        break
                if bad:
                    break
        if bad is None:
            for c in used:
                k = cd.index(c)
                typ, o, T = int(uv[k, 1, 1]), uv[k, 2], uv[k, 3:]
                wt, wr, A, B, C = wcs[c]
                P = np.concatenate([o, o + T[:, 2], o + T[:, 0]])
                Q = np.concatenate([A, B, C])
                tol = 0.5e-8 * np.abs(P) * 1.000001 + 1e-15 * np.abs(P).max() \
                    + 4 * np.spacing(np.abs(P).max())
                sh.worst("uset2bulk-own:cord", (np.abs(P - Q) / tol).max())
                if wt != typ or wr != 0 or not np.all(np.abs(P - Q) <= tol):
                    bad = {"cid": c, "written": [wt, wr, Q], "from_uset": [typ, 0, P]}
                    break
        if bad and bad != "reported":
            sh.violation("uset2bulk-own", case, bad, tags)
        if bad:
            continue
        # ---- round trip -------------------------------------------------------------------------
        try:
            if i % 2:
                path = f"uset_{i}.bdf"
                open(path, "w").write(text)
                u2, cref2 = bulk.bulk2uset(path)
            else:
                u2, cref2 = bulk.bulk2uset(io.StringIO(text))
        except Exception as e:
            sh.violation("exception:bulk2uset", case, {"exc": repr(e)}, tags)
            continue
        sh.count("mon:uset-roundtrip")
        srt = np.argsort(gids, kind="stable")
        ids2 = u2.index.get_level_values("id").values.reshape(-1, 6)
        dof2 = u2.index.get_level_values("dof").values.reshape(-1, 6)
        if ids2[:, 0].tolist() != gids[srt].tolist() or not np.all(
                ids2 == ids2[:, :1]) or not np.all(dof2 == np.arange(1, 7)):
            sh.violation("uset-roundtrip", case, {"ids_read": ids2[:, 0]}, tags)
            continue
        ns1 = u.iloc[:, 0].values.reshape(-1, 6)[srt]
        ns2 = u2.iloc[:, 0].values.reshape(-1, 6)
        if not np.array_equal(ns1, ns2):
            sh.violation("uset-roundtrip", case, {"nasset_read": ns2[:, 0],
                                                  "nasset_input": ns1[:, 0]}, tags)
            continue
        v2 = u2.iloc[:, 1:].values.reshape(-1, 6, 3)
        v1 = uv[srt]
        res = nb.resolve(wcs)
        kap = nb.conditioning(wcs)
        scale = 1.0 + max(float(np.abs(v[1]).max()) for v in res.values())
        bad = None
        for k in range(ng):
            tol = 0.5e-8 * 1.000001 + 4 * np.spacing(np.abs(v1[k, 0]).max())
            e = np.abs(v2[k, 0] - v1[k, 0]).max()
            sh.worst("uset-roundtrip:xyz", e / tol)
            if not e <= tol:
                bad = {"grid": int(ids2[k, 0]), "xyz_read": v2[k, 0],
                       "xyz_input": v1[k, 0]}
                break
            c = int(v1[k, 1, 0])
            if not _cmp_coordref(sh, "uset-triad-vs-text", v2[k, 1:], res, c, case,
                                 tags, scale, kap):
                bad = "reported"
                break
            # against the input table: format precision of A, B, C (9 digits)
            amax = 1.0 + np.abs(v1[k, 2]).max()
            sh.count("mon:uset-triad-vs-input")
            eo = np.abs(v2[k, 2] - v1[k, 2]).max()
            eT = np.abs(v2[k, 3:] - v1[k, 3:]).max()
            sh.worst("uset-triad-vs-input:origin", eo / (0.51e-8 * amax))
            sh.worst("uset-triad-vs-input:triad", eT / (4e-8 * amax))
            if list(v2[k, 1]) != list(v1[k, 1]) or not eo <= 0.51e-8 * amax \
                    or not eT <= 4e-8 * amax:
                bad = {"grid": int(ids2[k, 0]), "cid": c, "origin_err": eo,
                       "triad_err": eT}
                break
        if bad and bad != "reported":
            sh.violation("uset-roundtrip", case, bad, tags)


def run_shard(sh, params):
    from vf.oracles import nas_field as nf
    from vf.oracles import nas_bulk as nb
    if not (nf.selfcheck() and nb.selfcheck()):
        raise RuntimeError("oracle fails its hand cases")
    import pyyeti.nastran.bulk as bulk
    import pyyeti.nastran.n2p as n2p
    import pyyeti.nastran as nastran
    for nm in ("wtdmig", "rddmig", "wtgrids", "rdgrids", "wttabled1", "rdtabled1",
               "wtset", "rdsets", "wtspoints", "rdspoints", "wtcsuper", "rdcsupers",
               "wtextrn", "rdextrn", "wtcoordcards", "rdcord2cards", "uset2bulk",
               "bulk2uset"):
        if getattr(nastran, nm) is not getattr(bulk, nm):
            raise RuntimeError("nastran." + nm + " is not bulk." + nm)
    _run_ids(sh, params, bulk, nb)
    _run_tables(sh, params, bulk, nb)
    _run_dmig(sh, params, bulk, nb)
    _run_grids(sh, params, bulk, nb)
    _run_cords(sh, params, bulk, nb, n2p)
    _run_usets(sh, params, bulk, nb, n2p)


def finalize(agg, tier):
    why = []
    c = agg["counters"]
    for k in ("line-length", "spoint-own", "spoint-roundtrip", "csuper-own",
              "csuper-roundtrip", "extrn-own", "extrn-roundtrip", "extrn-expand",
              "set-own", "set-roundtrip", "table-own", "table-roundtrip", "dmig-own",
              "dmig-roundtrip", "dmig-options", "grid-own", "grid-roundtrip",
              "cord-own", "cord-roundtrip", "bulk2uset-grids", "bulk2uset-triad",
              "uset2bulk-own", "uset-roundtrip", "uset-triad-vs-text",
              "uset-triad-vs-input"):
        if not c.get("mon:" + k):
            why.append(f"monitor {k} never evaluated")
    cells = ["ids:" + k for k in IDKINDS] + ["ids:mod8=" + str(k) for k in range(8)]
    cells += ["spoint:thru", "set:wrapped"]
    cells += [f"table:{w}wide:npts={p}" for w in ("8", "16") for p in TPOINTS]
    cells += ["table:form=" + str(k) for k in range(len(TFORMS))]
    cells += ["dmig:form=" + str(k) for k in (1, 2, 6, 9)]
    cells += ["dmig:dtype=" + k for k in ("float32", "float64", "complex64",
                                          "complex128")]
    cells += ["dmig:variant=" + k for k in set(DVARIANTS)]
    cells += ["dmig:mag=" + k for k in ("unit", "int", "wide", "extreme")]
    cells += ["dmig:three-digit-exponent"]
    cells += ["grid:form=" + str(k) for k in range(len(GFORMS))]
    cells += ["grid:ps=" + k for k in ("blank", "scalar", "list", "ndarray",
                                       "list-with-blanks")]
    cells += ["cord:depth=" + str(k) for k in range(5)]
    cells += [f"cord:type={a}-in-{b}" for a in "RCS" for b in "RCS"]
    cells += ["uset:nsys=0", "uset:nsys=3", "uset:ascending", "uset:unsorted"]
    for k in cells:
        if not c.get("cell:" + k):
            why.append(f"coverage cell {k} empty")
    if agg.get("refused", 0) > 0.2 * max(1, agg["evaluations"]):
        why.append("too many generated geometries refused")
    return why


def evidence_extra(agg, tier):
    c = agg["counters"]
    return {"round_trips": {k[4:]: v for k, v in c.items()
                            if k.startswith("mon:") and k.endswith("roundtrip")}}
