"""C11 -- pyYeti's op4/op2 readers decode every OUTPUT4/OUTPUT2 variant produced by an
independent encoder; listings match reads; skips leave the reader at the next block.

Step 0: both codecs (vf/oracles/op4_codec.py, op2_codec.py) must decode and byte-exactly
re-encode every shipped Nastran sample file; otherwise nothing is judged (exit 2).
"""
import os
import warnings

from vf import core

ID = "C11"
LEVEL = "exploration"
RULE = ("one case = one (logical content, physical encoding) pair: 1-6 matrices (op4) or "
        "1-7 matrix/table data blocks (op2) encoded by the independent codec under one "
        "combination of precision x key width x byte order x layout x string partition "
        "(runs split, explicit zeros inside strings, merged runs) x ASCII format "
        "(E/D, 3E23.16, 5E16.9, 4E20.12, 1P/no prefix, |I16) x record split (1-5 pieces, "
        "sizes around 3000 values) x header label; ~12 encodings per logical file; read by "
        "pyYeti in every read mode, by name subsets, listed, skipped and positioned.  "
        "distinct = distinct (content digest, encoding descriptor); non-trivial = at least "
        "one matrix with a non-zero value or one non-empty table record")
ASSUMPTIONS = [
    "the formats are represented by the two codecs, validated at every run by byte-exact "
    "re-encoding of the shipped Nastran-written .op4/.op2 files",
    "single precision content is compared after rounding the logical values to float32; "
    "ASCII content is the value of the decimal token the encoder wrote",
    "one exponent letter (E or D) per ASCII file, as Nastran writes; names are valid "
    "identifiers except in the dedicated bad-name cases",
    "rdop2tabheaders is compared only for the first header of each table and for all "
    "headers of tables whose records are unsplit and at least 3 words long (DESIGN, "
    "'Not judged')",
]
MIN_NONTRIVIAL = {"quick": 1200, "thorough": 30000}
TIMEOUT = {"quick": 1200, "thorough": 7200}

ASCII_FORMATS = ["1P,3E23.16", "1P,5E16.9", "1P,4E20.12", "3E23.16", "5E16.9", "4E20.12",
                 "1P,3D23.16", "1P,5D16.9", "4D20.12", "1P,3E24.16", "1P,3E22.15",
                 "   3e24.16", "1P,2E26.17", ""]


def shards(tier, seed):
    out = []
    n4 = 6 if tier == "quick" else 10
    nl = 14 if tier == "quick" else 260
    nenc = 12 if tier == "quick" else 24
    for s in range(n4):
        out.append({"kind": "op4", "slice": s, "nlogical": nl, "nenc": nenc})
    for s in range(n4):
        out.append({"kind": "op2", "slice": s, "nlogical": nl, "nenc": nenc})
    out.append({"kind": "op4-large", "slice": 0})
    out.append({"kind": "op2-large", "slice": 0})
    return out


# ------------------------------------------------------------------------------------
# logical content
# ------------------------------------------------------------------------------------

NAME_CHARS = "ABCDEFGHIJKLMNOPQRSTUVWXYZ"


_SHARED_OP4 = []


def _name(r, maxlen=8):
    n = int(r.integers(1, maxlen + 1))
    rest = NAME_CHARS + "0123456789_"
    return NAME_CHARS[int(r.integers(0, 26))] + "".join(
        rest[int(i)] for i in r.integers(0, len(rest), n - 1))


def _values(r, n, fam):
    import numpy as np
    if fam == "unit":
        v = r.standard_normal(n)
    elif fam == "wide32":     # inside the float32 range
        v = r.standard_normal(n) * 10.0 ** r.integers(-30, 31, n).astype(float)
    elif fam == "int":
        v = r.integers(-999, 1000, n).astype(float)
    else:
        v = r.standard_normal(n) * 10.0 ** r.integers(-90, 91, n).astype(float)
    v[v == 0] = 1.0
    return v


def _logical_matrix(r, shape=None, cplx=None):
    """Dense logical content with a sparsity pattern rich in runs and gaps."""
    import numpy as np
    if shape is None:
        shape = [(1, 1), (1, 6), (6, 1), (4, 4), (9, 5), (5, 9), (17, 3), (30, 4), (64, 2),
                 (3, 3), (12, 12), (200, 2)][int(r.integers(0, 12))]
    nr, nc = shape
    cplx = bool(r.random() < 0.4) if cplx is None else cplx
    fam = ["unit", "wide32", "int", "unit"][int(r.integers(0, 4))]
    A = np.zeros(shape, complex if cplx else float)
    for j in range(nc):
        k = r.random()
        if k < 0.15:
            continue                                  # null column
        if k < 0.35:
            m = np.ones(nr, bool)
        elif k < 0.55:
            m = np.zeros(nr, bool)
            m[int(r.integers(0, 2))::2] = True        # alternating
        else:
            m = r.random(nr) < r.choice([0.2, 0.5, 0.8])
            if nr > 4 and r.random() < 0.5:           # a few long runs
                a = int(r.integers(0, nr - 2))
                m[a:a + int(r.integers(2, nr - a + 1))] = True
        n = int(m.sum())
        v = _values(r, n, fam)
        if cplx:
            im = _values(r, n, fam)
            kk = r.random(n)
            v = np.where(kk < 0.15, 0.0, v) + 1j * np.where(kk > 0.85, 0.0, im)
        A[m, j] = v
    return A, {"shape": [nr, nc], "cplx": cplx, "fam": fam}


def _partition(r, v, style, maxlen=None):
    """Cut column `v` into strings [(start0, length)], ascending, non-overlapping, covering
    every non-zero.  style: 'natural' | 'split' | 'merge' | 'pad' | 'mixed' | 'one'."""
    import numpy as np
    nr = v.shape[0]
    nz = np.flatnonzero(v)
    if nz.size == 0:
        return []
    brk = np.flatnonzero(np.diff(nz) != 1)
    starts = np.concatenate(([nz[0]], nz[brk + 1])).tolist()
    ends = np.concatenate((nz[brk], [nz[-1]])).tolist()      # inclusive
    runs = [[s, e] for s, e in zip(starts, ends)]
    if style == "one":
        runs = [[runs[0][0], runs[-1][1]]]
    if style in ("merge", "mixed"):
        out = [runs[0]]
        for s, e in runs[1:]:
            if r.random() < 0.5:
                out[-1][1] = e                # swallow the zeros in between
            else:
                out.append([s, e])
        runs = out
    if style in ("pad", "mixed"):
        for i, (s, e) in enumerate(runs):
            lo = runs[i - 1][1] + 1 if i else 0
            hi = runs[i + 1][0] - 1 if i + 1 < len(runs) else nr - 1
            if r.random() < 0.5 and s > lo:
                s = int(r.integers(lo, s))
            if r.random() < 0.5 and e < hi:
                e = int(r.integers(e + 1, hi + 1))
            runs[i] = [s, e]
            # keep the next run's lower bound consistent
    if style in ("split", "mixed"):
        out = []
        for s, e in runs:
            while e > s and r.random() < 0.6:
                c = int(r.integers(s, e))     # piece s..c, remainder c+1..e
                out.append([s, c])
                s = c + 1
            out.append([s, e])
        runs = out
    if maxlen:
        out = []
        for s, e in runs:
            while e - s + 1 > maxlen:
                out.append([s, s + maxlen - 1])
                s += maxlen
            out.append([s, e])
        runs = out
    return [(int(s), int(e - s + 1)) for s, e in runs]


PART_STYLES = ["natural", "split", "merge", "pad", "mixed", "one"]


def _content_digest(arrs):
    import numpy as np
    return core.digest([core.digest(np.ascontiguousarray(a).tobytes().hex()) for a in arrs])


# ------------------------------------------------------------------------------------
# OUTPUT4
# ------------------------------------------------------------------------------------

def _op4_encodings(r, logical, n_enc, force=None):
    """Yield encoding descriptors, stratified so that every cell is visited."""
    import numpy as np
    encs = []
    maxrow = max(A.shape[0] for A, _ in logical)
    for k in range(n_enc):
        kk = int(r.integers(0, 1 << 30)) if force is None else force[k]
        binary = k % 3 != 2
        e = {"binary": binary,
             "single": bool((k // 2) % 2),
             "layout": ["dense", "bigmat", "nonbigmat"][(k + kk) % 3],
             "part": PART_STYLES[(kk >> 3) % len(PART_STYLES)]}
        if e["layout"] == "nonbigmat" and maxrow > 65535:
            e["layout"] = "bigmat"
        if binary:
            e["bit64"] = bool((kk >> 7) % 2)
            e["endian"] = "<>"[(kk >> 8) % 2]
        else:
            e["fmt"] = ASCII_FORMATS[(kk >> 9) % len(ASCII_FORMATS)]
            e["i16"] = bool((kk >> 14) % 5 == 0)
            e["fmt_mixed"] = bool((kk >> 19) % 2 == 0)
        e["closing"] = [1.0, 2 ** 0.5][(kk >> 17) % 2]
        encs.append(e)
    return encs


def _build_op4(r, logical, names, forms, enc):
    """Matrix objects of the codec for one encoding + the content a reader must return."""
    import numpy as np
    from vf.oracles import op4_codec as c4
    mats, expect = [], []
    fmt0 = enc.get("fmt")
    for jmat, ((A, d), nm, form) in enumerate(zip(logical, names, forms)):
        if fmt0 is not None and enc.get("fmt_mixed"):
            # every matrix announces its own number format (a writer switches to wider
            # fields only where needed; some headers announce none): nothing decoded from
            # one header may be used for the next matrix
            enc = dict(enc, fmt=ASCII_FORMATS[(ASCII_FORMATS.index(fmt0) + 5 * jmat)
                                              % len(ASCII_FORMATS)])
        cplx = np.iscomplexobj(A)
        mtype = (3 if cplx else 1) if enc["single"] else (4 if cplx else 2)
        layout = enc["layout"]
        nr, nc = A.shape
        if layout == "nonbigmat" and nr > 65535:
            layout = "bigmat"
        bit64 = enc.get("bit64", False)
        # what the stored numbers are
        if enc["binary"]:
            S = c4.stored_values(A.real, mtype, bit64)
            if cplx:
                S = S + 1j * c4.stored_values(A.imag, mtype, bit64)
        else:
            p1, perline, ech, numlen, ndec = c4.parse_format(enc["fmt"])
            flat = A.view(float).ravel() if cplx else A.ravel()
            tok = np.array([float("%.*E" % (ndec, x)) for x in flat])
            S = tok.view(complex).reshape(A.shape) if cplx else tok.reshape(A.shape)
        part = {}
        wper = c4.words_per_real(mtype, bit64) if enc["binary"] else (1 if mtype & 1 else 2)
        per = wper * (2 if cplx else 1)
        maxlen = None
        if layout == "nonbigmat":
            maxlen = (32766 // per) if (not enc["binary"] or not bit64) else None
        for j in range(nc):
            if layout == "dense":
                st = enc["part"] if enc["part"] in ("one", "pad") else "one"
                pieces = _partition(r, S[:, j], "one")
                if pieces and enc["part"] in ("pad", "mixed"):
                    s, n = pieces[0]
                    s2 = int(r.integers(0, s + 1))
                    e2 = int(r.integers(s + n - 1, nr))
                    pieces = [(s2, e2 - s2 + 1)]
                elif not pieces and enc["part"] == "mixed" and r.random() < 0.3:
                    pieces = [(int(r.integers(0, nr)), 1)]      # stored all-zero column
            else:
                pieces = _partition(r, S[:, j], enc["part"], maxlen)
                if not pieces and enc["part"] == "mixed" and r.random() < 0.2:
                    pieces = [(int(r.integers(0, nr)), 1)]      # a string of one zero
            part[j] = pieces
        cols = c4.columns_from_dense(S, part)
        m = c4.Matrix(nm, nr, nc, form, mtype, layout, cols,
                      closing={"nwords": 1, "value": enc["closing"]})
        if layout == "dense" and d.get("negdense"):
            m.neg_rows = False
        if enc["layout"] == "nonbigmat" and nr > 65535:
            # no BIGMAT parameter but more than 65535 rows: the BIGMAT string layout with
            # a POSITIVE row count in the header (readers must go by the size)
            m.neg_rows = False
        if not enc["binary"]:
            m.fmt = enc["fmt"]
            m.i16 = enc["i16"]
            m.numchar = "D" if "D" in enc["fmt"].upper() else "E"
            m.is_width = [8, 11][int(r.integers(0, 2))]
            if m.fmt == "":
                m.name_raw = nm        # stripped header line, as in rs.op4
        mats.append(m)
        expect.append(S)
    return mats, expect


def _read_name(raw, i):
    """Documented reader rule: blanks/NULs removed, lower case; not an identifier -> m<i>
    (i = position of the matrix in the file)."""
    nm = raw.strip(" \x00").replace(" ", "").replace("\x00", "").lower()
    return nm if nm.isidentifier() else f"m{i}"


def _cmp(sh, kind, got, want, case, tags):
    """Exact comparison of a returned matrix with the encoded content (-0.0 == 0.0)."""
    import numpy as np
    import scipy.sparse as sp
    sh.count("mon:" + kind)
    if sp.issparse(got):
        c = got.tocoo()
        key = c.row.astype(np.int64) * max(got.shape[1], 1) + c.col
        if np.unique(key).size != key.size:
            sh.violation(kind, case, {"duplicate_entries": True}, tags)
            return False
        empty = got.nnz == 0
        got = got.toarray()
        if empty and not np.any(want):
            got = got.astype(want.dtype)
    got = np.asarray(got)
    if got.shape != want.shape:
        sh.violation(kind, case, {"shape_got": got.shape, "shape_want": want.shape}, tags)
        return False
    if np.iscomplexobj(got) != np.iscomplexobj(want) or got.dtype not in (
            np.float64, np.complex128):
        sh.violation(kind, case, {"dtype_got": str(got.dtype),
                                  "complex_want": bool(np.iscomplexobj(want))}, tags)
        return False
    g = np.ascontiguousarray(got).view(float).ravel()
    w = np.ascontiguousarray(want).view(float).ravel()
    nz = w != 0
    ok = (np.array_equal(g[nz].view(np.uint64), w[nz].view(np.uint64))
          and not np.any(g[~nz] != 0))
    if not ok:
        bad = np.flatnonzero(np.where(nz, g.view(np.uint64) != w.view(np.uint64), g != 0))
        i = int(bad[0])
        sh.violation(kind, case, {"flat_real_index": i, "got": g[i], "want": w[i],
                                  "nbad": int(bad.size), "size": int(g.size)}, tags)
    return ok


def _op4_file(sh, logical, names, forms, enc, case, fname="c11.op4", heavy=False, r=None):
    import numpy as np
    import scipy.sparse as sp
    from pyyeti.nastran import op4
    from vf.oracles import op4_codec as c4

    mats, expect = _build_op4(r, logical, names, forms, enc)
    if enc["binary"]:
        f = c4.File("binary", mats, endian=enc["endian"], bit64=enc["bit64"])
    else:
        f = c4.File("ascii", mats)
    try:
        buf = c4.encode(f)
    except c4.CodecError as e:
        sh.count("cell:encoder-declined")
        return
    # the codec must read its own file back to the same content and layout
    sh.count("mon:codec-self-consistency")
    back = c4.decode(buf)
    if c4.encode(back) != buf or any(
            not np.array_equal(b.to_dense(), e_) for b, e_ in zip(back.mats, expect)):
        raise RuntimeError("op4_codec encode/decode are not mutually consistent")
    with open(fname, "wb") as fh:
        fh.write(buf)
    tags = {"fmt": "op4", **{k: v for k, v in enc.items()},
            "n_mats": len(mats), "max_rows": max(m.nrow for m in mats),
            "max_string_values": max([len(v) for m in mats for _, ss in m.cols
                                      for _, v in ss] + [0])}
    lay = enc["layout"]
    sh.count(f"cell:op4-{'bin' if enc['binary'] else 'asc'}-{lay}-"
             f"{'single' if enc['single'] else 'double'}")
    if enc["binary"]:
        sh.count(f"cell:op4-keys{64 if enc['bit64'] else 32}-{enc['endian']}")
    else:
        sh.count("cell:op4-fmt-" + (enc["fmt"].strip() or "default"))
        if enc["i16"]:
            sh.count("cell:op4-I16")
    sh.count("cell:op4-part-" + enc["part"])
    exp_names = [_read_name(nm, i) for i, nm in enumerate(names)]
    exp_shapes = [tuple(e.shape) for e in expect]
    exp_forms = list(forms)
    exp_types = [m.mtype for m in mats]
    K = "op4-" + ("bin" if enc["binary"] else "asc") + "-" + lay

    def wrap(fn, what):
        try:
            with warnings.catch_warnings():
                warnings.simplefilter("ignore")
                return fn()
        except Exception as e:
            sh.violation("exception:" + what, case, {"exc": repr(e)[:300]}, tags)
            return None

    modes = [False, True, None] if not heavy else [[False, None], [True, None]][case["k"] % 2]
    lists = {}
    for rm in modes:
        sh.count("mon:op4-read")
        if case["k"] % 3 == 1:
            # ONE reader object for the whole shard: it has just read another encoding
            # (other byte order / key width / ASCII exponent letter / layout); nothing it
            # detected there may stick
            if not _SHARED_OP4:
                _SHARED_OP4.append(op4.OP4())
            sh.count("cell:op4-shared-reader-object")
            res = wrap(lambda: _SHARED_OP4[0].listload(fname, sparse=rm), "op4-load")
        else:
            res = wrap(lambda: op4.load(fname, into="list", sparse=rm), "op4-load")
        if res is None:
            continue
        lists[str(rm)] = res
        ln, lm, lf, lt = res
        sh.count("mon:op4-listing-of-load")
        if list(ln) != exp_names or list(lf) != exp_forms or list(lt) != exp_types:
            sh.violation("op4-load-meta", case,
                         {"got": [ln, lf, lt], "want": [exp_names, exp_forms, exp_types]},
                         {**tags, "read_sparse": str(rm)})
            continue
        for i, M in enumerate(lm):
            sh.count("mon:op4-return-type")
            m = mats[i]
            if rm is False:
                okt = isinstance(M, np.ndarray)
            elif rm is True:
                okt = sp.issparse(M)
            else:
                want_sparse = (m.layout != "dense") if m.cols else m.neg_rows
                okt = sp.issparse(M) == want_sparse
            if not okt:
                sh.violation("op4-return-type", case,
                             {"matrix": i, "type": str(type(M)), "read_sparse": str(rm),
                              "layout": m.layout}, tags)
                continue
            _cmp(sh, K + ("-sparse" if sp.issparse(M) else "-dense"), M, expect[i],
                 {**case, "matrix": i}, {**tags, "read_sparse": str(rm)})

    # dir vs load / vs encoded
    sh.count("mon:op4-dir")
    d = wrap(lambda: op4.dir(fname, verbose=False), "op4-dir")
    if d is not None:
        dn, ds, df, dm = d
        if (list(dn), [tuple(s) for s in ds], list(df), list(dm)) != (
                exp_names, exp_shapes, exp_forms, exp_types):
            sh.violation("op4-dir", case, {"dir": [dn, ds, df, dm],
                                           "want": [exp_names, exp_shapes, exp_forms,
                                                    exp_types]}, tags)
        for rm, (ln, lm, lf, lt) in lists.items():
            sh.count("mon:op4-dir-vs-load")
            if (list(dn), [tuple(s) for s in ds], list(df), list(dm)) != (
                    list(ln), [tuple(M.shape) for M in lm], list(lf), list(lt)):
                sh.violation("op4-dir-vs-load", case, {"dir": [dn, ds, df, dm]}, tags)

    # named subsets == filtered full read (list and dct interfaces)
    if len(mats) >= 1 and "False" in lists or "True" in lists:
        base_mode = False if "False" in lists else True
        full = lists[str(base_mode)]
        n = len(mats)
        pick = sorted(set(int(x) for x in r.integers(0, n, int(r.integers(1, n + 1)))))
        subset = [exp_names[i] for i in pick]
        if r.random() < 0.3:
            subset.append("nosuch")
        arg = subset[0] if len(subset) == 1 and r.random() < 0.5 else subset
        sh.count("mon:op4-subset")
        res = wrap(lambda: op4.load(fname, namelist=arg, into="list", sparse=base_mode),
                   "op4-load-subset")
        if res is not None:
            keep = [i for i, nm in enumerate(full[0]) if nm in subset]
            ok = list(res[0]) == [full[0][i] for i in keep] and \
                list(res[2]) == [full[2][i] for i in keep] and \
                list(res[3]) == [full[3][i] for i in keep] and len(res[1]) == len(keep)
            if ok:
                for M, i in zip(res[1], keep):
                    a = M.toarray() if sp.issparse(M) else M
                    b = full[1][i].toarray() if sp.issparse(full[1][i]) else full[1][i]
                    ok &= a.shape == b.shape and a.tobytes() == b.tobytes()
            if not ok:
                sh.violation("op4-subset", case, {"subset": subset, "got_names": list(res[0]),
                                                  "full_names": list(full[0])}, tags)
        sh.count("mon:op4-dct")
        dres = wrap(lambda: op4.read(fname, namelist=arg, sparse=base_mode)
                    if case["k"] % 2 else op4.load(fname, namelist=arg, sparse=base_mode),
                    "op4-read-dct")
        if dres is not None:
            want = {}
            for i, nm in enumerate(full[0]):
                if nm in subset:
                    want[nm] = i
            ok = list(dres.keys()) == list(want.keys())
            if ok:
                for nm, i in want.items():
                    val = dres[nm]
                    if not case["k"] % 2:
                        ok &= isinstance(val, tuple) and val[1:] == (full[2][i], full[3][i])
                        val = val[0] if isinstance(val, tuple) else val
                    a = val.toarray() if sp.issparse(val) else np.asarray(val)
                    b = full[1][i].toarray() if sp.issparse(full[1][i]) else full[1][i]
                    ok &= a.shape == b.shape and a.tobytes() == b.tobytes()
            if not ok:
                sh.violation("op4-dct", case, {"subset": subset, "keys": list(dres.keys())},
                             tags)

    # positional monitor: after skipping matrix i the reader stands at the next block
    sh.count("mon:op4-skip-position")
    o = op4.OP4()
    try:
        with warnings.catch_warnings():
            warnings.simplefilter("ignore")
            o._op4open_read(fname)
            loader = o._loadop4_ascii if o._ascii else o._loadop4_binary
            if o._ascii == enc["binary"]:
                sh.violation("op4-format-detect", case, {"ascii": o._ascii}, tags)
            elif enc["binary"] and (o._endian != enc["endian"] or o._bit64 != enc["bit64"]):
                sh.violation("op4-format-detect", case,
                             {"endian": o._endian, "bit64": o._bit64}, tags)
            else:
                for i, m in enumerate(mats):
                    nm, size, fo, ty = loader(listonly=True)
                    pos = o._fileh.tell()
                    if pos != m.stop or nm != exp_names[i]:
                        sh.violation("op4-skip-position", case,
                                     {"matrix": i, "tell": pos, "want": m.stop, "name": nm},
                                     tags)
                        break
                else:
                    nm, _, _, _ = loader(listonly=True)
                    if nm is not None:
                        sh.violation("op4-skip-position", case, {"after_last": nm}, tags)
                # skip to a named matrix, read it, check the position after the read
                if enc["binary"] and len(mats) > 1:
                    sh.count("mon:op4-read-position")
                    o._op4close()
                    o._op4open_read(fname)
                    k = int(r.integers(0, len(mats)))
                    if exp_names.index(exp_names[k]) == k:
                        nm, X, fo, ty = o._loadop4_binary(patternlist=[exp_names[k]],
                                                          sparse=None)
                        pos = o._fileh.tell()
                        if pos != mats[k].stop:
                            sh.violation("op4-read-position", case,
                                         {"matrix": k, "tell": pos, "want": mats[k].stop},
                                         tags)
    except Exception as e:
        sh.violation("exception:op4-skip", case, {"exc": repr(e)[:300]}, tags)
    finally:
        o._op4close()


def _op4_shard(sh, params):
    import numpy as np
    s = params["slice"]
    for li in range(params["nlogical"]):
        r = core.rng(sh.seed, "C11", "op4", s, li)
        nm = int(r.choice([1, 1, 2, 2, 3, 4, 5, 6]))
        logical = [_logical_matrix(r) for _ in range(nm)]
        names = [_name(r) for _ in range(nm)]
        if nm > 2 and r.random() < 0.3:
            names[-1] = names[0]                      # repeated name
        if r.random() < 0.15:                         # name that is not an identifier
            names[int(r.integers(0, nm))] = ["1MAT", "", "A B", "2", "X-Y"][int(r.integers(0, 5))]
            sh.count("cell:op4-badname")
        forms = [int(r.choice([1, 2, 6, 2, 3, 8, 9])) for _ in range(nm)]
        dig = _content_digest([A for A, _ in logical])
        encs = _op4_encodings(r, logical, params.get("nenc", 12))
        for k, enc in enumerate(encs):
            rr = core.rng(sh.seed, "C11", "op4", s, li, k)
            case = {"kind": "op4", "slice": s, "li": li, "k": k, "content": dig,
                    "shapes": [d["shape"] for _, d in logical],
                    "cplx": [d["cplx"] for _, d in logical], "names": names, "enc": enc}
            sh.case(case, any(np.any(A) for A, _ in logical))
            _op4_file(sh, logical, names, forms, enc, case, r=rr)


def _op4_large_shard(sh, params, tier):
    """Columns around the reader's 3000-value struct/fromfile switch and rows up to 70000."""
    import numpy as np
    k = kb = ka = g = 0
    for single in (False, True):
        for cplx in (False, True):
            for nval in (2999, 3000, 3001):
                r = core.rng(sh.seed, "C11", "op4-large", single, cplx, nval)
                g += 1
                nrow = [nval + 7, 65535, 70000][g % 3]
                n = nval if not cplx else nval - 1500     # 2998 / 3000 / 3002 reals
                A = np.zeros((nrow, 3), complex if cplx else float)
                a0 = int(r.integers(0, nrow - n + 1))
                v = r.standard_normal(n)
                v[v == 0] = 1.0
                A[a0:a0 + n, 1] = v + (1j * r.standard_normal(n) if cplx else 0)
                A[nrow - 1, 2] = 4.0
                A[0, 0] = -2.0
                logical = [(A, {"shape": [nrow, 3], "cplx": cplx}),
                           _logical_matrix(r, shape=(4, 4))]
                names, forms = ["BIG", "SMALL"], [2, 1]
                dig = _content_digest([A])
                for layout in ("dense", "bigmat", "nonbigmat"):
                    for variant in ("b32", "b64", "asc"):
                        k += 1
                        binary = variant != "asc"
                        enc = {"binary": binary, "single": single, "layout": layout,
                               "part": "natural", "closing": 1.0}
                        if binary:
                            kb += 1
                            enc.update(bit64=variant == "b64", endian="<>"[(kb // 2 + g) % 2])
                        else:
                            ka += 1
                            if tier == "quick" and ka % 2:
                                continue
                            enc.update(fmt=ASCII_FORMATS[(ka // 2) % 3], i16=False)
                        case = {"kind": "op4-large", "k": k, "nval": nval, "nrow": nrow,
                                "cplx": cplx, "content": dig, "enc": enc}
                        sh.case(case, True)
                        sh.count(f"cell:op4-large-{nval}")
                        sh.count(f"cell:op4-large-rows-{nrow if nrow >= 65535 else 'small'}")
                        _op4_file(sh, logical, names, forms, enc, case, heavy=True,
                                  r=core.rng(sh.seed, "C11", "op4-large", k))


# ------------------------------------------------------------------------------------
# OUTPUT2
# ------------------------------------------------------------------------------------

def _split(r, nwords, npieces, unit=1):
    """Split nwords into npieces positive parts, each a multiple of `unit`."""
    import numpy as np
    units = nwords // unit
    npieces = max(1, min(npieces, units))
    if npieces == 1:
        return [nwords]
    cuts = np.sort(r.choice(np.arange(1, units), npieces - 1, replace=False))
    parts = np.diff(np.concatenate(([0], cuts, [units])))
    return [int(p) * unit for p in parts]


def _logical_table(r, bit64, big=False):
    """Records with known payloads: list of (form, ndarray|bytes)."""
    import numpy as np
    recs = []
    nrec = int(r.integers(1, 6)) if (big or r.random() > 0.1) else 0
    for _ in range(nrec):
        form = ["int", "int", "single", "double", "bytes", "uint"][int(r.integers(0, 6))]
        nw = int(r.integers(1, 40)) if r.random() < 0.8 else int(r.integers(40, 400))
        if big:
            nw = int(r.choice([2999, 3000, 3001, 6000, 7001]))
        elif r.random() < 0.08:
            nw = 0          # a zero-length logical record (what a null matrix column is)
            form = "int" if form == "double" else form
        ksz = 8 if bit64 else 4
        if form == "int":
            lim = 2 ** 62 if bit64 else 2 ** 31 - 1
            data = r.integers(-lim, lim, nw).astype("i8" if bit64 else "i4")
        elif form == "uint":
            lim = 2 ** 63 if bit64 else 2 ** 32 - 1
            data = r.integers(0, lim, nw, dtype=np.uint64).astype("u8" if bit64 else "u4")
        elif form == "single":
            n = nw * (ksz // 4)
            data = (r.standard_normal(n) * 10.0 ** r.integers(-20, 21, n)).astype("f4")
        elif form == "double":
            if not bit64 and nw % 2:
                nw += 1
            n = nw * ksz // 8
            data = r.standard_normal(n) * 10.0 ** r.integers(-200, 201, n).astype(float)
        else:
            data = bytes(r.integers(0, 256, nw * ksz, dtype=np.uint8).tolist())
        recs.append((form, data))
    return recs


def _build_op2(r, blocks, enc):
    """Codec File for one physical encoding + per-block expectations."""
    import numpy as np
    import struct
    from vf.oracles import op2_codec as c2
    bit64, e = enc["bit64"], enc["endian"]
    ksz = 8 if bit64 else 4
    out, expect = [], []
    for b in blocks:
        name = b["name"]
        extra = struct.pack(e + ("q" if bit64 else "i"), 0) * b["hdr_extra_words"]
        if b["kind"] == "matrix":
            A = b["A"]
            cplx = np.iscomplexobj(A)
            mtype = (3 if cplx else 1) if b["single"] else (4 if cplx else 2)
            S = c2.stored_values(A.real, mtype, bit64)
            if cplx:
                S = S + 1j * c2.stored_values(A.imag, mtype, bit64)
            nr, nc = A.shape
            cols = []
            for j in range(nc):
                strings = []
                for s0, n in _partition(r, S[:, j], enc["part"]):
                    seg = S[s0:s0 + n, j]
                    if cplx:
                        v = np.empty(2 * n)
                        v[0::2], v[1::2] = seg.real, seg.imag
                    else:
                        v = np.asarray(seg, float).copy()
                    strings.append((s0 + 1, v))
                if not strings and enc["part"] == "mixed" and r.random() < 0.2:
                    strings = [(int(r.integers(1, nr + 1)), np.zeros(2 if cplx else 1))]
                cols.append(strings)
            trailer = (101 + len(out), nc, nr, b["form"], mtype, 2 * nr, 10000)
            blk = c2.Block(name, trailer, 1, cols=cols, hdr_extra=extra)
            expect.append({"kind": "matrix", "S": S, "trailer": trailer})
        else:
            records = []
            for form, data in b["records"]:
                raw = data if isinstance(data, bytes) else \
                    np.asarray(data).astype(np.asarray(data).dtype.newbyteorder(e)).tobytes()
                nw = len(raw) // ksz
                unit = 1
                if form == "double" and not bit64:
                    unit = 2
                npieces = enc["split"] if enc["split"] else int(r.integers(1, 6))
                if b.get("big") and enc["split"] != 1:
                    # pieces straddling the 3000-value switch
                    first = int(r.choice([2999, 3000, 3001]))
                    first -= first % unit
                    parts = [first, nw - first] if 0 < first < nw else [nw]
                    if len(parts) == 2 and parts[1] > 2 * unit and r.random() < 0.5:
                        q = _split(r, parts[1], 2, unit)
                        parts = [parts[0]] + q
                elif nw == 0:
                    parts = []          # zero-length logical record: closing keys only
                else:
                    parts = _split(r, nw, npieces, unit)
                pieces, p = [], 0
                for w in parts:
                    pieces.append(raw[p:p + w * ksz])
                    p += w * ksz
                records.append(pieces)
            trailer = tuple(int(x) for x in r.integers(0, 30000, 7))
            blk = c2.Block(name, trailer, 0, records=records, hdr_extra=extra)
            expect.append({"kind": "table", "records": b["records"], "trailer": trailer,
                           "pieces": [[len(p) for p in pcs] for pcs in records]})
        out.append(blk)
    header = None
    if enc["label"]:
        t1 = b"NASTRAN FORT TAPE ID CODE - "
        t2 = b"XXXXXXXX"
        if bit64:
            t1 = b"".join(t1[i:i + 4] + b"    " for i in range(0, 28, 4))
            t2 = b"".join(t2[i:i + 4] + b"    " for i in range(0, 8, 4))
        header = {"date": (9, 28, 26), "text1": t1, "text2": t2}
    f = c2.File(out, endian=e, bit64=bit64, header=header, tail_zero_keys=enc["tail"])
    return f, expect


def _op2_file(sh, blocks, enc, case, r, fname="c11.op2", heavy=False):
    import numpy as np
    from pyyeti.nastran import op2
    from vf.oracles import op2_codec as c2

    f, expect = _build_op2(r, blocks, enc)
    buf = c2.encode(f)
    sh.count("mon:codec-self-consistency")
    back = c2.decode(buf)
    if c2.encode(back) != buf or len(back.blocks) != len(f.blocks):
        raise RuntimeError("op2_codec encode/decode are not mutually consistent")
    with open(fname, "wb") as fh:
        fh.write(buf)
    bit64, e = enc["bit64"], enc["endian"]
    tags = {"fmt": "op2", **enc, "n_blocks": len(blocks),
            "max_pieces": max([len(p) for x in expect if x["kind"] == "table"
                               for p in x["pieces"]] + [0])}
    sh.count(f"cell:op2-keys{64 if bit64 else 32}-{e}")
    sh.count("cell:op2-label-" + ("yes" if enc["label"] else "no"))
    sh.count("cell:op2-part-" + enc["part"])
    for x in expect:
        if x["kind"] == "table":
            if not x["pieces"]:
                sh.count("cell:op2-empty-table")
            for p in x["pieces"]:
                sh.count(f"cell:op2-pieces-{min(len(p), 5)}")
        else:
            sh.count(f"cell:op2-mtype-{x['trailer'][4]}")

    def viol(kind, detail, extra=None):
        sh.violation(kind, case, detail, {**tags, **(extra or {})})

    sh.count("mon:op2-open")
    try:
        with warnings.catch_warnings():
            warnings.simplefilter("ignore")
            o = op2.OP2(fname)
    except Exception as ex:
        viol("exception:op2-open", {"exc": repr(ex)[:300]})
        return
    try:
        _op2_checks(sh, o, f, blocks, expect, enc, case, tags, viol, r, heavy)
    except Exception as ex:
        import traceback
        viol("exception:op2-read", {"exc": repr(ex)[:300],
                                    "tb": traceback.format_exc()[-700:]})
    finally:
        try:
            o._fileh.close()
            o._fileh = None
        except Exception:
            pass


def _op2_checks(sh, o, f, blocks, expect, enc, case, tags, viol, r, heavy):
    import numpy as np
    fh = o._fileh
    bit64 = enc["bit64"]
    ksz = 8 if bit64 else 4
    names = [b.name for b in f.blocks]

    # header label and format detection ----------------------------------------------------
    sh.count("mon:op2-header")
    if o._postheaderpos != f.post_header or o._ibytes != ksz:
        viol("op2-header", {"postheaderpos": o._postheaderpos, "want": f.post_header,
                            "ibytes": o._ibytes})
        return
    if enc["label"]:
        if tuple(o._date) != f.header["date"] or o._label != "XXXXXXXX":
            viol("op2-header", {"date": o._date, "label": o._label})
    elif o._date is not None or o._label is not None:
        viol("op2-header", {"date": o._date, "label": o._label, "want": None})

    # directory vs codec offsets -------------------------------------------------------------
    sh.count("mon:op2-directory")
    dl = o.dblist
    if [d.name for d in dl] != names:
        viol("op2-directory", {"names": [d.name for d in dl], "want": names})
        return
    for d, b, x in zip(dl, f.blocks, expect):
        want_size = (b.trailer[2], b.trailer[1]) if b.rectype == 1 else (0, 0)
        if (d.start, d.stop, d.dbtype, tuple(d.size), tuple(d.trailer)) != (
                b.start, b.stop, b.rectype, want_size, b.trailer):
            viol("op2-directory", {"name": d.name, "got": [d.start, d.stop, d.dbtype, d.size,
                                                           d.trailer],
                                   "want": [b.start, b.stop, b.rectype, want_size, b.trailer]})
    sh.count("mon:op2-dir-nbytes")
    offs = sorted({int(d.nbytes - (b.stop - b.start)) for d, b in zip(dl, f.blocks)})
    seen = sh.__dict__.setdefault("_nbytes_symptoms", set())
    if offs != [0]:
        sh.count("cell:op2-dir-nbytes-mismatch-files")
    if offs != [0] and tuple(offs) not in seen:
        seen.add(tuple(offs))       # one report per distinct symptom and shard
        viol("op2-dir-nbytes", {"nbytes": [d.nbytes for d in dl],
                                "stop-start": [b.stop - b.start for b in f.blocks],
                                "off_by": offs},
             {"nbytes_off_by": offs[0] if len(offs) == 1 else "varies"})
    if list(o.names) != names or list(o.dbstarts) != [b.start for b in f.blocks] or \
            list(o.dbstops) != [b.stop for b in f.blocks] or \
            list(o.dbtypes) != [b.rectype for b in f.blocks]:
        viol("op2-directory", {"attr_lists": [list(o.names), list(o.dbstarts),
                                              list(o.dbstops)]})
    for nm in set(names):
        occ = [i for i, n_ in enumerate(names) if n_ == nm]
        if [d.start for d in o.dbdct[nm]] != [f.blocks[i].start for i in occ]:
            viol("op2-directory", {"dbdct": nm})

    # table headers (only as far as DESIGN's 'Not judged' paragraph allows) ------------------
    for d, b, x in zip(dl, f.blocks, expect):
        if b.rectype != 0:
            if d.headers != []:
                viol("op2-tabheaders", {"matrix_headers": d.headers})
            continue
        sh.count("mon:op2-tabheaders")
        pcs = b.records
        fmt = enc["endian"] + "3" + ("q" if bit64 else "i")
        import struct

        def head(piece):
            return [tuple(struct.unpack(fmt, piece[:3 * ksz])), len(piece)]
        unsplit = all(len(p) == 1 and len(p[0]) >= 3 * ksz for p in pcs)
        if unsplit:
            want = [head(p[0]) for p in pcs]
            got = [[tuple(h[0]), h[1]] for h in d.headers]
            if got != want:
                viol("op2-tabheaders", {"got": got[:4], "want": want[:4]})
        elif pcs and pcs[0] and len(pcs[0][0]) >= 3 * ksz:
            got = [tuple(d.headers[0][0]), d.headers[0][1]] if d.headers else None
            if got != head(pcs[0][0]):
                viol("op2-tabheaders", {"first_got": got, "first_want": head(pcs[0][0])})

    # positioned reads: rdop2nt, rdop2matrix / skipop2matrix, rdop2record / skipop2record -----
    for i, (b, x) in enumerate(zip(f.blocks, expect)):
        sh.count("mon:op2-rdop2nt")
        if i % 2:
            o.set_position(b.start)
        else:
            occ = [k for k, n_ in enumerate(names) if n_ == b.name]
            o.set_position(b.name, occ.index(i))
        name, trailer, rectype = o.rdop2nt()
        if (name, tuple(trailer), rectype) != (b.name, b.trailer, b.rectype) or \
                fh.tell() != b.body_start:
            viol("op2-rdop2nt", {"got": [name, trailer, rectype, fh.tell()],
                                 "want": [b.name, b.trailer, b.rectype, b.body_start]})
            continue
        if b.rectype == 1:
            sh.count("mon:op2-rdop2matrix")
            M = o.rdop2matrix(trailer)
            _cmp(sh, "op2-matrix-" + ("single" if b.mtype & 1 else "double"), M, x["S"],
                 {**case, "block": i}, tags)
            sh.count("mon:op2-position-after-matrix")
            if fh.tell() != b.stop:
                viol("op2-position-after-matrix", {"block": i, "tell": fh.tell(),
                                                   "want": b.stop})
            o.set_position(b.start)
            o.rdop2nt()
            o.skipop2matrix()
            sh.count("mon:op2-position-after-skip")
            if fh.tell() != b.stop:
                viol("op2-position-after-skip", {"block": i, "tell": fh.tell(),
                                                 "want": b.stop})
        else:
            for pass_ in (0, 1):
                if pass_:
                    o.set_position(b.start)
                    o.rdop2nt()
                bad = False
                for k, (form, data) in enumerate(x["records"]):
                    sh.count("mon:op2-rdop2record")
                    n_known = 0
                    if pass_ and form != "bytes":
                        n_known = len(data)
                    if pass_ and k % 3 == 2:
                        o.skipop2record()
                        got = None
                    else:
                        got = o.rdop2record(form if (form != "int" or k % 2) else None,
                                            N=n_known)
                    if got is not None or not pass_ or k % 3 != 2:
                        if form == "bytes":
                            ok = got == data
                        else:
                            want = np.asarray(data)
                            ok = (isinstance(got, np.ndarray) and got.shape == want.shape
                                  and got.dtype.itemsize == want.dtype.itemsize
                                  and got.dtype.kind == want.dtype.kind
                                  and got.astype(want.dtype).tobytes() == want.tobytes())
                        if not ok:
                            viol("op2-record-content",
                                 {"block": i, "record": k, "form": form, "N": n_known,
                                  "got": repr(got)[:120], "want": repr(data)[:120]},
                                 {"pieces": len(b.records[k]), "N_given": bool(n_known)})
                            bad = True
                    sh.count("mon:op2-position-after-record")
                    if fh.tell() != b.rec_stops[k]:
                        viol("op2-position-after-record",
                             {"block": i, "record": k, "tell": fh.tell(),
                              "want": b.rec_stops[k], "skipped": got is None},
                             {"pieces": len(b.records[k]), "N_given": bool(n_known)})
                        bad = True
                    if bad:
                        break
                if bad:
                    break
                end = o.rdop2record()
                if end is not None or fh.tell() != b.stop:
                    viol("op2-table-end", {"block": i, "got": repr(end)[:80],
                                           "tell": fh.tell(), "want": b.stop})
                    break
        # next_db_info / goto_next from inside the block
        sh.count("mon:op2-goto-next")
        o.set_position(b.start)
        nxt = o.next_db_info()
        want = f.blocks[i + 1].start if i + 1 < len(f.blocks) else None
        o.goto_next()
        if (nxt.start if nxt is not None else None) != want or \
                fh.tell() != (want if want is not None else f.blocks[-1].stop):
            viol("op2-goto-next", {"block": i, "next": getattr(nxt, "start", None),
                                   "want": want, "tell": fh.tell()})

    # rdop2mats: all / last / first / named subsets / wildcard ------------------------------
    mat_idx = [i for i, b in enumerate(f.blocks) if b.rectype == 1]
    if mat_idx:
        mnames = [names[i] for i in mat_idx]
        uniq = list(dict.fromkeys(mnames))
        for which in (-1, 0, "all"):
            sh.count("mon:op2-rdop2mats")
            lower = bool(which == 0)
            res = o.rdop2mats(which=which, lower=lower)
            keys = [u.lower() if lower else u for u in uniq]
            if list(res.keys()) != keys:
                viol("op2-rdop2mats", {"which": which, "keys": list(res.keys()), "want": keys})
                continue
            for u, kx in zip(uniq, keys):
                occ = [i for i in mat_idx if names[i] == u]
                if which == "all":
                    ok = isinstance(res[kx], list) and len(res[kx]) == len(occ)
                    if not ok:
                        viol("op2-rdop2mats", {"which": "all", "name": u})
                        continue
                    for M, i in zip(res[kx], occ):
                        _cmp(sh, "op2-rdop2mats-values", M, expect[i]["S"],
                             {**case, "block": i, "which": "all"}, tags)
                else:
                    i = occ[which]
                    _cmp(sh, "op2-rdop2mats-values", res[kx], expect[i]["S"],
                         {**case, "block": i, "which": which}, {**tags, "n_occ": len(occ)})
        # named subset == filtered full read
        sh.count("mon:op2-subset")
        pick = [uniq[int(k)] for k in sorted(set(r.integers(0, len(uniq), 2).tolist()))]
        pref = [u for u in uniq if any(v != u and v.startswith(u) for v in uniq)]
        if pref and r.random() < 0.7:
            pick = [pref[0]]                      # exact name that prefixes another one
            sh.count("cell:op2-subset-exact-name-is-prefix")
        arg = [p.lower() if r.random() < 0.5 else p for p in pick]
        wild = None
        if r.random() < 0.5 and not (pref and pick == [pref[0]]):
            wild = pick[0][:max(1, len(pick[0]) - 1)]
            arg = [wild + "*"] + arg[1:]
        res = o.rdop2mats(names=arg)
        full = o.rdop2mats()
        exact = set(pick[1:]) | ({pick[0]} if wild is None else set())
        want = [u for u in uniq
                if u in exact or (wild is not None and u.startswith(wild))]
        ok = list(res.keys()) == want and all(
            res[u].tobytes() == full[u].tobytes() and res[u].shape == full[u].shape
            for u in want if u in res)
        if not ok:
            viol("op2-subset", {"arg": arg, "keys": list(res.keys()), "want": want},
                 {"wildcard": wild is not None})


def _op2_shard(sh, params):
    import numpy as np
    s = params["slice"]
    for li in range(params["nlogical"]):
        r = core.rng(sh.seed, "C11", "op2", s, li)
        nb = int(r.choice([1, 2, 3, 3, 4, 5, 6, 7]))
        blocks = []
        for _ in range(nb):
            if r.random() < 0.55:
                A, d = _logical_matrix(r)
                blocks.append({"kind": "matrix", "name": _name(r), "A": A,
                               "single": bool(r.random() < 0.5),
                               "form": int(r.choice([1, 2, 6])),
                               "hdr_extra_words": int(r.integers(0, 4)), "desc": d})
            else:
                blocks.append({"kind": "table", "name": _name(r), "records": None,
                               "hdr_extra_words": int(r.integers(0, 6))})
        if nb > 2 and r.random() < 0.4:           # repeated names (same kind)
            for j in range(1, nb):
                if blocks[j]["kind"] == blocks[0]["kind"]:
                    blocks[j]["name"] = blocks[0]["name"]
                    break
        if nb > 1 and li % 4 == 1:
            # one name used by a matrix AND by a later table (rdop2mats reads the matrix
            # occurrences only)
            mi = [j for j, b in enumerate(blocks) if b["kind"] == "matrix"]
            ti = [j for j, b in enumerate(blocks) if b["kind"] == "table"]
            pair = [(a, t_) for a in mi for t_ in ti if t_ > a]
            if pair:
                a, t_ = pair[int(r.integers(0, len(pair)))]
                blocks[t_]["name"] = blocks[a]["name"]
                sh.count("cell:op2-name-shared-by-matrix-and-table")
        if nb > 1 and r.random() < 0.3:           # common prefix for the wildcard
            for b in blocks[:2]:
                b["name"] = ("KX" + b["name"])[:8]
        if nb > 1 and r.random() < 0.3:
            # one name a proper prefix of another (KAA / KAAX): an exact name in a name
            # list must select that block only
            short = blocks[0]["name"][:6]
            blocks[0]["name"] = short
            for b in blocks[1:]:
                if b["kind"] == blocks[0]["kind"]:
                    b["name"] = short + "X"
                    break
        for k in range(params.get("nenc", 12)):
            rr = core.rng(sh.seed, "C11", "op2", s, li, k)
            enc = {"bit64": bool(k % 2), "endian": "<>"[(k // 2) % 2],
                   "label": bool((k // 4) % 2 == (li % 2)),
                   "part": PART_STYLES[(k + li + k // 12) % len(PART_STYLES)],
                   "split": [1, 0, 2, 0, 5, 3, 4][(k + li) % 7], "tail": 1}
            # table payloads depend on the key width (a logical record is a word sequence)
            rt = core.rng(sh.seed, "C11", "op2-tab", s, li, enc["bit64"])
            for b in blocks:
                if b["kind"] == "table":
                    b["records"] = _logical_table(rt, enc["bit64"])
            dig = _content_digest([b["A"] for b in blocks if b["kind"] == "matrix"] +
                                  [np.frombuffer(d if isinstance(d, bytes) else
                                                 np.asarray(d).tobytes(), np.uint8)
                                   for b in blocks if b["kind"] == "table"
                                   for _, d in b["records"]])
            case = {"kind": "op2", "slice": s, "li": li, "k": k, "content": dig,
                    "blocks": [[b["kind"], b["name"]] for b in blocks], "enc": enc}
            nontrivial = any((b["kind"] == "matrix" and np.any(b["A"])) or
                             (b["kind"] == "table" and b["records"]) for b in blocks)
            sh.case(case, nontrivial)
            _op2_file(sh, blocks, enc, case, rr)


def _op2_large_shard(sh, params, tier):
    import numpy as np
    k = 0
    for single in (False, True):
        for cplx in (False, True):
            for nval in (2999, 3000, 3001):
                r = core.rng(sh.seed, "C11", "op2-large", single, cplx, nval)
                n = nval if not cplx else nval - 1500     # 2998 / 3000 / 3002 reals
                nrow = n + 11
                A = np.zeros((nrow, 3), complex if cplx else float)
                a0 = int(r.integers(0, nrow - n + 1))
                v = r.standard_normal(n)
                v[v == 0] = 1.0
                A[a0:a0 + n, 1] = v + (1j * r.standard_normal(n) if cplx else 0)
                A[nrow - 1, 2] = 4.0
                for bit64 in (False, True):
                    for endian in "<>":
                        k += 1
                        rt = core.rng(sh.seed, "C11", "op2-large-tab", k)
                        blocks = [
                            {"kind": "table", "name": "TBIG", "hdr_extra_words": 2,
                             "records": _logical_table(rt, bit64, big=True), "big": True},
                            {"kind": "matrix", "name": "MBIG", "A": A, "single": single,
                             "form": 2, "hdr_extra_words": 0},
                            {"kind": "table", "name": "TEND", "hdr_extra_words": 0,
                             "records": _logical_table(rt, bit64)}]
                        enc = {"bit64": bit64, "endian": endian, "label": bool(k % 2),
                               "part": "natural", "split": [1, 0][k % 2], "tail": 1}
                        case = {"kind": "op2-large", "k": k, "nval": nval, "cplx": cplx,
                                "single": single, "enc": enc}
                        sh.case(case, True)
                        sh.count(f"cell:op2-large-{nval}")
                        _op2_file(sh, blocks, enc, case,
                                  core.rng(sh.seed, "C11", "op2-large", k), heavy=True)


# ------------------------------------------------------------------------------------

def _sample_root():
    """The shipped Nastran-written files are data, not code under test: the selftest's
    scratch copy of the tree leaves pyyeti/tests out, so fall back to /repo for them."""
    if os.path.isdir(os.path.join(core.REPO, "pyyeti", "tests", "nastran_op4_data")):
        return core.REPO
    return "/repo"


def run_shard(sh, params):
    from vf.oracles import op2_codec, op4_codec
    ok4, bad4, _ = op4_codec.selfcheck_samples(_sample_root())
    ok2, bad2, _ = op2_codec.selfcheck_samples(_sample_root())
    sh.count("oracle:op4-sample-files-reencoded", ok4)
    sh.count("oracle:op2-sample-files-reencoded", ok2)
    if bad4 or bad2:
        sh.count("oracle:sample-files-failed", len(bad4) + len(bad2))
        sh.samples.append({"oracle_selfcheck_failed": (bad4 + bad2)[:5]})
        return              # oracle not credible: judge nothing (finalize -> exit 2)
    kind = params["kind"]
    if kind == "op4":
        _op4_shard(sh, params)
    elif kind == "op2":
        _op2_shard(sh, params)
    elif kind == "op4-large":
        _op4_large_shard(sh, params, sh.tier)
    else:
        _op2_large_shard(sh, params, sh.tier)


def finalize(agg, tier):
    why = []
    c = agg["counters"]
    if c.get("oracle:sample-files-failed"):
        why.append("a codec failed to re-encode shipped sample files byte-exactly "
                   f"({c['oracle:sample-files-failed']} failures): oracle not credible")
    for k in ("oracle:op4-sample-files-reencoded", "oracle:op2-sample-files-reencoded"):
        if not c.get(k):
            why.append(k + " is zero: sample self-check never ran")
    mons = ["op4-read", "op4-dir", "op4-dir-vs-load", "op4-subset", "op4-dct",
            "op4-skip-position", "op4-read-position", "op4-return-type",
            "op2-open", "op2-header", "op2-directory", "op2-dir-nbytes", "op2-tabheaders",
            "op2-rdop2nt", "op2-rdop2matrix", "op2-position-after-matrix",
            "op2-position-after-skip", "op2-rdop2record", "op2-position-after-record",
            "op2-goto-next", "op2-rdop2mats", "op2-subset", "op2-matrix-single",
            "op2-matrix-double", "op2-rdop2mats-values", "codec-self-consistency"]
    for fmt in ("bin", "asc"):
        for lay in ("dense", "bigmat", "nonbigmat"):
            for rd in ("dense", "sparse"):
                mons.append(f"op4-{fmt}-{lay}-{rd}")
    for k in mons:
        if not c.get("mon:" + k):
            why.append(f"monitor {k} never evaluated")
    need = []
    for fmt in ("bin", "asc"):
        for lay in ("dense", "bigmat", "nonbigmat"):
            for pr in ("single", "double"):
                need.append(f"op4-{fmt}-{lay}-{pr}")
    for kw in (32, 64):
        for e in "<>":
            need += [f"op4-keys{kw}-{e}", f"op2-keys{kw}-{e}"]
    need += ["op4-part-" + p for p in PART_STYLES] + ["op2-part-" + p for p in PART_STYLES]
    need += ["op4-fmt-" + (f.strip() or "default") for f in ASCII_FORMATS] + ["op4-I16"]
    need += [f"op2-pieces-{k}" for k in range(1, 6)] + ["op2-label-yes", "op2-label-no"]
    need += ["op4-badname", "op2-empty-table"]
    need += [f"op2-mtype-{k}" for k in (1, 2, 3, 4)]
    need += [f"op4-large-{n}" for n in (2999, 3000, 3001)]
    need += [f"op2-large-{n}" for n in (2999, 3000, 3001)]
    need += ["op4-large-rows-65535", "op4-large-rows-70000"]
    for k in need:
        if not c.get("cell:" + k):
            why.append(f"coverage cell {k} empty")
    return why


def evidence_extra(agg, tier):
    c = agg["counters"]
    n = max(agg["shards"], 1)
    return {"op4_sample_files_reencoded_per_shard": c.get("oracle:op4-sample-files-reencoded",
                                                          0) // n,
            "op2_sample_files_reencoded_per_shard": c.get("oracle:op2-sample-files-reencoded",
                                                          0) // n,
            "encoder_declined": c.get("cell:encoder-declined", 0)}
