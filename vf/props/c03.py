"""C03 -- shock response spectrum == exact single-DOF response peaks.

Every case calls the real ``pyyeti.srs.srs(..., getresp=True)`` and compares

* ``resp['hist']`` / ``resp['t']`` / ``resp['sr']`` with the exact response of the damped
  oscillator (``vf.oracles.sdof``: closed-form step matrices evaluated in mpmath, state
  recurrence -- no digital-filter formulation) to the piecewise-linear record the spectrum
  is computed from, under the oracle's own reading of the four ``ic`` rules and the three
  time windows;
* ``sh`` with the stated peak statistic recomputed from the *returned* history by the
  harness's own selectors;
* the algebraic relations of the property (abs/pos/neg, windows, pvelo/pacce/reldisp,
  eqsine, packaging, column permutation, linearity);
* the resampling contract of ``rolloff`` (recorded at the boundary of the roll functions);
* ``srs_frf`` and ``vrs`` (incl. Miles) with their closed forms.
"""
import itertools
import math

from vf import core

ID = "C03"
LEVEL = "exploration"
RULE = ("case g (seed-derived, Philox) = signal (length 1,2,3 or 50-400; 1-4 columns; "
        "step / spike / sine burst at or off an oscillator frequency / offset noise) x "
        "sample rate 10^[0.5,4.5] x 1-5 oscillator frequencies with sr/fn on a 31-point "
        "log grid 2.2..2000 (+ fn = 0, repeats, random order) x Q in {0.5001,0.7,5,10,50,"
        "1000} x the option cell (stype, ic, time, peak) taken round-robin from the full "
        "product 6x4x3x7 x rolloff in {none,linear,lanczos,fft,prefilter} with ppc chosen "
        "so that the upsampling factor is 2..5 x eqsine; plus srs_frf and vrs cases on "
        "random spectra.  distinct = distinct case digests; non-trivial = the signal has a "
        "non-zero sample (srs) / the spectrum is not identically zero (frf, vrs)")
ASSUMPTIONS = [
    "the exact oscillator response is represented by vf/oracles/sdof.py (closed-form "
    "step matrices in mpmath, cross-checked at every shard start against the Van Loan "
    "construction of vf/oracles/lti.py in mpmath and the analytic step/ramp responses)",
    "'zero'/'shift'/'mshift' start from rest one sample before the record with zero "
    "input there (srs docstring note); 'steady' starts from the steady state of sig[0]; "
    "at fn = 0 'steady' is read as the limit fn -> 0 (spring force held at -sig[0])",
    "accuracy grade of the ramp-invariant coefficients encoded as "
    "eps*(50 r^2 + 12 max(1,1/Q) (r/2pi)^3), r = sr/fn <= 2000: the (1-C)/Q - qS - w dT "
    "numerators cancel to O((w dT)^3) from terms of size O(w dT) and 1/Q",
    "in-between samples of lanczos/fft resampling are not judged here (C19); only that "
    "the original samples survive at stride f and the rate/time bookkeeping",
    "prefilter is exercised only for records longer than scipy.signal.filtfilt's "
    "default pad length (12)",
]
MIN_NONTRIVIAL = {"quick": 2500, "thorough": 60000}
TIMEOUT = {"quick": 1800, "thorough": 14400}

STYPES = ("absacce", "relacce", "reldisp", "relvelo", "pvelo", "pacce")
ICS = ("zero", "shift", "mshift", "steady")
TIMES = ("primary", "residual", "total")
PEAKS = ("abs", "pos", "neg", "poss", "negs", "rms", "callable")
CELLS = list(itertools.product(STYPES, ICS, TIMES, PEAKS))      # 504
QS = (0.5001, 0.7, 5.0, 10.0, 50.0, 1000.0)
ROLLS = ("linear", "lanczos", "fft", "prefilter")
NCASE = {"quick": 6 * 504, "thorough": 200 * 504}
NSHARD = {"quick": 12, "thorough": 16}
NAUX = {"quick": 40, "thorough": 600}          # frf and vrs cases per shard
EPS = 2.220446049250313e-16
PRE_B = (0.8767, 1.7533, 0.8767)               # documented in srs.preroll (Ahlin)
PRE_A = (1.0, 1.6296, 0.8111, 0.0659)


def shards(tier, seed):
    ns = NSHARD[tier]
    return [{"slice": s, "nslice": ns} for s in range(ns)]


# ------------------------------------------------------------------------------------
# case generation
# ------------------------------------------------------------------------------------

def _ratio_grid():
    import numpy as np
    return np.exp(np.linspace(math.log(2.2), math.log(2000.0), 31))


def gen_case(seed, g):
    """Everything about srs case ``g`` of run ``seed`` (regenerable from (seed, g))."""
    import numpy as np
    r = core.rng(seed, "C03", "case", g)
    stype, ic, timew, peak = CELLS[(g + 131 * seed) % len(CELLS)]
    n = int(r.integers(1, 4)) if r.random() < 0.10 else int(r.integers(50, 401))
    ncol = int(r.integers(1, 5))
    sr = float(10 ** r.uniform(0.5, 4.5))
    roll = "none" if r.random() < 0.5 else ROLLS[int(r.integers(0, 4))]
    # sr=None is documented for length-1 records (ic != 'zero'); pyYeti then uses sr = 1
    sr_none = bool(n == 1 and ic != "zero" and r.random() < 0.3)
    if sr_none:
        sr, roll = 1.0, "none"
    if roll == "prefilter" and n < 13:
        roll = "none"
    grid = _ratio_grid()
    if roll in ("linear", "lanczos", "fft"):
        grid = grid[grid <= 300.0]
    k = int(r.integers(1, 6))
    ratios = r.choice(grid, size=k, replace=True)
    freq = sr / ratios
    no_f0 = ic == "steady" and stype in ("reldisp", "pvelo")
    if not no_f0 and r.random() < 0.3:
        freq = np.insert(freq, int(r.integers(0, k + 1)), 0.0)
    if not no_f0 and timew != "residual" and r.random() < 0.02:
        freq = np.array([0.0])                 # no positive frequency at all
    Q = QS[int(r.integers(0, len(QS)))]
    eqsine = bool(r.random() < 0.25)
    ppc, factor = 12.0, 1
    pos = freq[freq > 0]
    if roll in ("linear", "lanczos", "fft") and pos.size:
        ftarget = int((2, 2, 3, 4, 5)[int(r.integers(0, 5))])
        ppc = float(sr / pos.max() * (ftarget - r.uniform(0.05, 0.9)))
        if r.random() < 0.1:
            ppc = float(sr / pos.max() * r.uniform(0.3, 0.95))    # enough points already
        elif n > 1:
            factor = ftarget
    # -- signal ---------------------------------------------------------------------
    t = np.arange(n) / sr
    sig = np.zeros((n, ncol))
    fams = []
    for c in range(ncol):
        A = 10 ** r.uniform(-2, 2)
        if n <= 3:
            fam = "short"
            x = A * r.standard_normal(n)
        else:
            fam = ("step", "spike", "burst-res", "burst-off", "noise")[int(r.integers(0, 5))]
            k0 = int(r.integers(0, n - 1))
            k1 = int(r.integers(k0 + 1, n + 1))
            x = np.zeros(n)
            if fam == "step":
                x[k0:] = A
            elif fam == "spike":
                x[k0] = A
            elif fam.startswith("burst"):
                f0 = float(r.choice(pos)) if pos.size else sr / 20
                if fam == "burst-off":
                    f0 *= (0.37, 0.8, 1.9)[int(r.integers(0, 3))]
                x[k0:k1] = A * np.sin(2 * np.pi * f0 * (t[k0:k1] - t[k0]))
            else:
                x = A * r.standard_normal(n)
        if fam in ("noise", "short") or r.random() < 0.6:
            x = x + r.uniform(-3, 3) * A
        sig[:, c] = x
        fams.append(fam)
    oned = bool(ncol == 1 and r.random() < 0.5)
    return {"g": g, "stype": stype, "ic": ic, "time": timew, "peak": peak, "n": n,
            "ncol": ncol, "sr": sr, "sr_none": sr_none, "freq": freq, "Q": Q,
            "eqsine": eqsine, "rolloff": roll, "ppc": ppc, "factor": factor,
            "sig": sig, "oned": oned, "fams": fams}


def _ptp(resp):
    return resp.max(axis=0) - resp.min(axis=0)


def _nz(a):
    """-0.0 -> +0.0 (max/min over {+0.0, -0.0} may return either; both are 'zero')."""
    import numpy as np
    return np.asarray(a, dtype=float) + 0.0


def _selectors():
    import numpy as np
    return {"abs": lambda h: np.abs(h).max(axis=0),
            "pos": lambda h: np.abs(h.max(axis=0)),
            "neg": lambda h: np.abs(h.min(axis=0)),
            "poss": lambda h: h.max(axis=0),
            "negs": lambda h: h.min(axis=0),
            "rms": lambda h: np.sqrt(np.mean(h * h, axis=0)),
            "callable": lambda h: h.max(axis=0) - h.min(axis=0)}


# ------------------------------------------------------------------------------------
# the oracle's reading of ic rules and windows
# ------------------------------------------------------------------------------------

def grade(ratio, Q):
    """Documented accuracy grade of the ramp-invariant coefficients (relative)."""
    import numpy as np
    ratio = np.asarray(ratio, dtype=float)
    with np.errstate(invalid="ignore"):
        g = EPS * (50.0 * ratio ** 2 + 12.0 * max(1.0, 1.0 / Q) * (ratio / (2 * np.pi)) ** 3)
    return np.where(np.isfinite(ratio), g, 0.0)


def recursion_noise(ratio, N):
    """Round-off growth of a two-pole recursion run for N steps with poles at angle
    2 pi / ratio from z = 1: every step's rounding error is carried on by an impulse
    response of size min(N, ratio / 2 pi) and the N errors add like a random walk
    (fn = 0: double pole at 1, N^1.5)."""
    import numpy as np
    with np.errstate(invalid="ignore"):
        return 4 * EPS * math.sqrt(N) * np.maximum(1.0, np.minimum(N, ratio / (2 * np.pi)))


def ic_shift(sig, ic):
    """The record after the initial-condition rule (before any resampling)."""
    if ic == "shift" or ic == "steady":
        return sig - sig[0]
    if ic == "mshift":
        return sig - sig.mean(axis=0)
    return sig


def exact_history(rec, sr, freq, Q, ic, stype, timew, s1, rng=None):
    """Exact response over the whole (padded) record.

    rec : (n, ncol) record the spectrum is computed from, *after* the ic shift and any
          resampling (for 'steady' that is the record minus sig[0])
    s1  : sig[0] of the original record (only used for 'steady')
    rng : if given, 3 extra copies with every real input multiplied by 1+d, |d|<=1e-13

    Returns r (B, N, ncol, nf), M (samples in the primary window), xmax (ncol,)
    """
    import numpy as np
    from vf.oracles import sdof
    n, ncol = rec.shape
    freq = np.asarray(freq, dtype=float)
    nf = freq.size
    B = 1 if rng is None else 4

    def pert(a):
        a = np.asarray(a, dtype=float)
        out = np.broadcast_to(a, (B,) + a.shape).copy()
        if rng is not None:
            out[1:] *= 1 + rng.uniform(-1e-13, 1e-13, out[1:].shape)
        return out

    ws = pert(2 * np.pi * freq)
    zeta = pert(np.full(nf, 1 / (2 * Q)))
    x = pert(rec)
    s1b = pert(s1)
    h = 1.0 / sr
    M = n
    if timew != "primary":
        pos = freq[freq > 0]
        if pos.size:
            # one full cycle of the lowest positive frequency: smallest count with
            # npad / sr >= 1 / fmin
            npad = int(math.ceil(sr / pos.min()))
            x = np.concatenate([x, np.zeros((B, npad, ncol))], axis=1)
            if ic == "steady":
                x[:, M:] -= s1b[:, None, :]
    if ic == "steady":
        # one step before the record the oscillator sits in the steady state of sig[0]
        # (input sig[0] there); for an unprocessed record the first sample is sig[0] and
        # the lead-in step changes nothing
        xin = np.concatenate([s1b[:, None, :], x + s1b[:, None, :]], axis=1)
        with np.errstate(divide="ignore", invalid="ignore"):
            u0 = np.where(ws[:, None, :] > 0,
                          -s1b[:, :, None] / ws[:, None, :] ** 2, 0.0)
        u, v = sdof.simulate(xin, h, ws, zeta, u0=u0, v0=0.0)
        r = sdof.responses(xin, h, ws, zeta, u, v, which=(stype,))[stype][:, 1:]
        z0 = freq == 0
        if z0.any():
            # limit fn -> 0 of the steady start: the spring force stays -s1
            u_, v_ = sdof.simulate(x, h, ws[:, z0], zeta[:, z0], lead_in=True)
            r0 = sdof.responses(x, h, ws[:, z0], zeta[:, z0], u_, v_,
                                which=(stype,))[stype]
            if stype == "absacce":
                r0 = r0 + s1b[:, None, :, None]
            elif stype == "pacce":
                r0 = r0 - s1b[:, None, :, None]
            r[..., z0] = r0
        xmax = np.abs(xin[0]).max(axis=0)
    else:
        u, v = sdof.simulate(x, h, ws, zeta, lead_in=True)
        r = sdof.responses(x, h, ws, zeta, u, v, which=(stype,))[stype]
        xmax = np.abs(x[0]).max(axis=0)
    return r, M, xmax


def input_gain(stype, freq, T):
    """Upper bound of |response| / |input| (static or kinematic), per frequency."""
    import numpy as np
    w = 2 * np.pi * np.asarray(freq, dtype=float)
    with np.errstate(divide="ignore"):
        if stype in ("absacce", "relacce", "pacce"):
            return np.ones_like(w)
        if stype == "relvelo":
            return np.minimum(1 / w, T)
        if stype == "pvelo":
            return w * np.minimum(1 / w ** 2, T * T)
        return np.minimum(1 / w ** 2, T * T)


# ------------------------------------------------------------------------------------
# one srs case
# ------------------------------------------------------------------------------------

class _Rec:
    """Boundary recorder on the roll functions of pyyeti.srs."""

    def __init__(self, srs):
        import numpy as np
        self.calls = []
        for name in ("fftroll", "lanroll", "preroll", "linroll"):
            orig = getattr(srs, name)

            def w(sig, sr, ppc, frq, _orig=orig, _name=name):
                sig_in = np.array(sig, dtype=float, copy=True)
                out = _orig(sig, sr, ppc, frq)
                self.calls.append({"name": _name, "sig": sig_in, "sr": sr, "ppc": ppc,
                                   "frq": frq, "out": np.array(out[0], copy=True),
                                   "sr_out": out[1]})
                return out
            w.__name__ = name
            setattr(srs, name, w)


def run_srs_case(sh, srs, rec, c):
    import numpy as np
    sig, freq, Q, sr = c["sig"], c["freq"], c["Q"], c["sr"]
    stype, ic, timew, peak = c["stype"], c["ic"], c["time"], c["peak"]
    n, ncol = sig.shape
    nf = freq.size
    roll = c["rolloff"]
    case = {"seed": sh.seed, "g": c["g"], "stype": stype, "ic": ic, "time": timew,
            "peak": peak, "n": n, "ncol": ncol, "sr": sr, "freq": freq, "Q": Q,
            "rolloff": roll, "ppc": c["ppc"], "eqsine": c["eqsine"], "oned": c["oned"],
            "sr_none": c["sr_none"], "fams": c["fams"],
            "sig": sig if sig.size <= 12 else None}
    tags = {"stype": stype, "ic": ic, "time": timew, "peak": peak, "rolloff": roll,
            "factor": c["factor"], "eqsine": c["eqsine"], "n_in": n, "ncol": ncol,
            "Q": Q, "has_f0": bool((freq == 0).any()), "oned": c["oned"]}
    sh.case({"g": c["g"], "seed": sh.seed}, nontrivial=bool(np.any(sig != 0)),
            sample={k: v for k, v in case.items() if k != "sig"})
    sh.count(f"cell:{stype}/{ic}/{timew}/{peak}")
    sh.count("n:" + (str(n) if n <= 3 else "50-400"))
    sh.count("Q:%g" % Q)
    sh.count("rolloff:" + roll)
    if tags["has_f0"]:
        sh.count("fn0:present")
    if not (freq > 0).any():
        sh.count("fn0:only")
    if c["sr_none"]:
        sh.count("sr:None")
    for fm in set(c["fams"]):
        sh.count("signal:" + fm)
    rat = sr / freq[freq > 0]
    if rat.size:
        sh.count("ratio:%s" % ("<10" if rat.min() < 10 else "<100" if rat.min() < 100
                               else ">=100"))
        if rat.max() > 1000:
            sh.count("ratio:>1000")

    pk = _ptp if peak == "callable" else peak
    base = dict(ic=ic, stype=stype, peak=pk, ppc=c["ppc"], rolloff=roll,
                eqsine=c["eqsine"], time=timew, parallel="no")
    sig_arg = sig[:, 0] if c["oned"] else sig
    sr_arg = None if c["sr_none"] else sr

    def call(where, sig_=None, getresp=False, **over):
        kw = dict(base)
        kw.update(over)
        try:
            return srs.srs(sig_arg if sig_ is None else sig_, sr_arg, freq, Q,
                           getresp=getresp, **kw)
        except Exception as e:
            sh.violation("exception:" + where, case,
                         {"exc": repr(e)[:400], "options": {k: str(v) for k, v in
                                                            kw.items()}}, tags)
            return None

    # -- main call, with the roll functions observed --------------------------------
    del rec.calls[:]
    sig_keep = np.array(sig_arg, copy=True)
    freq_keep = np.array(freq, copy=True)
    out = call("srs", getresp=True)
    sh.count("mon:srs-inputs-unmutated")
    if not (np.array_equal(np.asarray(sig_arg), sig_keep, equal_nan=True)
            and np.array_equal(np.asarray(freq), freq_keep)):
        sh.violation("srs-inputs-unmutated", case, {}, tags)
    calls = list(rec.calls)
    del rec.calls[:]
    if out is None:
        return
    shv, resp = out
    hist, tvec, sr_ret = resp["hist"], resp["t"], resp["sr"]

    # -- the record the spectrum is computed from ----------------------------------
    shifted = ic_shift(sig, ic)
    fmax = freq.max()
    resample = roll in ("linear", "lanczos", "fft") and fmax > 0 and sr / fmax < c["ppc"]
    want_calls = 1 if (roll == "prefilter" or resample) else 0
    sh.count("mon:roll-call-count")
    if len(calls) != want_calls or (calls and calls[0]["name"] != {
            "linear": "linroll", "lanczos": "lanroll", "fft": "fftroll",
            "prefilter": "preroll"}.get(roll)):
        sh.violation("roll-call-count", case,
                     {"calls": [k["name"] for k in calls], "want": want_calls}, tags)
    record, sr_used = shifted, sr
    if calls:
        k = calls[0]
        record, sr_used = k["out"], float(k["sr_out"])
        _roll_contract(sh, np, c, case, tags, k, shifted, sr, fmax, sr_ret)
    else:
        sh.check_equal("sr-returned", float(sr_ret), float(sr), case, tags)
        if roll in ("linear", "lanczos", "fft") and fmax > 0:
            sh.count("roll:not-needed")
    if record.ndim != 2 or record.shape[1] != ncol or record.shape[0] < 1:
        sh.violation("roll-record-shape", case, {"shape": record.shape}, tags)
        return
    if (freq > 0).any() and sr_used / freq[freq > 0].min() > 2000 * (1 + 1e-9):
        sh.count("skipped:sr/fn>2000")
        return                                       # outside the property's range

    # -- history == exact oscillator response --------------------------------------
    prng = core.rng(sh.seed, "C03", "pert", c["g"])
    r, M, xmax = exact_history(record, sr_used, freq, Q, ic, stype, timew,
                               sig[0].astype(float), prng)
    N = r.shape[1]
    xmax = np.maximum(xmax, np.abs(sig).max(axis=0))     # terms entering the ic shift
    if c["eqsine"]:
        r = r / Q
    lo = M if timew == "residual" else 0
    want = r[0, lo:]
    sh.check_equal("t-vector", np.asarray(tvec), np.arange(lo, N) / sr_used, case, tags)
    T = N / sr_used
    full = np.abs(r[0]).max(axis=0)                               # (ncol, nf)
    gain = input_gain(stype, freq, T) / (Q if c["eqsine"] else 1.0)
    scale = full + xmax[:, None] * gain[None, :]
    spread = np.abs(r[1:] - r[0]).max(axis=(0, 1))
    with np.errstate(divide="ignore", invalid="ignore"):
        ratio = np.where(freq > 0, sr_used / freq, np.inf)
    rn = recursion_noise(ratio, N)
    gr = grade(ratio, Q) + rn
    tol = 200 * (spread / 1e-13) * EPS + (1e-13 + gr[None, :]) * scale
    ill = spread > 1e-7 * scale
    if ill.any():
        sh.refused += 1
        sh.count("refused:ill-conditioned")
        tol = np.where(ill, np.inf, tol)
    ok_shape = hist.shape == want.shape
    sh.check_close("hist-exact", hist, want, tol if ok_shape else 0.0, case, tags)
    sh.count("hist-window:" + timew)
    if ic == "steady" and np.any(sig[0] != 0):
        sh.count("hist-steady-nonzero-start")
    if not ok_shape:
        return

    # -- sh == stated peak statistic of the returned history ------------------------
    sel = _selectors()
    mine = sel[peak](hist).T                                      # (nf, ncol)
    if c["oned"]:
        mine = mine.ravel()
    if peak in ("rms", "callable"):
        big = np.abs(hist).max(axis=0).T.reshape(mine.shape)
        # rms squares the history: below sqrt(min normal) nothing is left of it
        sh.check_close("sh-peak", shv, mine, 1e-13 * big + 1e-150, case, tags)
    else:
        sh.check_equal("sh-peak", _nz(shv), _nz(mine), case, tags)
    if hist.shape[0] > 1 and np.any(hist.min(axis=0) < 0) and np.any(hist.max(axis=0) > 0):
        sh.count("sh-peak:two-signed")
    o2 = call("srs-noresp")
    if o2 is not None:
        sh.check_equal("sh-noresp", _nz(o2), _nz(shv), case, tags)

    _relations(sh, np, c, case, tags, call, shv, hist, sel, scale, gr, rn, xmax)


def _roll_contract(sh, np, c, case, tags, k, shifted, sr, fmax, sr_ret):
    """Resampling contract, stated independently of the roll functions."""
    from scipy import signal
    roll, n = c["rolloff"], shifted.shape[0]
    out = k["out"]
    amp = max(float(np.abs(shifted).max()), 1e-300)
    sh.check_close("roll-input", k["sig"], shifted, 1e-14 * amp, case, tags)
    sh.check_equal("roll-args", [float(k["sr"]), float(k["ppc"]), float(k["frq"])],
                   [float(sr), float(c["ppc"]), float(fmax)], case, tags)
    if roll == "prefilter":
        sh.check_equal("sr-returned", float(sr_ret), float(sr), case, tags)
        want = signal.filtfilt(PRE_B, PRE_A, shifted, axis=0)
        sh.check_close("roll-prefilter", out, want,
                       1e-12 * max(float(np.abs(want).max()), amp), case, tags)
        sh.count("roll:prefilter")
        return
    f = int(math.ceil(c["ppc"] / (sr / fmax))) if n > 1 else 1
    tags["factor"] = f
    sh.count("roll:%s/f%s" % (roll, f if f < 3 else ">=3"))
    sh.check_equal("sr-returned", [float(sr_ret), float(k["sr_out"])],
                   [float(sr * f), float(sr * f)], case, tags)
    if n == 1:
        sh.check_equal("roll-record-length", int(out.shape[0]), 1, case, tags)
        return
    keep = n - (n % 2) if roll == "fft" else n
    want_len = (n - 1) * f + 1 if roll == "linear" else keep * f
    got_len = int(out.shape[0])
    t2 = dict(tags, len_got=got_len, len_want=want_len,
              len_is_nf_minus_1=bool(got_len == n * f - 1))
    if (roll == "linear" and f >= 3 and got_len == n * f - 1 and got_len != want_len):
        # the one known mechanism (findings/C03.json): vf.core keeps only the first 200
        # violations of a shard, so this symptom is reported a few times per shard and
        # counted otherwise -- anything that does not fit it exactly is always reported
        sh.count("roll:linear-length-Nf-1")
        if sh.counters["roll:linear-length-Nf-1"] > 8:
            sh.count("mon:roll-record-length")
            return
    if not sh.check_equal("roll-record-length", got_len, want_len, case, t2):
        return
    sh.check_close("roll-stride-samples", out[::f][:keep], shifted[:keep], 1e-10 * amp,
                   case, tags)
    if roll == "linear":
        i = np.arange(want_len) // f
        j = np.arange(want_len) % f
        nxt = np.minimum(i + 1, n - 1)
        want = shifted[i] + (shifted[nxt] - shifted[i]) * (j / f)[:, None]
        sh.check_close("roll-linear-interpolant", out, want, 1e-12 * amp, case, tags)


def _relations(sh, np, c, case, tags, call, shv, hist, sel, scale, gr, rn, xmax):
    sig, freq, Q = c["sig"], c["freq"], c["Q"]
    stype, ic, timew, peak = c["stype"], c["ic"], c["time"], c["peak"]
    shape = np.asarray(shv).shape
    has_pos = bool((freq > 0).any())
    resampled = c["rolloff"] != "none"

    # abs = max(pos, neg)
    a, p, n_ = (call("rel-abs", peak=q) for q in ("abs", "pos", "neg"))
    if a is not None and p is not None and n_ is not None:
        sh.check_equal("rel-abs-posneg", _nz(a), _nz(np.maximum(p, n_)), case, tags)

    # total >= primary, residual (abs, poss; negs reversed)
    for q, sgn in (("abs", 1.0), ("poss", 1.0), ("negs", -1.0)):
        w = {}
        for tw in TIMES:
            if tw == "residual" and not has_pos:
                continue
            w[tw] = call("rel-window", peak=q, time=tw)
        if w.get("total") is None:
            continue
        for tw in ("primary", "residual"):
            if w.get(tw) is None:
                continue
            sh.count("mon:rel-window")
            bad = sgn * np.asarray(w["total"]) < sgn * np.asarray(w[tw])
            if np.any(bad):
                sh.violation("rel-window", case, {"peak": q, "window": tw,
                                                  "total": w["total"], "part": w[tw]}, tags)
        if not has_pos and w.get("primary") is not None:
            sh.check_equal("rel-window-nopad", _nz(w["total"]), _nz(w["primary"]), case,
                           tags)

    # pvelo = w reldisp, pacce = w^2 reldisp (histories)
    if not (ic == "steady" and (freq == 0).any()):
        hs = {}
        for st in ("reldisp", "pvelo", "pacce"):
            o = call("rel-pseudo", getresp=True, stype=st, peak="abs")
            hs[st] = None if o is None else o
        if all(v is not None for v in hs.values()):
            w = 2 * np.pi * freq
            d = hs["reldisp"][1]["hist"]
            T = d.shape[0] / hs["reldisp"][1]["sr"]
            eq = Q if c["eqsine"] else 1.0
            for st, mul in (("pvelo", w), ("pacce", w * w)):
                want = d * mul
                sc = (np.abs(want).max(axis=0)
                      + xmax[:, None] * input_gain(st, freq, T)[None, :] / eq)
                tol = (1e-12 + 2 * gr[None, :]) * sc
                sh.check_close("rel-" + st, hs[st][1]["hist"], want, tol, case, tags)
                sd = np.asarray(hs["reldisp"][0]).reshape(freq.size, -1)
                sh.check_close("rel-%s-sh" % st,
                               np.asarray(hs[st][0]).reshape(freq.size, -1),
                               sd * mul[:, None], tol.T, case, tags)

    # eqsine = srs / Q
    o = call("rel-eqsine", getresp=True, eqsine=not c["eqsine"])
    if o is not None and o[1]["hist"].shape == hist.shape:
        he, se = (hist, shv) if c["eqsine"] else (o[1]["hist"], o[0])
        hn, sn = (o[1]["hist"], o[0]) if c["eqsine"] else (hist, shv)
        big = np.abs(hn).max(axis=0)
        sh.check_close("rel-eqsine-hist", he * Q, hn, 4 * EPS * big + 1e-300, case, tags)
        bigs = big.T.reshape(shape)
        sh.check_close("rel-eqsine-sh", np.asarray(se) * Q, np.asarray(sn),
                       (1e-13 if peak in ("rms", "callable") else 4 * EPS) * bigs * 2
                       + 1e-150, case, tags)
        o3 = call("rel-eqsine-noresp", eqsine=not c["eqsine"])
        if o3 is not None:
            sh.check_equal("rel-eqsine-noresp", _nz(o3), _nz(o[0]), case, tags)
    elif o is not None:
        sh.violation("rel-eqsine-hist", case, {"shape": o[1]["hist"].shape,
                                               "want": hist.shape}, tags)

    # packaging (1-D vs one 2-D column) and column permutation
    exact = not resampled and ic != "mshift" and peak not in ("rms", "callable")
    big = np.abs(hist).max(axis=0).T                                  # (nf, ncol)
    sh2 = np.asarray(shv).reshape(freq.size, -1)
    o = call("rel-packaging", sig_=sig[:, 0].copy())
    if o is not None:
        o = np.asarray(o)
        if o.shape != (freq.size,):
            sh.violation("rel-packaging", case, {"shape": o.shape}, tags)
        elif exact:
            sh.check_equal("rel-packaging", _nz(o), _nz(sh2[:, 0]), case, tags)
        else:
            # a different summation order of the mean / of rms changes input samples in
            # their last bit; the recursion carries that on like its own round-off
            sh.check_close("rel-packaging~", o, sh2[:, 0],
                           ((1e-9 if resampled else 1e-12) + 2 * rn) * np.maximum(
                               big[:, 0], scale[0]), case, tags)
    if sig.shape[1] > 1:
        perm = np.roll(np.arange(sig.shape[1]), 1)
        perm[[0, -1]] = perm[[-1, 0]]
        o = call("rel-permutation", sig_=np.ascontiguousarray(sig[:, perm]))
        if o is not None:
            o = np.asarray(o)
            if exact:
                sh.check_equal("rel-permutation", _nz(o), _nz(sh2[:, perm]), case, tags)
            else:
                sh.check_close("rel-permutation~", o, sh2[:, perm],
                               ((1e-9 if resampled else 1e-12) + 2 * rn[:, None])
                               * np.maximum(big, scale.T)[:, perm], case, tags)

    # linearity: scaling by -3.7
    alpha = -3.7
    o = call("rel-linearity", sig_=(sig[:, 0] if c["oned"] else sig) * alpha,
             getresp=True)
    if o is not None and o[1]["hist"].shape == hist.shape:
        tol = (1e-12 + 2 * gr[None, :]) * scale * abs(alpha)
        sh.check_close("rel-linearity", o[1]["hist"], alpha * hist, tol, case, tags)
        flip = {"abs": "abs", "pos": "neg", "neg": "pos", "rms": "rms",
                "callable": "callable"}
        if peak in flip:
            if flip[peak] == peak:
                other = shv
            else:
                other = call("rel-linearity-flip", peak=flip[peak])
            if other is not None:
                sh.check_close("rel-linearity-sh", np.asarray(o[0]),
                               abs(alpha) * np.asarray(other),
                               tol.T.reshape(shape), case, tags)
    elif o is not None:
        sh.violation("rel-linearity", case, {"shape": o[1]["hist"].shape,
                                             "want": hist.shape}, tags)


# ------------------------------------------------------------------------------------
# srs_frf and vrs
# ------------------------------------------------------------------------------------

def _sep_grid(r, n, lo, hi):
    """n increasing frequencies in [lo, hi] with gaps >= 1e-3 (no near-duplicates)."""
    import numpy as np
    f = np.sort(np.exp(r.uniform(np.log(lo), np.log(hi), n)))
    f = np.round(f, 3)
    f = np.unique(f)
    return f[f > 0]


def _H(np, fgrid, fn, Q):
    """(1 + 2 zeta p j) / (1 - p^2 + 2 zeta p j), p = f / fn; 0 for fn = 0."""
    zeta = 1 / (2 * Q)
    out = np.zeros((fgrid.size, fn.size), dtype=complex)
    for i, f0 in enumerate(fn):
        if f0 > 0:
            p = fgrid / f0
            out[:, i] = (1 + 2j * zeta * p) / (1 - p * p + 2j * zeta * p)
    return out


def run_frf_case(sh, srs, g):
    import numpy as np
    r = core.rng(sh.seed, "C03", "frf", g)
    nfrf = int(r.integers(1, 4))
    nfrq = 1 if r.random() < 0.08 else int(r.integers(2, 40))
    frf_frq = _sep_grid(r, nfrq, 1.0, 500.0)
    nfrq = frf_frq.size
    mag = 10 ** r.uniform(-2, 2, (nfrq, nfrf))
    cplx = bool(r.random() < 0.5)
    frf = mag * np.exp(1j * r.uniform(0, 2 * np.pi, mag.shape)) if cplx else mag
    oned = bool(nfrf == 1 and r.random() < 0.5)
    Q = QS[int(r.integers(0, len(QS)))]
    mode = ("given", "none", "qonly", "qonly-none")[int(r.integers(0, 4))]
    if nfrq == 1 and mode == "qonly":
        mode = "given"      # a single line between oscillator frequencies has no
        #                     documented meaning under scale_by_Q_only
    getresp = bool(mode in ("given", "none") and r.random() < 0.7)
    p_peak = Q * math.sqrt(math.sqrt(1 + 2 / Q ** 2) - 1)
    if mode in ("given", "qonly"):
        srs_frq = _sep_grid(r, int(r.integers(1, 12)), 0.5, 800.0) + 0.00037
        if r.random() < 0.3:
            srs_frq = np.r_[0.0, srs_frq]
        if nfrq > 1 and r.random() < 0.3:      # an oscillator exactly on an FRF line
            srs_frq = np.unique(np.r_[srs_frq, frf_frq[nfrq // 2]])
        arg = srs_frq
    else:
        srs_frq = frf_frq if mode == "qonly-none" else frf_frq / p_peak
        arg = None
    if g % 6 == 5 and nfrq >= 2:
        # (a single FRF line is left on the ordinary scale: where it lands on the merged
        # frequency grid depends on srs_frf's absolute 1e-5 Hz de-duplication, an
        # implementation detail the closed form does not define)
        # the same request on a very slow time scale (oscillators of 0.0003 .. 0.3 Hz):
        # the closed form has no absolute frequency in it
        fscale = float(10.0 ** -r.uniform(2.3, 3.5))
        frf_frq = frf_frq * fscale
        if arg is not None:
            arg = srs_frq = srs_frq * fscale
        else:       # the documented default, formed from the frequencies as they are now
            srs_frq = frf_frq if mode == "qonly-none" else frf_frq / p_peak
        sh.count("cell:frf-slow-time-scale")
    case = {"seed": sh.seed, "frf_g": g, "mode": mode, "Q": Q, "nfrf": nfrf,
            "frf_frq": frf_frq, "srs_frq": arg, "complex": cplx, "getresp": getresp}
    tags = {"func": "srs_frf", "mode": mode, "Q": Q, "single_line": nfrq == 1}
    sh.case({"frf": g, "seed": sh.seed}, nontrivial=True, sample=case)
    sh.count("frf:" + mode)
    if nfrq == 1:
        sh.count("frf:single-line")
    try:
        out = srs.srs_frf(frf[:, 0] if oned else frf, frf_frq, arg, Q, getresp=getresp,
                          scale_by_Q_only=mode.startswith("qonly"))
    except Exception as e:
        sh.violation("exception:srs_frf", case, {"exc": repr(e)[:400]}, tags)
        return
    out = out if isinstance(out, tuple) else (out,)
    shk = np.asarray(out[0])
    want_len = 1 + (arg is None) + getresp
    sh.check_equal("frf-return-arity", len(out), want_len, case, tags)
    if len(out) != want_len:
        return
    if arg is None:
        sh.check_close("frf-srs-frq", out[1], srs_frq, 4 * EPS * srs_frq, case, tags)

    def model(d):
        """closed form with every real input multiplied by 1 + d"""
        ff = frf_frq * (1 + d[0])
        sf = srs_frq * (1 + d[1])
        q = Q * (1 + d[2])
        m = np.abs(frf)
        if mode.startswith("qonly"):
            if nfrq == 1:
                val = np.where(np.abs(sf - ff[0]) <= 1e-9 * ff[0], 1.0, 0.0)[:, None] * m
            else:
                val = np.column_stack([np.interp(sf, ff, m[:, j], left=0, right=0)
                                       for j in range(nfrf)])
            return None, None, q * val
        pp = q * math.sqrt(math.sqrt(1 + 2 / q ** 2) - 1)
        both = np.r_[ff, pp * sf]
        orig = np.r_[frf_frq, p_peak * srs_frq]
        o = np.argsort(orig, kind="stable")
        keep = np.ones(o.size, bool)
        keep[1:] = np.diff(orig[o]) > 1e-5
        grid = both[o][keep]
        if nfrq == 1:
            F = np.zeros((grid.size, nfrf))
            i = int(np.argmin(np.abs(orig[o][keep] - frf_frq[0])))
            F[i] = m[0]
        else:
            F = np.column_stack([np.interp(grid, ff, m[:, j], left=0, right=0)
                                 for j in range(nfrf)])
        Hm = _H(np, grid, sf, q)                              # (ngrid, nsrs)
        full = F[:, :, None] * Hm[:, None, :]                 # (ngrid, nfrf, nsrs)
        return grid, full, np.abs(full).max(axis=0).T

    z3 = np.zeros(3)
    grid, full, want = model(z3)
    prng = core.rng(sh.seed, "C03", "frfpert", g)
    spread = np.zeros_like(want)
    fspread = None if full is None else np.zeros(full.shape)
    for _ in range(3):
        _, f2, w2 = model(prng.uniform(-1e-13, 1e-13, 3))
        spread = np.maximum(spread, np.abs(w2 - want))
        if full is not None:
            fspread = np.maximum(fspread, np.abs(f2 - full))
    # pyYeti forms fs*W^2/(k - W^2 + jbW) + fs: the terms added have the size of the
    # input FRF, whatever the size of the result
    sc = np.abs(want) + np.abs(frf).max(axis=0)[None, :]
    tol = 200 * (spread / 1e-13) * EPS + 1e-13 * sc
    sh.check_close("frf-sh", shk, want, tol, case, tags)
    if getresp and full is not None:
        resp = out[-1]
        sh.check_close("frf-grid", resp["freq"], grid, 4 * EPS * grid, case, tags)
        fr = np.asarray(resp["frfs"])
        if fr.shape == full.shape:
            fsc = np.abs(full).max(axis=0)[None] + np.abs(frf).max(axis=0)[None, :, None]
            ftol = 200 * (fspread / 1e-13) * EPS + 1e-13 * fsc
            sh.check_close("frf-resp", np.abs(fr - full), 0 * ftol, ftol, case, tags)
        else:
            sh.violation("frf-resp", case, {"shape": fr.shape, "want": full.shape}, tags)
        sh.check_equal("frf-resp-srs-frq", np.asarray(resp["srs_frq"], float),
                       np.asarray(out[1] if arg is None else arg, float), case, tags)


def run_vrs_case(sh, srs, g):
    import numpy as np
    r = core.rng(sh.seed, "C03", "vrs", g)
    npsd = int(r.integers(1, 4))
    nspec = int(r.integers(2, 9))
    Freq = _sep_grid(r, nspec, 5.0, 3000.0)
    if Freq.size < 2:
        Freq = np.array([20.0, 2000.0])
    P = 10 ** r.uniform(-4, 0, (Freq.size, npsd))
    linear = bool(r.random() < 0.5)
    Q = QS[int(r.integers(0, len(QS)))]
    lo, hi = Freq[0] * r.uniform(0.5, 1.2), Freq[-1] * r.uniform(0.8, 1.5)
    if hi < 2 * lo:
        hi = 4 * lo
    if r.random() < 0.5:
        freq = np.arange(lo, hi, (hi - lo) / int(r.integers(20, 400)))
    else:
        freq = np.exp(np.linspace(np.log(lo), np.log(hi), int(r.integers(20, 400))))
    form = ("array", "tuple2d", "tuple1d")[int(r.integers(0, 3))]
    if form == "tuple1d":
        npsd, P = 1, P[:, :1]
    Fn = None
    if r.random() < 0.5:
        Fn = np.sort(r.uniform(lo, hi, int(r.integers(1, 8))))
        if r.random() < 0.5:
            Fn = np.r_[Fn, freq[freq.size // 3]]      # one on the grid, unsorted
    getresp = bool(r.random() < 0.5)
    getmiles = bool(getresp or r.random() < 0.6)
    spec = (np.column_stack([Freq, P]) if form == "array"
            else (Freq, P if form == "tuple2d" else P[:, 0]))
    case = {"seed": sh.seed, "vrs_g": g, "Q": Q, "linear": linear, "form": form,
            "Fn": Fn, "nfreq": freq.size, "getresp": getresp, "getmiles": getmiles,
            "Freq": Freq}
    tags = {"func": "vrs", "linear": linear, "Q": Q, "Fn_given": Fn is not None,
            "form": form}
    sh.case({"vrs": g, "seed": sh.seed}, nontrivial=True, sample=case)
    sh.count("vrs:%s/%s/%s" % ("linear" if linear else "log",
                               "Fn" if Fn is not None else "noFn", form))
    try:
        out = srs.vrs(spec, freq, Q, linear, Fn=Fn, getmiles=getmiles and not getresp,
                      getresp=getresp)
    except Exception as e:
        sh.violation("exception:vrs", case, {"exc": repr(e)[:400]}, tags)
        return
    out = out if isinstance(out, tuple) else (out,)
    want_len = 3 if getresp else 2 if getmiles else 1
    sh.check_equal("vrs-return-arity", len(out), want_len, case, tags)
    if len(out) != want_len:
        return

    def model(d):
        Fq = Freq * (1 + d[0])
        fr = freq * (1 + d[1])
        q = Q * (1 + d[2])
        fn = fr if Fn is None else Fn * (1 + d[1])
        if Fn is not None:
            fr = np.unique(np.r_[fr, fn])
        inside = (fr >= Fq[0]) & (fr <= Fq[-1])
        full = np.zeros((fr.size, npsd))
        for j in range(npsd):
            if linear:
                full[:, j] = np.interp(fr, Fq, P[:, j], left=0, right=0)
            else:
                v = np.exp(np.interp(np.log(fr), np.log(Fq), np.log(P[:, j])))
                full[:, j] = np.where(inside, v, 0.0)
        df = np.empty(fr.size)
        df[1:-1] = (fr[2:] - fr[:-2]) / 2
        df[0] = fr[1] - fr[0]
        df[-1] = fr[-1] - fr[-2]
        zeta = 1 / (2 * q)
        p = fr[None, :] / fn[:, None]                         # (nFn, nfreq)
        H2 = (1 + (2 * zeta * p) ** 2) / ((1 - p * p) ** 2 + (2 * zeta * p) ** 2)
        rp = H2[:, None, :] * full.T[None, :, :]              # (nFn, npsd, nfreq)
        z = np.sqrt((rp * df).sum(axis=2))
        pf = np.column_stack([np.interp(fn, fr, full[:, j], left=0, right=0)
                              for j in range(npsd)])
        miles = np.sqrt(np.pi / 2 * fn[:, None] * q * pf)
        return fr, rp, z, miles

    z3 = np.zeros(3)
    fr, rp, z, miles = model(z3)
    prng = core.rng(sh.seed, "C03", "vrspert", g)
    sz, sm, sp = 0 * z, 0 * miles, 0 * rp
    for _ in range(3):
        d = prng.uniform(-1e-13, 1e-13, 3)
        d[1] = 0.0 if Fn is not None else d[1]     # keep the merged grid's membership
        _, rp2, z2, m2 = model(d)
        sz, sm, sp = (np.maximum(sz, np.abs(z2 - z)), np.maximum(sm, np.abs(m2 - miles)),
                      np.maximum(sp, np.abs(rp2 - rp)))

    def tl(s, ref):
        return 200 * (s / 1e-13) * EPS + 1e-13 * (np.abs(ref) + np.abs(ref).max() * 1e-6)

    shp = (lambda a: a[:, 0]) if form == "tuple1d" else (lambda a: a)
    sh.check_close("vrs-z", out[0], shp(z), shp(tl(sz, z)), case, tags)
    if want_len >= 2:
        sh.check_close("vrs-miles", out[1], shp(miles), shp(tl(sm, miles)), case, tags)
        if np.any(miles > 0):
            sh.count("vrs-miles:nonzero")
    if getresp:
        sh.check_close("vrs-resp-f", out[2]["f"], fr, 4 * EPS * fr, case, tags)
        got = np.asarray(out[2]["psd"])
        if got.shape == rp.shape:
            sh.check_close("vrs-resp-psd", got, rp, tl(sp, rp), case, tags)
        else:
            sh.violation("vrs-resp-psd", case, {"shape": got.shape, "want": rp.shape},
                         tags)


# ------------------------------------------------------------------------------------

def run_shard(sh, params):
    import numpy as np
    from vf.oracles import sdof
    from pyyeti import srs
    chk = sdof.selfcheck()
    lim = {"vanloan": 1e-13, "step": 1e-12, "ramp": 1e-11, "rigid": 1e-13, "mp-rec": 1e-12}
    for k, v in chk.items():
        if not v <= lim[k]:
            raise RuntimeError(f"sdof oracle selfcheck failed: {chk}")
    sh.count("oracle-selfcheck")
    rec = _Rec(srs)
    s, ns = params["slice"], params["nslice"]
    only = params.get("only")
    for g in range(s, NCASE[sh.tier], ns):
        if only is not None and g not in only:
            continue
        c = gen_case(sh.seed, g)
        try:
            run_srs_case(sh, srs, rec, c)
            if g % 5 == 2:
                # call history: the same request again with another Q only (same response
                # type, sample rate and frequencies, same process) -- anything remembered
                # from the first call must not leak into the second
                q2 = [q for q in QS if q != c["Q"]][g % (len(QS) - 1)]
                run_srs_case(sh, srs, rec, {**c, "Q": q2})
                sh.count("history-same-request-other-Q")
        except Exception as e:      # harness-side failure on one case: report, go on
            import traceback
            sh.violation("harness-exception", {"seed": sh.seed, "g": g},
                         {"exc": traceback.format_exc()[-1500:]}, {})
    for i in range(NAUX[sh.tier]):
        g = s + ns * i
        for fn_ in (run_frf_case, run_vrs_case):
            try:
                fn_(sh, srs, g)
            except Exception:
                import traceback
                sh.violation("harness-exception", {"seed": sh.seed, "aux": g,
                                                   "which": fn_.__name__},
                             {"exc": traceback.format_exc()[-1500:]}, {})


MANDATORY_MON = [
    "hist-exact", "t-vector", "sr-returned", "sh-peak", "sh-noresp", "roll-call-count",
    "roll-input", "roll-args", "roll-record-length", "roll-stride-samples",
    "roll-linear-interpolant", "roll-prefilter", "rel-abs-posneg", "rel-window",
    "rel-window-nopad", "rel-pvelo", "rel-pacce", "rel-pvelo-sh", "rel-pacce-sh",
    "rel-eqsine-hist", "rel-eqsine-sh", "rel-eqsine-noresp", "rel-packaging",
    "rel-packaging~", "rel-permutation", "rel-permutation~", "rel-linearity",
    "rel-linearity-sh", "frf-sh", "frf-resp", "frf-grid", "frf-srs-frq", "vrs-z",
    "vrs-miles", "vrs-resp-psd", "vrs-resp-f"]
MANDATORY_CELLS = (
    ["n:1", "n:2", "n:3", "n:50-400", "fn0:present", "fn0:only", "sr:None",
     "ratio:<10", "ratio:<100", "ratio:>=100", "ratio:>1000",
     "roll:linear/f2", "roll:linear/f>=3", "roll:lanczos/f2", "roll:lanczos/f>=3",
     "roll:fft/f2", "roll:fft/f>=3", "roll:prefilter", "roll:not-needed",
     "hist-steady-nonzero-start", "history-same-request-other-Q",
     "sh-peak:two-signed", "hist-window:primary", "hist-window:residual",
     "hist-window:total", "frf:given", "frf:none", "frf:qonly", "frf:qonly-none",
     "frf:single-line", "vrs-miles:nonzero", "oracle-selfcheck"]
    + ["Q:%g" % q for q in QS]
    + ["signal:" + f for f in ("step", "spike", "burst-res", "burst-off", "noise",
                               "short")])


def finalize(agg, tier):
    c = agg["counters"]
    why = []
    missing = [f"{a}/{b}/{t}/{p}" for a, b, t, p in CELLS
               if not c.get(f"cell:{a}/{b}/{t}/{p}")]
    if missing:
        why.append(f"{len(missing)} of {len(CELLS)} option cells never executed, "
                   f"e.g. {missing[:3]}")
    for k in MANDATORY_MON:
        if not c.get("mon:" + k):
            why.append(f"monitor {k} never evaluated")
    for k in MANDATORY_CELLS:
        if not c.get(k):
            why.append(f"coverage cell {k} empty")
    if agg["refused"] > 0.02 * max(1, agg["evaluations"]):
        why.append(f"oracle refused {agg['refused']} cases as ill-conditioned")
    return why


def evidence_extra(agg, tier):
    c = agg["counters"]
    cells = [c.get(f"cell:{a}/{b}/{t}/{p}", 0) for a, b, t, p in CELLS]
    return {"option_cells_total": len(CELLS),
            "option_cells_hit": int(sum(1 for v in cells if v)),
            "option_cell_min_hits": int(min(cells)) if cells else 0,
            "linear_rolloff_factor_ge3_cases": c.get("roll:linear/f>=3", 0),
            "coverage_cells": {k: v for k, v in sorted(c.items())
                               if not k.startswith(("mon:", "violation:", "cell:"))}}
