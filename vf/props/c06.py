"""C06 -- Craig-Bampton checks (cb.cbcheck and its parts), cb.cbtf, cb.cgmass,
cb.cbconvert, cb.cbreorder against an independently generated physical model
(vf/oracles/cb_model.py) and own dense algebra.
"""
from vf import core

ID = "C06"
LEVEL = "exploration"
RULE = ("model cases = random free 3-D structures (6-25 nodes, rigid-invariant 6x6 joint "
        "springs, offset lumped masses with inertia) reduced by the oracle's own "
        "Craig-Bampton code, 1-4 boundary grids in R/C/S output systems, 0..all modes, "
        "b-set first/last/scattered in the matrices, grid order sorted/reversed/swapped/"
        "cyclic, bref = one grid or 6 DOF spread over grids, uref id/vector, conv "
        "None/m2e/e2m/numeric, reorder on/off; each model also as grounded (scalar "
        "spring to ground), as inconsistent geometry (one uset grid moved 1 %) and as "
        "degenerate (massless grid / null columns) variant.  cbtf cases = random "
        "CB-form m,b,k (real/complex, diagonal/full qq) x {no q, q} x bset "
        "{sorted, unsorted, reversed} x a {vector, matrix} x frequencies with/without 0. "
        "cgmass cases = random rigid 6x6 masses (and the documented general form with "
        "mx != my != mz).  convert cases = random matrices / small CB models through "
        "cbconvert, cbreorder, uset_convert.  distinct = distinct seed-derived "
        "descriptors; non-trivial = the case reached its deciding monitors")
ASSUMPTIONS = [
    "physical truth = vf/oracles/cb_model.py (K RB = 0, RB^T M RB = parallel-axis mass and "
    "CB spectrum = physical spectrum are re-checked at the start of every shard)",
    "tolerances for rbs/rbe/K*rb come from the spread of the oracle's own stiffness- and "
    "eigen-based rigid-body modes under 1e-13 relative perturbations of the physical M, K",
    "generated models have their first elastic free-free eigenvalue >= (2 pi 1.6 Hz)^2, "
    "i.e. away from cbcheck's hard-coded eigsh shift sigma=1.0",
    "the uset handed to cbcheck lists the boundary grids in ascending matrix-DOF order "
    "(the order of a Nastran USET table)",
]
MIN_NONTRIVIAL = {"quick": 2000, "thorough": 40000}
TIMEOUT = {"quick": 1500, "thorough": 7200}

EPS = 2.220446049250313e-16


# ======================================================================================
# shards
# ======================================================================================

def shards(tier, seed):
    out = []
    if tier == "quick":
        nms, per = 8, 24
        aux = [("cbtf", 2, 400), ("cgmass", 1, 2000), ("conv", 1, 500)]
    else:
        nms, per = 24, 125
        aux = [("cbtf", 4, 2500), ("cgmass", 2, 40000), ("conv", 2, 3000)]
    for s in range(nms):
        out.append({"kind": "model", "slice": s, "first": s * per, "count": per})
    for kind, ns, cnt in aux:
        for s in range(ns):
            out.append({"kind": kind, "slice": s, "count": cnt})
    return out


def run_shard(sh, params):
    from vf.oracles import cb_model
    ok, why = cb_model.selfcheck()
    if not ok:
        raise RuntimeError("cb_model oracle fails its self-check: " + why)
    sh.count("oracle-selfcheck")
    kind = params["kind"]
    if kind == "model":
        from vf.props import _c06_model as c06_model
        c06_model.run(sh, params)
    elif kind == "cbtf":
        from vf.props import _c06_aux as c06_aux
        c06_aux.run_cbtf(sh, params)
    elif kind == "cgmass":
        from vf.props import _c06_aux as c06_aux
        c06_aux.run_cgmass(sh, params)
    elif kind == "conv":
        from vf.props import _c06_aux as c06_aux
        c06_aux.run_conv(sh, params)
    else:
        raise ValueError(kind)


# ======================================================================================
# verdict plumbing
# ======================================================================================

MANDATORY_MON = [
    # cbcheck on valid models
    "rbg-vs-truth", "rbs-vs-truth", "rbe-vs-truth", "subspace-rbs-rbg",
    "subspace-rbe-rbg", "mass6-rbs", "mass6-rbg", "mass6-rbe", "cgmass-of-rbs",
    "cgmass-of-rbg", "cgmass-of-rbe", "Krb-rbs", "Krb-rbg", "Krb-rbe",
    "effmass-vs-truth", "effmass-bookkeeping", "effmass-percent", "cb-frq",
    "out-m", "out-k", "out-uset", "out-bset", "drm-rb-recovery",
    "cbcoordchk-coords", "cbcoordchk-rbmodes", "rbdispchk-coords", "rbmultchk-product", "rbmultchk-first-last",
    # invalid variants
    "grounded-Krb-moves", "grounded-monotone", "moved-Krbg-moves", "moved-angle",
    "moved-rbg-follows-uset", "deg-rbs-vs-truth", "deg-rbe-vs-truth", "deg-mass6-rbg",
    "deg-mass6-rbe", "deg-Krb-rbe", "deg-null-rows-zero", "cbcheck-runs",
    # cbtf
    "cbtf-eom-residual", "cbtf-vs-direct", "cbtf-kinematics", "cbtf-enforced-a",
    "cbtf-save-reuse", "cbtf-metamorphic-convert-reorder",
    # cgmass
    "cgmass-d", "cgmass-mcg", "cgmass-I", "cgmass-princ", "cgmass-gyr",
    # conversion / reordering
    "cbconvert-elementwise", "cbconvert-inverse", "cbconvert-frequencies",
    "cbconvert-massprops", "cbconvert-drm", "cbreorder-PMPt", "cbreorder-inverse",
    "cbreorder-drm", "cbreorder-last-roundtrip", "uset-convert", "convert-errors",
]

MANDATORY_CELLS = (
    ["nbg:%d" % i for i in (1, 2, 3, 4)]
    + ["cord:%d" % i for i in (1, 2, 3)]
    + ["nq:all", "nq:few", "nq:some"]
    + ["layout:first", "layout:last", "layout:scattered"]
    + ["order:sorted", "order:reversed", "order:swap"]
    + ["bref:grid", "bref:spread", "uref:id", "uref:vec"]
    + ["conv:none", "conv:m2e", "conv:e2m", "conv:numeric"]
    + ["reorder:True", "reorder:False", "rbnorm:True", "rbnorm:False"]
    + ["variant:valid", "variant:grounded", "variant:moved", "variant:massless",
       "variant:null"]
    + ["cbtf:%s-%s-%s-%s" % (q, o, a, t)
       for q in ("noq", "q") for o in ("sorted", "unsorted", "reversed")
       for a in ("vec", "mat") for t in ("real", "complex")]
    + ["cbtf:f0", "cbtf:qq-diag", "cbtf:qq-full", "cgmass:rigid", "cgmass:general"]
)


def finalize(agg, tier):
    why = []
    c = agg["counters"]
    for k in MANDATORY_MON:
        if not c.get("mon:" + k):
            why.append(f"monitor {k} never evaluated")
    for k in MANDATORY_CELLS:
        if not c.get("cell:" + k):
            why.append(f"coverage cell {k} empty")
    if agg["refused"] > 0.1 * max(1, agg["evaluations"]):
        why.append(f"oracle refused {agg['refused']} cases as ill-conditioned")
    return why


def evidence_extra(agg, tier):
    c = agg["counters"]
    return {"cbcheck_calls": c.get("cbcheck-calls", 0),
            "cbcheck_reports_captured_chars": c.get("report-chars", 0),
            "known_defect_cases_skipped": c.get("skipped-known-defect", 0)}
