"""C02 -- frequency-domain solution (SolveUnc.fsolve / FreqDirect.fsolve / solvepsd).

Generated modal-space block systems [rb|el|rf] in every order and generated physical
spring-mass-damper systems for ``pre_eig`` are solved by the real pyYeti solvers under
every ``incrb`` x ``rf_disp_only`` option set and judged against
``vf.oracles.freq_direct`` (dense solve on the unpartitioned matrices + the documented
rb/rf rules), the dynamic-stiffness residual, v = iWd / a = -W^2 d, exact zeros where the
options exclude a term, SolveUnc == FreqDirect, and an independent solvepsd model.
"""
import itertools
import warnings

from vf import core

ID = "C02"
LEVEL = "exploration"
RULE = ("systems = seeded modal-space block systems [rb|el|rf] (real/complex x "
        "diagonal/coupled, all 6 block orders + interleaved permutations, m as "
        "None/1-D/2-D, rb/rf as index/bool/None) and physical spring-mass-damper "
        "networks for pre_eig (free/grounded/two-component, proportional and "
        "non-proportional, real/complex damping, Hermitian and complex-symmetric "
        "stiffness); frequency vectors 1e-3..1e4 Hz with 0 Hz, exact resonances, "
        "duplicates, unsorted; complex / rank-1 / real / sparse / single-column forces; "
        "each system x solver x 8 incrb subsets x rf_disp_only.  distinct = distinct "
        "(family, index, solver, option set) descriptors; non-trivial = force not "
        "identically zero and at least one frequency column accepted by the "
        "conditioning test")
ASSUMPTIONS = [
    "numpy.linalg.solve / scipy.linalg.eigh are trusted as the reference linear algebra",
    "the documented domain: rb, el and rf blocks mutually uncoupled in m, b, k; rb rows "
    "have zero k and b (generated exactly so); off-diagonal terms are either exactly "
    "zero or > 1e-6 of the largest diagonal (ytools.isdiag's 1e-12 band is avoided)",
    "columns whose first-order condition number (measured on the oracle by 1e-13 input "
    "perturbations) exceeds 1e6 are refused, not judged (undamped resonance hit exactly)",
    "SolveUnc's complex-mode route is additionally allowed the round-off amplification "
    "of a textbook state-space modal superposition measured the same way on the oracle",
    "SolveUnc objects that report pc.eig_success == False (pyYeti warns that the "
    "solution is inaccurate) are counted and not judged",
]
MIN_NONTRIVIAL = {"quick": 4000, "thorough": 100000}
TIMEOUT = {"quick": 1500, "thorough": 10800}
AMBIENT = {"tests": ['test_ode.py', 'test_frclim.py'], "monitors": ['fsolve'], "quick": False}

INCRB = ["", "d", "v", "a", "dv", "da", "va", "dva"]
KINDS = ["diag-real", "diag-complex", "coup-real", "coup-complex"]
BLOCK_ORDERS = ["".join(p) for p in itertools.permutations("bef")]   # b=rb e=el f=rf
AMP_LIMIT = 1e6            # first-order condition number above which a column is refused
MODAL_FACTOR = 30.0        # x oracles.freq_direct.modal_route_bound (measured worst: 1.5)
CONDU_LIMIT = 1e8          # cond of the state-space eigenvectors beyond which SolveUnc's
                           # coupled route is not judged (pyYeti itself warns at 1/eps)
SU_RELTOL_LIMIT = 1e-6     # ... and columns where that model allows more than this
NSLICE = {"quick": 16, "thorough": 16}
NBLOCK = {"quick": 800, "thorough": 9600}       # block systems per run
NPHYS = {"quick": 400, "thorough": 4800}        # physical (pre_eig) systems per run


def shards(tier, seed):
    ns = NSLICE[tier]
    return [{"slice": s, "nslice": ns} for s in range(ns)]


# ======================================================================================
# generators
# ======================================================================================

def _logu(r, lo, hi, size=None):
    import numpy as np
    return np.exp(r.uniform(np.log(lo), np.log(hi), size))


def _spd_factor(r, n, lo=0.5, hi=3.0):
    """Well-conditioned random square factor P (cond <= hi/lo)."""
    import numpy as np
    if n == 0:
        return np.zeros((0, 0))
    q1, _ = np.linalg.qr(r.standard_normal((n, n)))
    q2, _ = np.linalg.qr(r.standard_normal((n, n)))
    return q1 @ np.diag(r.uniform(lo, hi, n)) @ q2.T


def _offdiag_ok(np, X):
    X = np.asarray(X)
    if X.ndim != 2 or X.shape[0] < 2:
        return True
    dmax = np.abs(np.diag(X)).max()
    off = np.abs(X - np.diag(np.diag(X)))
    nzo = off[off > 0]
    return nzo.size == 0 or nzo.max() > 1e-6 * dmax


def _is_diag(np, X):
    X = np.asarray(X)
    return X.ndim == 1 or not np.any(X - np.diag(np.diag(X)))


def gen_block(seed, i):
    """Modal-space block system number i.  Everything derives from (seed, i)."""
    import numpy as np
    for attempt in range(20):
        s = _gen_block(np, core.rng(seed, "C02", "block", i, attempt), i)
        if all(_offdiag_ok(np, s[x]) for x in ("Mf", "Bf", "Kf")):
            s["attempt"] = attempt
            return s
    raise RuntimeError("block generator could not avoid the isdiag band")


def _gen_block(np, r, i):
    kind = KINDS[i % 4]
    diag, cplx = kind.startswith("diag"), kind.endswith("complex")
    j = i // 4
    order_id = j % 8
    j //= 8
    pat = j % 6
    if pat in (0, 1):
        nrb, nel, nrf = int(r.integers(1, 6)), int(r.integers(1, 5)), int(r.integers(1, 6))
    elif pat == 2:
        nrb, nel, nrf = int(r.integers(1, 4)), int(r.integers(1, 6)), 0
    elif pat == 3:
        nrb, nel, nrf = 0, int(r.integers(1, 6)), int(r.integers(1, 6))
    elif pat == 4:
        nrb, nel, nrf = 0, int(r.integers(1, 7)), 0
    else:
        nrb, nel, nrf = [(1, 0, 1), (2, 0, 0), (0, 0, 2), (2, 0, 2)][(j // 6) % 4]
    if pat in (0, 1) and order_id >= 6 and nrb == 1:
        nrb = 2        # interleaved layouts should be able to split the rb set
    n = nrb + nel + nrf
    cnt = {"b": nrb, "e": nel, "f": nrf}
    if order_id < 6:
        labels = "".join(c * cnt[c] for c in BLOCK_ORDERS[order_id])
        layout = "contig-" + BLOCK_ORDERS[order_id]
        if nrb >= 2 and n > nrb and r.random() < 0.35:
            # blocks stay in order but one rb DOF is moved away: non-contiguous rb set
            lab = list(labels)
            q = max(p_ for p_, c in enumerate(lab) if c == "b")
            lab.pop(q)
            others = [p_ for p_ in range(len(lab) + 1)
                      if not ((p_ > 0 and lab[p_ - 1] == "b")
                              or (p_ < len(lab) and lab[p_] == "b"))]
            if others:
                lab.insert(others[int(r.integers(len(others)))], "b")
                labels = "".join(lab)
                layout = "split-rb-" + BLOCK_ORDERS[order_id]
    else:
        lab = list("b" * nrb + "e" * nel + "f" * nrf)
        for _ in range(10):
            r.shuffle(lab)
            rbpos = [q for q, c in enumerate(lab) if c == "b"]
            if nrb < 2 or (rbpos[-1] - rbpos[0] + 1) != nrb:
                break
        labels = "".join(lab)
        layout = "interleaved"
    lab = np.array(list(labels))
    rb, el, rf = (np.nonzero(lab == c)[0] for c in "bef")

    # ---- elastic block ------------------------------------------------------------
    coupvar = None if diag else ["b-only", "all", "all", "b-only"][(i // 4) % 4]
    mform_choices = ["none", "1d", "2d"] if (diag or coupvar == "b-only") else ["2d"]
    mform = mform_choices[int(r.integers(len(mform_choices)))]
    fn = _logu(r, 0.05, 3000.0, nel)
    if nel >= 2 and r.random() < 0.25:
        fn[1] = fn[0] * (1 + 1e-3 * r.random())          # close pair
    if (not diag) and coupvar == "all" and nel:
        c = _logu(r, 0.5, 300.0)
        fn = c * _logu(r, 1.0, 30.0, nel)                # K off-diagonals stay visible
    wn = 2 * np.pi * fn
    zset = [0.0, 1e-4, 0.01, 0.05, 0.3, 1.0, 2.0] if diag else [0.0, 1e-3, 0.01, 0.05,
                                                                 0.3, 0.7]
    zeta = np.array([zset[int(r.integers(len(zset)))] for _ in range(nel)])
    if (not diag) and nel and not np.any(zeta):
        zeta[int(r.integers(nel))] = 0.02 if r.random() < 0.8 else 0.0
    mass = np.ones(n) if mform == "none" else _logu(r, 0.1, 100.0, n)
    M = np.diag(mass).astype(complex)
    B = np.zeros((n, n), complex)
    K = np.zeros((n, n), complex)
    if nel:
        me = mass[el]
        if diag or coupvar == "b-only":
            Kel = np.diag(me * wn ** 2).astype(complex)
            Bel = np.diag(2 * zeta * me * wn).astype(complex)
            Mel = np.diag(me).astype(complex)
            if not diag and nel >= 2:
                bd = np.abs(np.diag(Bel).real)
                N = np.sqrt(np.outer(bd, bd)) + 0.05 * max(bd.max(), 1e-3 * (me * wn).max())
                U = r.uniform(0.3, 1.0, (nel, nel)) * r.choice([-1.0, 1.0], (nel, nel))
                U = np.triu(U, 1)
                if (i // 16) % 3 == 1:
                    # one-way damping coupling (a follower / sensor equation): rows with
                    # off-diagonal terms whose columns have none, or the other way round
                    if (i // 48) % 2:
                        U = U.T.copy()
                else:
                    U = U + U.T
                Bel = Bel + 0.3 * N * U
        else:
            P = _spd_factor(r, nel)
            Mel = (P @ P.T).astype(complex)
            Kel = (P @ np.diag(wn ** 2) @ P.T).astype(complex)
            bd = 2 * zeta * wn
            Nn = np.zeros((nel, nel))
            if nel >= 2 and r.random() < 0.7:
                U = r.uniform(-1, 1, (nel, nel))
                U = np.triu(U, 1)
                Nn = 0.3 * (U + U.T) * np.sqrt(np.outer(bd, bd))
            Bel = (P @ (np.diag(bd) + Nn) @ P.T).astype(complex)
        if cplx:
            eta = [0.0, 0.02, 0.1][int(r.integers(3))]
            if diag:
                Kel = Kel * (1 + 1j * max(eta, 0.01) * r.uniform(0.5, 1.0, nel))
                Bel = Bel * (1 + 0.3j * r.uniform(-1, 1, nel))
                if mform != "none":
                    Mel = Mel * (1 + 0.02j * r.uniform(-1, 1, nel))
            else:
                Kel = Kel * (1 + 1j * eta) + 0.02j * np.abs(Kel).max() * \
                    r.uniform(-1, 1, (nel, nel)) * (np.abs(Kel) > 0)
                Bel = Bel + 0.2j * np.abs(Bel) * r.uniform(-1, 1, (nel, nel))
                if coupvar == "all":
                    Mel = Mel + 0.02j * np.abs(Mel) * r.uniform(-1, 1, (nel, nel))
                if not (np.abs(Kel.imag).max() > 0 or np.abs(Bel.imag).max() > 0
                        or np.abs(Mel.imag).max() > 0):
                    Kel = Kel * (1 + 0.03j)
        ix = np.ix_(el, el)
        M[ix], B[ix], K[ix] = Mel, Bel, Kel
    # ---- rigid-body block: mass only ----------------------------------------------------
    if nrb:
        if (not diag) and coupvar == "all" and nrb >= 2:
            P = _spd_factor(r, nrb)
            Mrb = (P @ P.T * _logu(r, 0.1, 50.0)).astype(complex)
        else:
            Mrb = np.diag(mass[rb]).astype(complex)
        if cplx and mform != "none":
            Mrb = Mrb * (1 + 0.02j * r.uniform(-1, 1))
        M[np.ix_(rb, rb)] = Mrb
    # ---- residual-flexibility block: stiffness only matters ------------------------------
    if nrf:
        kmax = np.abs(K).max() if nel else 1e4
        krf = kmax * _logu(r, 3.0, 100.0, nrf)
        if (not diag) and coupvar == "all" and nrf >= 2:
            P = _spd_factor(r, nrf, 0.7, 1.5)
            Krf = (P @ np.diag(krf) @ P.T).astype(complex)
        else:
            Krf = np.diag(krf).astype(complex)
        if cplx:
            Krf = Krf * (1 + 0.05j * r.random())
        K[np.ix_(rf, rf)] = Krf
        B[rf, rf] = r.uniform(0, 1, nrf) * (np.abs(B).max() if nel else 1.0)
    if cplx and not (np.abs(M.imag).max() > 0 or np.abs(B.imag).max() > 0
                     or np.abs(K.imag).max() > 0):
        # nothing complex so far (e.g. rb-only system): make the mass complex
        if mform == "none":
            K = K + 0j
            if nrf:
                K[np.ix_(rf, rf)] *= (1 + 0.05j)
            else:
                B = B + 0j          # stays numerically real; kind is re-derived below
        else:
            M = M * (1 + 0.01j)
    iscplx = bool(np.abs(M.imag).max() > 0 or np.abs(B.imag).max() > 0
                  or np.abs(K.imag).max() > 0)
    if not iscplx:
        M, B, K = M.real.copy(), B.real.copy(), K.real.copy()

    # ---- the form in which the matrices are handed to pyYeti -----------------------------
    def form(X, want):
        if _is_diag(np, X) and want == "1d":
            return np.diag(X).copy()
        return X.copy()
    if mform == "none":
        m_in = None
    elif mform == "1d":
        m_in = form(M, "1d")
    else:
        m_in = M.copy()
    b_in = form(B, ["1d", "2d"][int(r.integers(2))])
    k_in = form(K, ["1d", "2d"][int(r.integers(2))])
    unc = _is_diag(np, M) and _is_diag(np, B) and _is_diag(np, K)

    # ---- rb / rf arguments ----------------------------------------------------------------
    q = int(r.integers(4))
    if nrb == 0:
        rb_in, rbform = ([], "empty-list") if q % 2 else (None, "auto")
    elif q == 0:
        rb_in, rbform = None, "auto"
    elif q == 1:
        msk = np.zeros(n, bool)
        msk[rb] = True
        rb_in, rbform = msk, "bool"
    elif q == 2:
        rb_in, rbform = [int(x) for x in rb], "list"
    else:
        rb_in, rbform = rb.copy(), "index"
    if rbform in ("list", "index") and len(rb) >= 2 and r.random() < 0.5:
        # an index vector is a set: its order must not matter (01de8f2)
        # half of the time keep the ends in place and shuffle the interior: such a vector has
        # first == min, last == max and the right length, and still is not a range
        if len(rb) >= 4 and r.random() < 0.5:
            pp = np.concatenate([[0], 1 + r.permutation(len(rb) - 2), [len(rb) - 1]])
            if np.all(np.diff(pp) == 1):
                pp[1], pp[2] = pp[2], pp[1]
        else:
            pp = r.permutation(len(rb))
        rb_in = [int(rb[j]) for j in pp] if rbform == "list" else rb[pp].copy()
    q = int(r.integers(3))
    if nrf == 0:
        rf_in, rfform = (None, "none") if q else ([], "empty-list")
    elif q == 0:
        msk = np.zeros(n, bool)
        msk[rf] = True
        rf_in, rfform = msk, "bool"
    elif q == 1:
        rf_in, rfform = [int(x) for x in rf], "list"
    else:
        rf_in, rfform = rf.copy(), "index"
    if rfform in ("list", "index") and len(rf) >= 2 and r.random() < 0.5:
        # an index vector is a set: an unsorted one must not be mistaken for a range
        # half of the time keep the ends in place and shuffle the interior: such a vector has
        # first == min, last == max and the right length, and still is not a range
        if len(rf) >= 4 and r.random() < 0.5:
            pp = np.concatenate([[0], 1 + r.permutation(len(rf) - 2), [len(rf) - 1]])
            if np.all(np.diff(pp) == 1):
                pp[1], pp[2] = pp[2], pp[1]
        else:
            pp = r.permutation(len(rf))
        rf_in = [int(rf[j]) for j in pp] if rfform == "list" else rf[pp].copy()
    h = [None, 0.01, None][i % 3] if (i // 4) % 2 else [0.002, None, None][i % 3]

    res_hz = []
    if nel:
        res_hz = list(fn)
    return dict(fam="block", i=i, kind=kind, n=n, nrb=nrb, nel=nel, nrf=nrf,
                labels=labels, layout=layout, rb=rb, el=el, rf=rf, Mf=M, Bf=B, Kf=K,
                m_in=m_in, b_in=b_in, k_in=k_in, rb_in=rb_in, rf_in=rf_in, h=h,
                mform=mform, rbform=rbform, rfform=rfform, unc=unc, cplx=iscplx,
                res_hz=res_hz, zeta=zeta, coupvar=coupvar)


def gen_phys(seed, i):
    """Physical spring-mass-damper network number i (for pre_eig)."""
    import numpy as np
    r = core.rng(seed, "C02", "phys", i)
    n = int(r.integers(2, 8))
    topo = ["free", "grounded", "free", "two", "grounded", "free"][i % 6]
    if topo == "two" and n < 4:
        n = 4
    comps = [list(range(n))]
    if topo == "two":
        cut = int(r.integers(2, n - 1))
        comps = [list(range(cut)), list(range(cut, n))]
    pairs = []
    for c in comps:
        pairs += [(c[q], c[q + 1]) for q in range(len(c) - 1)]
        for _ in range(int(r.integers(0, 3))):
            if len(c) >= 3:
                a, b = sorted(r.choice(c, 2, replace=False))
                if (a, b) not in pairs:
                    pairs.append((int(a), int(b)))

    def network(vals, prs, ground=None):
        X = np.zeros((n, n))
        for v, (a, b) in zip(vals, prs):
            X[a, a] += v
            X[b, b] += v
            X[a, b] -= v
            X[b, a] -= v
        for a, v in (ground or {}).items():
            X[a, a] += v
        return X
    kv = _logu(r, 1e3, 1e5, len(pairs))
    gk, gc = {}, {}
    if topo == "grounded":
        for a in r.choice(n, int(r.integers(1, 3)), replace=False):
            gk[int(a)] = float(_logu(r, 1e3, 1e5))
    K = network(kv, pairs, gk)
    nrb = {"free": 1, "grounded": 0, "two": 2}[topo]

    dampvar = ["prop", "network", "network-other", "zero", "network", "prop"][(i // 6) % 6]
    if dampvar == "prop":
        B = K * float(_logu(r, 1e-5, 1e-3))
    elif dampvar == "network":
        B = network(kv * _logu(r, 1e-5, 3e-3, len(pairs)), pairs,
                    {a: v * 1e-4 for a, v in gk.items()})
    elif dampvar == "network-other":
        sub = [p for p in pairs if r.random() < 0.6] or pairs[:1]
        B = network(_logu(r, 0.05, 30.0, len(sub)), sub)
    else:
        B = np.zeros((n, n))
    mform = ["1d", "2d", "full", "none", "2d", "full", "1d"][(i // 3) % 7]
    mass = _logu(r, 0.5, 20.0, n)
    if mform == "none":
        M = np.eye(n)
        m_in = None
    elif mform == "full":
        M = np.diag(mass)
        for (a, b) in pairs:
            c = 0.15 * min(mass[a], mass[b]) * r.random()
            M[a, b] += c
            M[b, a] += c
        m_in = M.copy()
    else:
        M = np.diag(mass)
        m_in = mass.copy() if mform == "1d" else M.copy()

    cvar = ["real", "real", "b-complex", "real", "k-hermitian", "real", "k-csym",
            "m-hermitian"][(i // 2) % 8]
    Kc, Bc, Mc = K, B, M
    if cvar == "b-complex":
        Bc = B * (1 + 0.3j * r.uniform(-1, 1)) + 0j
        if dampvar == "zero":
            Bc = 1j * K * 1e-5
    elif cvar == "k-hermitian":
        S = np.zeros((n, n))
        for (a, b) in pairs:
            s = 0.05 * K[a, b] * r.uniform(-1, 1)
            S[a, b] += s
            S[b, a] -= s
        Kc = K + 1j * S
    elif cvar == "k-csym":
        Kc = K * (1 + 1j * [0.02, 0.1][int(r.integers(2))])
    elif cvar == "m-hermitian":
        if mform == "full":
            S = np.zeros((n, n))
            for (a, b) in pairs:
                s = 0.3 * M[a, b] * r.uniform(-1, 1)
                S[a, b] += s
                S[b, a] -= s
            Mc = M + 1j * S
            m_in = Mc.copy()
        else:
            cvar = "real"
    # rb / rf sets in modal coordinates (ascending eigenvalues)
    q = int(r.integers(3))
    nrf = [0, 1, 2, 0][(i // 4) % 4]
    nrf = min(nrf, n - nrb - 1) if n - nrb - 1 > 0 else 0
    if cvar == "k-csym":
        nrf = 0
    rb = np.arange(nrb)
    rf = np.arange(n - nrf, n)
    if nrb == 0:
        rb_in, rbform = ([], "empty-list") if q else (None, "auto")
    elif cvar == "k-csym":
        rb_in, rbform = None, "auto"
    else:
        rb_in, rbform = [(None, "auto"), (rb.copy(), "index"),
                         (np.arange(n) < nrb, "bool")][q]
    rf_in = None if nrf == 0 else rf.copy()
    b_in = Bc.copy()
    if dampvar == "zero" and cvar != "b-complex" and r.random() < 0.5:
        b_in = np.zeros(n)
    h = [None, 0.005][i % 2]
    return dict(fam="phys", i=i, n=n, topo=topo, dampvar=dampvar, mform=mform,
                cvar=cvar, nrb=nrb, nrf=nrf, nel=n - nrb - nrf, rb=rb, rf=rf,
                Mf=Mc, Bf=Bc, Kf=Kc, m_in=m_in, b_in=b_in, k_in=Kc.copy(),
                rb_in=rb_in, rf_in=rf_in, h=h, rbform=rbform,
                cplx=cvar != "real", kind="phys-" + cvar)


def gen_freq_force(np, r, s, allow_zero=True, psd=False):
    """Frequency vector and force matrix for system s."""
    n = s["n"]
    mode = int(r.integers(10))
    if psd:
        nf = int(r.integers(2, 30))
        freq = np.sort(_logu(r, 1e-2, 2e3, nf))
        freq = freq * (1 + 1e-3 * np.arange(nf))       # strictly increasing
        if allow_zero and r.random() < 0.3:
            freq[0] = 0.0
        return freq, None, "psd"
    if mode == 0:
        nf = 1
    elif mode == 1:
        nf = int(r.integers(2, 4))
    else:
        nf = int(r.integers(5, 41))
    freq = _logu(r, 1e-3, 1e4, nf)
    res = list(s.get("res_hz", []))
    for q, f0 in enumerate(res[:nf // 2]):
        freq[q] = f0                                    # resonance hit exactly
        if q + 1 < nf // 2 and r.random() < 0.3:
            freq[-1 - q] = f0 * (1 + 1e-6)
    zero = allow_zero and nf >= 1 and r.random() < 0.5
    if zero:
        freq[int(r.integers(nf))] = 0.0
    if nf >= 4 and r.random() < 0.2:
        freq[nf - 1] = freq[nf - 2]                    # duplicate
    if nf >= 2 and r.random() < 0.2:
        # two-sided spectra (np.fft.fftfreq ordering): negative frequencies are legal
        neg = r.random(nf) < 0.5
        freq[neg] = -freq[neg]
        s["_negfreq"] = True
    if r.random() < 0.5:
        freq = np.sort(freq)
    fkind = ["complex", "rank1", "real", "sparse", "complex", "rank1"][int(r.integers(6))]
    amp = _logu(r, 1e-2, 1e3)
    if fkind == "complex":
        F = amp * (r.standard_normal((n, nf)) + 1j * r.standard_normal((n, nf)))
    elif fkind == "rank1":
        F = amp * np.outer(r.standard_normal(n),
                           r.standard_normal(nf) + 1j * r.standard_normal(nf))
    elif fkind == "real":
        F = amp * r.standard_normal((n, nf))
    else:
        F = amp * (r.standard_normal((n, nf)) + 1j * r.standard_normal((n, nf)))
        kill = r.random(n) < 0.5
        if kill.all():
            kill[int(r.integers(n))] = False
        F[kill] = 0
    return freq, F, fkind


# ======================================================================================
# reference + tolerances for one (system, force, freq)
# ======================================================================================

class Ref:
    """All-included oracle solution, its perturbation copies and derived tolerances."""

    def __init__(self, s, F, freq, rkey, pre_eig=False, plain=False):
        import numpy as np
        from vf.oracles import freq_direct as O
        self.np, self.O = np, O
        self.s, self.F, self.freq, self.pre_eig = s, F, np.asarray(freq, float), pre_eig
        self.W = 2 * np.pi * self.freq
        self.n, self.nf = s["n"], self.freq.size
        # `plain`: no rb/rf partition at all (reference = unpartitioned dynamic solve)
        self.rb = np.zeros(0, int) if plain else s["rb"]
        self.rf = np.zeros(0, int) if plain else s["rf"]
        self.plain = plain
        isrb = np.zeros(self.n, bool)
        isrb[self.rb] = True
        isrf = np.zeros(self.n, bool)
        isrf[self.rf] = True
        self.el = np.nonzero(~isrb & ~isrf)[0]
        rp = core.rng(*rkey)
        M, B, K = s["Mf"], s["Bf"], s["Kf"]
        self.copies = []
        sym = pre_eig
        dense = (not pre_eig) and not s_is_diag(np, s)
        blocks = (self.rb, self.el, self.rf)
        for _ in range(3):
            Mp, Bp, Kp = (O.perturb(rp, X, symmetric=sym) for X in (M, B, K))
            if dense:
                # coupled blocks are solved by dense factorisations (LU without
                # equilibration, eigensolvers) whose backward error is small relative to
                # the NORM of the block, not relative to each entry or each row: a badly
                # row-scaled 2x2 block loses eps*cond(H) in scipy.linalg.solve
                Mp, Bp, Kp = (O.perturb_normwise(rp, X, blocks, scale="global")
                              for X in (Mp, Bp, Kp))
            self.copies.append((Mp, Bp, Kp, O.perturb(rp, F), O.perturb(rp, self.freq)))
        self._cache = {}
        with np.errstate(all="ignore"):
            if pre_eig:
                self._init_pre_eig(M, B, K)
            else:
                self._init_plain(M, B, K)

    # -- not pre_eig: block-wise tolerances, computed once -------------------------------
    def _init_plain(self, M, B, K):
        np, O = self.np, self.O
        d, v, a, info = O.all_included(M, B, K, self.F, self.freq, self.rb, self.rf)
        self.base = (d, v, a)
        self.rb_rule_gap = info["rb_rule_gap"]
        cps = []
        for (Mp, Bp, Kp, Fp, fp) in self.copies:
            try:
                cps.append(O.all_included(Mp, Bp, Kp, Fp, fp, self.rb, self.rf)[:3])
            except np.linalg.LinAlgError:
                cps.append(tuple(np.full_like(d, np.inf) for _ in range(3)))
        sig = [O.spread(self.base[q], [c[q] for c in cps]) for q in range(3)]
        # round-off model of SolveUnc's coupled (complex-mode) route, elastic block only
        self.modal_bound = None
        el = self.el
        if el.size and not s_is_diag(np, self.s):
            ix = np.ix_(el, el)
            bnd, cU = O.modal_route_bound(M[ix], B[ix], K[ix], self.F[el], self.freq)
            if not cU <= CONDU_LIMIT:
                bnd = np.full(self.nf, np.inf)
            self.modal_bound = MODAL_FACTOR * bnd
        # force-independent: where the elastic dynamic stiffness itself is singular (an
        # undamped resonance hit exactly) the problem has no unique solution whatever the
        # right-hand side is -- also when that force happens to be zero and the measured
        # sensitivity therefore vanishes
        sing_el = np.zeros(self.nf, bool)
        if self.el.size:
            ee = np.ix_(self.el, self.el)
            for j_, Wj in enumerate(self.W):
                Z = -(Wj ** 2) * M[ee] + 1j * Wj * B[ee] + K[ee]
                sv = np.linalg.svd(Z, compute_uv=False)
                sing_el[j_] = not (sv[-1] > 1e-13 * sv[0])
        self.T = {}
        for solver in ("su", "fd"):
            Ts, mask = [], np.ones((self.n, self.nf), bool)
            for q in range(3):
                T = np.zeros((self.n, self.nf))
                for rows, name in ((self.rb, "rb"), (self.el, "el"), (self.rf, "rf")):
                    if rows.size == 0:
                        continue
                    sg = sig[q][rows]
                    tol, amp, scale = O.column_tol(self.base[q][rows], sg)
                    bad = ~(amp <= AMP_LIMIT) | ~np.isfinite(tol)
                    if name == "el":
                        bad = bad | sing_el
                    if solver == "su" and name == "el" and self.modal_bound is not None:
                        extra = self.modal_bound * np.abs(self.W) ** q
                        tol = tol + extra
                        bad |= ~(extra <= SU_RELTOL_LIMIT * scale) | ~np.isfinite(tol)
                    T[rows] = np.where(bad, 0.0, tol)[None, :]
                    mask[np.ix_(rows, np.nonzero(bad)[0])] = False
                Ts.append(T)
            # a column refused for one of d/v/a is refused for all three
            self.T[solver] = (Ts, mask)

    def _init_pre_eig(self, M, B, K):
        np, O = self.np, self.O
        self.modal = O.all_included_pre_eig(M, B, K, self.F, self.freq, self.rb, self.rf)
        self.rb_rule_gap = self.modal[4]["rb_rule_gap"]
        self.modal_copies = []
        for (Mp, Bp, Kp, Fp, fp) in self.copies:
            try:
                self.modal_copies.append(
                    O.all_included_pre_eig(Mp, Bp, Kp, Fp, fp, self.rb, self.rf))
            except np.linalg.LinAlgError:
                self.modal_copies.append(None)
        # round-off model of the complex-mode route on the modal elastic block, mapped to
        # physical rows through |phi|
        phi, w = self.modal[0], self.modal[4]["w"]
        el = self.el
        self.modal_bound_phys = np.zeros((self.n, self.nf))
        if el.size:
            Bm = (phi.conj().T @ O.full(B, self.n) @ phi)[np.ix_(el, el)]
            Km = np.diag(w[el]).astype(complex)
            Fm = (phi.conj().T @ self.F.astype(complex))[el]
            bnd, cU = O.modal_route_bound(None, Bm, Km, Fm, self.freq)
            if not cU <= CONDU_LIMIT:
                bnd = np.full(self.nf, np.inf)
            with np.errstate(invalid="ignore"):
                self.modal_bound_phys = MODAL_FACTOR * np.outer(
                    np.abs(phi[:, el]).sum(axis=1), np.where(np.isfinite(bnd), bnd, 1e300))

    # -- per option set --------------------------------------------------------------------
    def want(self, incrb, rfdo):
        np, O = self.np, self.O
        key = ("".join(sorted(incrb)), bool(rfdo))
        if key in self._cache:
            return self._cache[key]
        with np.errstate(all="ignore"):
            if not self.pre_eig:
                out = O.apply_options(*self.base, self.rb, self.rf, incrb, rfdo)
                res = (out, None)
            else:
                phi, dm, vm, am, _ = self.modal
                xm = O.apply_options(dm, vm, am, self.rb, self.rf, incrb, rfdo)
                out = tuple(phi @ x for x in xm)
                cps = []
                for mc in self.modal_copies:
                    if mc is None:
                        cps.append(tuple(np.full_like(out[0], np.inf) for _ in range(3)))
                        continue
                    ph, d1, v1, a1, _ = mc
                    x1 = O.apply_options(d1, v1, a1, self.rb, self.rf, incrb, rfdo)
                    cps.append(tuple(ph @ x for x in x1))
                Ts, mask = [], np.ones((self.n, self.nf), bool)
                Tfd = []
                for q in range(3):
                    sg = O.spread(out[q], [c[q] for c in cps])
                    tol_fd, amp, scale = O.column_tol(out[q], sg)
                    extra = self.modal_bound_phys.max(axis=0) * np.abs(self.W) ** q
                    tol = tol_fd + extra
                    bad = ~(amp <= AMP_LIMIT) | ~np.isfinite(tol) \
                        | ~(extra <= SU_RELTOL_LIMIT * scale)
                    Ts.append(np.broadcast_to(np.where(bad, 0.0, tol)[None, :],
                                              (self.n, self.nf)).copy())
                    Tfd.append(np.broadcast_to(
                        np.where(bad, 0.0, tol_fd)[None, :], (self.n, self.nf)).copy())
                    mask[:, bad] = False
                res = (out, {"su": (Ts, mask), "fd": (Tfd, mask)})
        self._cache[key] = res
        return res

    def tol(self, solver, incrb, rfdo):
        if not self.pre_eig:
            return self.T[solver]
        return self.want(incrb, rfdo)[1][solver]


def s_is_diag(np, s):
    return all(_is_diag(np, s[x]) for x in ("Mf", "Bf", "Kf"))


# ======================================================================================
# monitors
# ======================================================================================

def _masked(np, got, want, tol, mask):
    g = np.where(mask, got, 0)
    w = np.where(mask, want, 0)
    t = np.where(mask, tol, 0)
    return g, w, t


def judge(sh, np, ref, sol, solver, incrb, rfdo, case, tags, cols=None):
    """All monitors for one fsolve return.  cols: columns of ref that sol covers."""
    (wd, wv, wa), _ = ref.want(incrb, rfdo)
    Ts, mask = ref.tol(solver, incrb, rfdo)
    W = ref.W
    F = ref.F
    if cols is not None:
        wd, wv, wa = wd[:, cols], wv[:, cols], wa[:, cols]
        Ts = [T[:, cols] for T in Ts]
        mask = mask[:, cols]
        W = W[cols]
        F = F[:, cols]
    got = [np.asarray(sol.d), np.asarray(sol.v), np.asarray(sol.a)]
    for g in got:
        if g.shape != wd.shape:
            sh.violation("shape", case, {"got": g.shape, "want": wd.shape}, tags)
            return False
    if tags.get("finding_cell"):
        with _FindingCell(sh, tags["finding_cell"]):
            return _judge(sh, np, ref, got, (wd, wv, wa), Ts, mask, W, F, solver, incrb,
                          rfdo, case, tags)
    return _judge(sh, np, ref, got, (wd, wv, wa), Ts, mask, W, F, solver, incrb, rfdo,
                  case, tags)


class _FindingCell:
    """Cells where an OPEN finding (findings/C02.json) is expected to fire: keep at most
    a few violation records per cell and shard (core.Shard keeps 200 records in total and
    a new violation must never be crowded out), and keep their error ratios out of the
    margins reported for the healthy cells."""
    KEEP = 4

    def __init__(self, sh, cell):
        self.sh, self.cell = sh, cell

    def __enter__(self):
        sh = self.sh
        self.saved_margin = dict(sh.margin)
        self.orig = sh.violation
        cell = self.cell

        def limited(kind, case, detail, tags=None):
            key = "known-cell-violations:" + cell
            if sh.counters.get(key, 0) >= self.KEEP and kind in FINDING_KINDS:
                sh.count(key)
                sh.count("violation:" + kind)
                return
            sh.count(key)
            self.orig(kind, case, detail, tags)
        sh.violation = limited
        return self

    def __exit__(self, *exc):
        sh = self.sh
        sh.violation = self.orig
        for k, v in list(sh.margin.items()):
            old = self.saved_margin.get(k, -1.0)
            if v > old:
                sh.margin["known-cell:" + k] = max(sh.margin.get("known-cell:" + k, -1.0), v)
                if k in self.saved_margin:
                    sh.margin[k] = old
                else:
                    del sh.margin[k]
        return False


FINDING_KINDS = {"su-oracle-d", "su-oracle-v", "su-oracle-a", "residual-dyn", "v-eq-iWd",
                 "a-eq-mW2d", "partition-rb", "partition-rf"}


def _judge(sh, np, ref, got, want, Ts, mask, W, F, solver, incrb, rfdo, case, tags):
    wd, wv, wa = want
    accepted = int(mask.all(axis=0).sum())
    ok = True
    for q, (name, w) in enumerate((("d", wd), ("v", wv), ("a", wa))):
        g, ww, t = _masked(np, got[q], w, Ts[q], mask)
        ok &= sh.check_close(f"{solver}-oracle-{name}", g, ww, t, case, tags)
    n = ref.n
    rb, rf, el = ref.rb, ref.rf, ref.el
    s = ref.s
    d, v, a = got
    # ---- exact zeros where the options exclude a term (modal-space systems only) --------
    if not ref.pre_eig:
        if rb.size:
            for letter, arr in (("d", d), ("v", v), ("a", a)):
                if letter not in incrb:
                    sh.count("mon:rb-excluded-zero")
                    if np.any(arr[rb] != 0):
                        ok = False
                        sh.violation("rb-excluded-zero", case,
                                     {"letter": letter, "max": np.abs(arr[rb]).max()}, tags)
            z = W == 0
            if solver == "su" and z.any():
                sh.count("mon:rb-zero-hz-zero")
                if np.any(d[np.ix_(rb, z)] != 0) or np.any(v[np.ix_(rb, z)] != 0):
                    ok = False
                    sh.violation("rb-zero-hz-zero", case, {}, tags)
        if rf.size and rfdo:
            sh.count("mon:rf-excluded-zero")
            if np.any(v[rf] != 0) or np.any(a[rf] != 0):
                ok = False
                sh.violation("rf-excluded-zero", case,
                             {"vmax": np.abs(v[rf]).max(), "amax": np.abs(a[rf]).max()},
                             tags)
    # ---- v = iW d, a = -W^2 d on rows where both sides are included ------------------------
    fin = np.isfinite(d) & np.isfinite(v) & np.isfinite(a) & mask
    if not ref.pre_eig:
        rows_v = np.zeros(n, bool)
        rows_a = np.zeros(n, bool)
        rows_v[el] = rows_a[el] = True
        if not rfdo:
            rows_v[rf] = rows_a[rf] = True
        if "d" in incrb and "v" in incrb:
            rows_v[rb] = True
        colmask_a = np.ones((n, W.size), bool)
        if "d" in incrb and "a" in incrb:
            rows_a[rb] = True
            colmask_a[np.ix_(rb, W == 0)] = False        # a_rb = F/m at 0 Hz, d_rb = 0
        relt = 16 * core_eps()
        mv = fin & rows_v[:, None]
        ma = fin & rows_a[:, None] & colmask_a
    else:
        full_inc = (rb.size == 0 or set("dva") <= set(incrb)) and (rf.size == 0 or not rfdo)
        relt = 1e-11
        mv = fin & full_inc
        ma = fin & full_inc
        if rb.size:
            ma = ma & (W != 0)[None, :]
    with np.errstate(all="ignore"):
        if ref.pre_eig:
            dsc = np.broadcast_to(np.abs(np.where(fin, d, 0)).max(axis=0)[None, :], d.shape)
        else:
            dsc = np.abs(d)
        if mv.any():
            ok &= sh.check_close("v-eq-iWd", np.where(mv, v, 0), np.where(mv, 1j * W * d, 0),
                                 np.where(mv, relt * np.abs(W) * dsc, 0), case, tags)
        if ma.any():
            ok &= sh.check_close("a-eq-mW2d", np.where(ma, a, 0),
                                 np.where(ma, -(W ** 2) * d, 0),
                                 np.where(ma, relt * W ** 2 * dsc, 0), case, tags)
    # ---- residual of the defining equations on the returned displacement -----------------
    M, B, K = (ref.O.full(s[x], n) for x in ("Mf", "Bf", "Kf"))
    aM, aB, aK = np.abs(M), np.abs(B), np.abs(K)
    Td = Ts[0]
    with np.errstate(all="ignore"):
        dz = np.where(fin, d, 0)
        if not ref.pre_eig:
            rows = np.zeros(n, bool)
            rows[el] = True
            if "d" in incrb:
                rows[rb] = True
            cm = fin & rows[:, None]
            if "d" in incrb and rb.size:
                cm[np.ix_(rb, W == 0)] = False
            colsok = fin.all(axis=0)
            cm &= colsok[None, :]
            if cm.any():
                R = (-(W ** 2) * (M @ dz) + 1j * W * (B @ dz) + K @ dz) - F
                S = (W ** 2) * (aM @ np.abs(dz)) + np.abs(W) * (aB @ np.abs(dz)) \
                    + aK @ np.abs(dz) + np.abs(F)
                tolR = (W ** 2) * (aM @ Td) + np.abs(W) * (aB @ Td) + aK @ Td + 1e-13 * S
                ok &= sh.check_close("residual-dyn", np.where(cm, R, 0), np.zeros(R.shape),
                                     np.where(cm, tolR, 0), case, tags)
            if rf.size:
                cmf = np.zeros((n, W.size), bool)
                cmf[rf] = True
                cmf &= colsok[None, :]
                Krf = np.zeros((n, n), complex)
                Krf[np.ix_(rf, rf)] = K[np.ix_(rf, rf)]
                R = Krf @ dz - F
                tolR = np.abs(Krf) @ Td + 1e-13 * (np.abs(Krf) @ np.abs(dz) + np.abs(F))
                if cmf.any():
                    ok &= sh.check_close("residual-rf", np.where(cmf, R, 0),
                                         np.zeros(R.shape), np.where(cmf, tolR, 0), case,
                                         tags)
        elif rf.size == 0 and (rb.size == 0 or "d" in incrb):
            cm = fin.all(axis=0)
            if rb.size:
                cm = cm & (W != 0)
            cm = np.broadcast_to(cm[None, :], d.shape)
            if cm.any():
                R = (-(W ** 2) * (M @ dz) + 1j * W * (B @ dz) + K @ dz) - F
                S = (W ** 2) * (aM @ np.abs(dz)) + np.abs(W) * (aB @ np.abs(dz)) \
                    + aK @ np.abs(dz) + np.abs(F)
                tolR = (W ** 2) * (aM @ Td) + np.abs(W) * (aB @ Td) + aK @ Td + 1e-13 * S
                ok &= sh.check_close("residual-dyn", np.where(cm, R, 0), np.zeros(R.shape),
                                     np.where(cm, tolR, 0), case, tags)
    sh.count("mon:columns-accepted", accepted)
    sh.count("mon:columns-refused", int(mask.shape[1] - accepted))
    return ok


def core_eps():
    return 2.220446049250313e-16


def cross(sh, np, ref, su_sol, fd_sol, incrb, rfdo, case, tags, cols=None):
    """SolveUnc.fsolve == FreqDirect.fsolve (fd_sol may cover a subset of columns)."""
    Tsu, msu = ref.tol("su", incrb, rfdo)
    Tfd, mfd = ref.tol("fd", incrb, rfdo)
    for q, name in enumerate("dva"):
        g = np.asarray(getattr(su_sol, name))
        w = np.asarray(getattr(fd_sol, name))
        T = Tsu[q] + Tfd[q]
        m = msu & mfd
        if cols is not None:
            g, T, m = g[:, cols], T[:, cols], m[:, cols]
        if g.shape != w.shape:
            sh.violation("su-vs-fd-shape", case, {"su": g.shape, "fd": w.shape}, tags)
            return
        gg, ww, tt = _masked(np, g, w, T, m)
        sh.check_close(f"su-vs-fd-{name}", gg, ww, tt, case, tags)


# ======================================================================================
# shard driver
# ======================================================================================

def _tags(np, s, solver, pre_eig, incrb, rfdo, freq):
    rb, rf = s["rb"], s["rf"]
    t = {"fam": s["fam"], "kind": s["kind"], "solver": solver, "pre_eig": bool(pre_eig),
         "incrb": incrb, "rf_disp_only": bool(rfdo), "nrb": int(s["nrb"]),
         "nel": int(s["nel"]), "nrf": int(s["nrf"]),
         "complex": bool(s["cplx"]), "zero_hz": bool(np.any(np.asarray(freq) == 0))}
    if s["fam"] == "block":
        t.update({
            "layout": s["layout"], "diagonal": bool(s["unc"]), "mform": s["mform"],
            "rb_noncontig": bool(rb.size >= 2 and rb[-1] - rb[0] + 1 != rb.size),
            "rf_before_rb": bool(rb.size and rf.size and rf.min() < rb.max()),
            "rbform": s["rbform"], "h": s["h"] is not None})
    else:
        t.update({"topo": s["topo"], "dampvar": s["dampvar"], "mform": s["mform"],
                  "cvar": s["cvar"], "rbform": s["rbform"],
                  "k_hermitian_complex": s["cvar"] == "k-hermitian",
                  "m_hermitian_complex": s["cvar"] == "m-hermitian",
                  "k_complex_symmetric": s["cvar"] == "k-csym"})
        if pre_eig and solver == "su" and s["cvar"] in ("k-hermitian", "m-hermitian",
                                                        "k-csym"):
            t["finding_cell"] = "pre_eig-" + s["cvar"]
    return t


def _case(s, solver, pre_eig, incrb, rfdo, extra=None):
    c = {"fam": s["fam"], "i": int(s["i"]), "solver": solver, "pre_eig": bool(pre_eig),
         "incrb": incrb, "rf_disp_only": bool(rfdo), "n": int(s["n"]),
         "kind": s["kind"]}
    if s["fam"] == "block":
        c["labels"] = s["labels"]
    if "corpus_seed" in s:
        c["corpus_seed"] = s["corpus_seed"]       # generated with this seed, not VERIF_SEED
    if extra:
        c.update(extra)
    return c


def _option_sets(r, tier, i):
    """All 16 option sets (incrb letters in a random order now and then)."""
    out = []
    for inc in INCRB:
        for rfdo in (False, True):
            s = inc
            if len(inc) > 1 and r.random() < 0.3:
                s = "".join(r.permutation(list(inc)))
            out.append((s, rfdo))
    return out


def _build(sh, ode, cls, s, case, tags, **kw):
    try:
        with warnings.catch_warnings():
            warnings.simplefilter("ignore")
            if cls == "su":
                return ode.SolveUnc(s["m_in"], s["b_in"], s["k_in"], h=s["h"],
                                    rb=kw.get("rb", s["rb_in"]),
                                    rf=kw.get("rf", s["rf_in"]),
                                    pre_eig=kw.get("pre_eig", False))
            return ode.FreqDirect(s["m_in"], s["b_in"], s["k_in"],
                                  rb=kw.get("rb", s["rb_in"]), rf=kw.get("rf", s["rf_in"]))
    except Exception as e:
        sh.violation("exception:construct-" + cls, case, {"exc": repr(e)[:400]}, tags)
        return None


_FORDER = [0]
_HELD = {}


def _fsolve(sh, obj, F, freq, incrb, rfdo, case, tags, where, singular_ok=False):
    """fsolve with every exception turned into a violation.  singular_ok: the oracle
    found an exactly singular / refused column in this call (undamped resonance hit
    exactly); a LinAlgError is then the legitimate outcome and "singular" is returned."""
    import numpy as np
    # the force as the caller holds it: C- or Fortran-ordered (a spectrum stored
    # frequency-major and passed as .T); fsolve must leave it and `freq` untouched
    _FORDER[0] += 1
    Fin = np.asfortranarray(F.copy()) if _FORDER[0] % 3 == 0 else F.copy()
    fin = freq.copy()
    try:
        with warnings.catch_warnings():
            warnings.simplefilter("ignore")
            with np.errstate(all="ignore"):
                out = obj.fsolve(Fin, fin, incrb=incrb, rf_disp_only=rfdo)
        # a solution handed out by an earlier call on this solver object keeps its values
        prev = _HELD.get(id(obj))
        if prev is not None and prev[0] is obj:
            sh.count("mon:fsolve-earlier-result-unmutated")
            if any(not np.array_equal(np.asarray(getattr(prev[1], q)), prev[2][q],
                                      equal_nan=True) for q in "dva"):
                sh.violation("fsolve-earlier-result-unmutated", case, {}, tags)
        if len(_HELD) > 64:
            _HELD.clear()
        _HELD[id(obj)] = (obj, out, {q: np.array(getattr(out, q), copy=True) for q in "dva"})
        sh.count("mon:fsolve-inputs-unmutated")
        if not np.array_equal(Fin, F) or not np.array_equal(fin, freq):
            sh.violation("fsolve-inputs-unmutated", case,
                         {"force_changed": bool(not np.array_equal(Fin, F)),
                          "freq_changed": bool(not np.array_equal(fin, freq)),
                          "fortran_order": bool(Fin.flags.f_contiguous
                                                and not Fin.flags.c_contiguous)}, tags)
        return out
    except np.linalg.LinAlgError as e:
        if singular_ok:
            return "singular"
        sh.violation("exception:" + where, case, {"exc": repr(e)[:400]}, tags)
        return None
    except Exception as e:
        sh.violation("exception:" + where, case, {"exc": repr(e)[:400]}, tags)
        return None


def _su_path(su):
    if su.unc:
        return "unc-real" if su.systype is float else "unc-complex"
    return "coup-real" if su.systype is float else "coup-complex"


def _partition_check(sh, np, obj, s, case, tags):
    """The solver's own rb/el/rf index sets against the generated ones (discrete)."""
    def asidx(pv):
        if isinstance(pv, slice):
            return np.arange(pv.start, pv.stop)
        return np.asarray(pv, dtype=int)
    sh.check_equal("partition-rb", np.sort(asidx(obj.rb)), np.asarray(s["rb"], int), case,
                   tags)
    sh.check_equal("partition-rf", np.sort(asidx(obj.rf)), np.asarray(s["rf"], int), case,
                   tags)


# generator inputs (seed, index) of block systems that exposed a defect in the past; they
# are replayed in every run of every tier, whatever VERIF_SEED is (regression corpus):
#   (2, 7366)  coupled real system, cond(eigenvectors) = 2.8e3, solver made WITH a time
#              step: fsolve raised 'factor of 2.0 seems to be missing' (repaired)
CORPUS = [(2, 7366)]


def run_block_case(sh, np, ode, i, tier, gseed=None):
    gs = sh.seed if gseed is None else gseed
    s = gen_block(gs, i)
    if gseed is not None:
        s["corpus_seed"] = gseed
        sh.count("cell:corpus-case")
    r = core.rng(gs, "C02", "block-ff", i)
    freq, F, fkind = gen_freq_force(np, r, s)
    has0 = bool(np.any(freq == 0))
    base_tags = _tags(np, s, "su", False, "dva", False, freq)
    case0 = _case(s, "su", False, "dva", False)
    ref = Ref(s, F, freq, (gs, "C02", "pert", i))
    if s["nrb"] and ref.rb_rule_gap > 1e-6:
        raise RuntimeError(f"generator outside domain: rb rule gap {ref.rb_rule_gap}")
    su = _build(sh, ode, "su", s, case0, base_tags)
    fd = _build(sh, ode, "fd", s, case0, base_tags)
    sh.count("kind:" + s["kind"])
    sh.count("layout:" + ("split-rb" if s["layout"].startswith("split") else s["layout"]))
    sh.count("mform:" + s["mform"])
    sh.count("rbform:" + s["rbform"])
    sh.count("force:" + fkind)
    if has0:
        sh.count("freq:zero-hz")
    if s["res_hz"] and freq.size >= 2:
        sh.count("freq:exact-resonance")
    su_ok = su is not None
    if su_ok:
        path = _su_path(su)
        sh.count("path:" + path)
        if s["h"] is not None and path == "coup-real":
            sh.count("path:coup-real-delcc")
        _partition_check(sh, np, su, s, case0, base_tags)
        es = getattr(su.pc, "eig_success", True) if su.pc is not None else True
        if not es and not su.unc:
            sh.count("skip:su-eig_success-false")
            su_ok = False
    if fd is not None:
        _partition_check(sh, np, fd, s, case0, base_tags)
    # FreqDirect cannot do 0 Hz with rb modes: solve on the non-zero columns there
    fd_cols = None
    if has0 and s["nrb"]:
        fd_cols = np.nonzero(freq != 0)[0]
        if fd is not None:
            try:
                with warnings.catch_warnings():
                    warnings.simplefilter("ignore")
                    with np.errstate(all="ignore"):
                        bad = fd.fsolve(F, freq)
                if not fd.unc:
                    sh.count("mon:fd-0hz-linalgerror")
                    sh.violation("fd-0hz-linalgerror", _case(s, "fd", False, "dva", False),
                                 {"note": "coupled FreqDirect with rb modes at 0 Hz returned"},
                                 base_tags)
                else:
                    sh.count("mon:fd-0hz-diag-nonfinite")
                    z = freq == 0
                    if np.all(np.isfinite(bad.d[np.ix_(s["rb"], z)])):
                        sh.violation("fd-0hz-diag-nonfinite",
                                     _case(s, "fd", False, "dva", False), {}, base_tags)
            except np.linalg.LinAlgError:
                sh.count("mon:fd-0hz-linalgerror")
                if fd.unc:
                    sh.violation("fd-0hz-linalgerror", _case(s, "fd", False, "dva", False),
                                 {"note": "diagonal FreqDirect raised"}, base_tags)
            except Exception as e:
                sh.violation("exception:fd-0hz", _case(s, "fd", False, "dva", False),
                             {"exc": repr(e)[:300]}, base_tags)
    for nopt, (incrb, rfdo) in enumerate(_option_sets(r, tier, i)):
        key = "".join(sorted(incrb))
        sols = {}
        if nopt == 1 and su_ok and s["h"] is not None and not s["cplx"]:
            # history on one solver object: a time-domain solution between two frequency-
            # domain ones (the two share the eigensolution in different forms); what
            # follows is judged against the oracle like everything else
            try:
                with warnings.catch_warnings():
                    warnings.simplefilter("ignore")
                    with np.errstate(all="ignore"):
                        su.tsolve(np.real(F[:, :1]) * np.ones((1, 4)))
                sh.count("cell:history-fsolve-tsolve-fsolve")
            except Exception as e:
                sh.violation("exception:tsolve-between-fsolves", case0,
                             {"exc": repr(e)[:300]}, base_tags)
        for solver, obj in (("su", su if su_ok else None), ("fd", fd)):
            if obj is None:
                continue
            tags = _tags(np, s, solver, False, key, rfdo, freq)
            case = _case(s, solver, False, incrb, rfdo)
            cols = fd_cols if solver == "fd" else None
            Fq, fq = (F, freq) if cols is None else (F[:, cols], freq[cols])
            if fq.size == 0:
                continue
            _, mask = ref.tol(solver, key, rfdo)
            m = mask if cols is None else mask[:, cols]
            colok = m.all(axis=0)
            sol = _fsolve(sh, obj, Fq, fq, incrb, rfdo, case, tags, solver + ".fsolve",
                          singular_ok=not colok.all())
            if isinstance(sol, str):
                # LinAlgError at a frequency the oracle refuses: redo without those
                sh.count("cell:linalgerror-at-refused-frequency")
                keep = np.nonzero(colok)[0]
                cols = keep if cols is None else cols[keep]
                Fq, fq = F[:, cols], freq[cols]
                if fq.size == 0:
                    continue
                sol = _fsolve(sh, obj, Fq, fq, incrb, rfdo, case, tags, solver + ".fsolve")
                m = mask[:, cols]
            if sol is None:
                continue
            sh.case([s["fam"], i, solver, key, rfdo], bool(np.any(F) and m.all(axis=0).any()),
                    sample=case)
            if not m.all(axis=0).any():
                sh.refused += 1
            sh.count("incrb:" + (key or "none"))
            sh.count("rf_disp_only:" + str(rfdo))
            sh.count("solver:" + solver)
            if tags["rf_before_rb"]:
                sh.count("cell:rf-before-rb:" + ("diag" if s["unc"] else "coup"))
            if tags["rb_noncontig"] and s["unc"] and not s["cplx"] and solver == "su" \
                    and ("d" in key or "v" in key):
                sh.count("cell:diag-real-rb-noncontig-dv")
            if s["unc"] and s["cplx"] and s["nrb"] and key and solver == "su":
                sh.count("cell:diag-complex-rb-incrb")
            if not np.array_equal(np.asarray(sol.f), fq):
                sh.violation("sol.f", case, {"got": sol.f, "want": fq}, tags)
            judge(sh, np, ref, sol, solver, key, rfdo, case, tags, cols)
            sols[solver] = (sol, cols)
        if "su" in sols and "fd" in sols and sols["su"][1] is None:
            tags = _tags(np, s, "su+fd", False, key, rfdo, freq)
            cross(sh, np, ref, sols["su"][0], sols["fd"][0], key, rfdo,
                  _case(s, "su+fd", False, incrb, rfdo), tags, sols["fd"][1])
    return s, su if su_ok else None, fd


def run_phys_case(sh, np, ode, i, tier):
    s = gen_phys(sh.seed, i)
    r = core.rng(sh.seed, "C02", "phys-ff", i)
    freq, F, fkind = gen_freq_force(np, r, s)
    has0 = bool(np.any(freq == 0))
    csym = s["cvar"] == "k-csym"
    # complex-symmetric K has no Hermitian eigenbasis: reference = unpartitioned solve
    # (nrf = 0 and rb auto-detect finds nothing meaningful -> only incrb='dva' is defined)
    ref = Ref(s, F, freq, (sh.seed, "C02", "ppert", i), pre_eig=not csym, plain=csym)
    refplain = ref if csym else Ref(s, F, freq, (sh.seed, "C02", "ppert2", i), plain=True)
    tags0 = _tags(np, s, "su", True, "dva", False, freq)
    case0 = _case(s, "su", True, "dva", False)
    su = _build(sh, ode, "su", s, case0, tags0, pre_eig=True)
    sh.count("phys:" + s["topo"])
    sh.count("phys-damp:" + s["dampvar"])
    sh.count("phys-cvar:" + s["cvar"])
    sh.count("phys-mform:" + s["mform"])
    sh.count("rbform:" + s["rbform"])
    if su is not None:
        if not su.pre_eig:
            sh.violation("pre_eig-not-done", case0, {}, tags0)
        sh.count("path:pre_eig-" + _su_path(su))
        if tags0.get("finding_cell") and not csym:
            with _FindingCell(sh, tags0["finding_cell"]):
                _partition_check(sh, np, su, s, case0, tags0)
        elif not csym:
            _partition_check(sh, np, su, s, case0, tags0)
        es = getattr(su.pc, "eig_success", True) if su.pc is not None else True
        if not es and not su.unc:
            sh.count("skip:su-eig_success-false")
            su = None
    opts = _option_sets(r, tier, i)
    if csym:
        opts = [("dva", False), ("avd", True)]
    elif tags0.get("finding_cell"):
        opts = [opts[q] for q in (0, 5, 10, 15)]
    su_dva = None
    for (incrb, rfdo) in opts:
        key = "".join(sorted(incrb))
        if su is None:
            break
        tags = _tags(np, s, "su", True, key, rfdo, freq)
        case = _case(s, "su", True, incrb, rfdo)
        fq, Fq, cols = freq, F, None
        if csym and s["nrb"] and has0:
            cols = np.nonzero(freq != 0)[0]
            fq, Fq = freq[cols], F[:, cols]
            if fq.size == 0:
                continue
        sol = _fsolve(sh, su, Fq, fq, incrb, rfdo, case, tags, "su.fsolve")
        if sol is None:
            continue
        _, mask = ref.tol("su", key, rfdo)
        m = mask if cols is None else mask[:, cols]
        sh.case([s["fam"], i, "su-pre_eig", key, rfdo],
                bool(np.any(F) and m.all(axis=0).any()), sample=case)
        if not m.all(axis=0).any():
            sh.refused += 1
        sh.count("incrb:" + (key or "none"))
        sh.count("rf_disp_only:" + str(rfdo))
        sh.count("solver:su-pre_eig")
        judge(sh, np, ref, sol, "su", key, rfdo, case, tags, cols)
        if key == "dva" and not rfdo:
            su_dva = (sol, cols)
    # ---- FreqDirect (and SolveUnc without pre_eig when K is non-singular) on the physical
    # matrices: no partition, so it must equal the all-included solution when nrf == 0
    cols = np.nonzero(freq != 0)[0] if (s["nrb"] and has0) else None
    fq, Fq = (freq, F) if cols is None else (freq[cols], F[:, cols])
    if fq.size:
        tags = _tags(np, s, "fd", False, "dva", False, freq)
        case = _case(s, "fd", False, "dva", False, {"physical": True})
        fd = _build(sh, ode, "fd", s, case, tags, rb=[], rf=None)
        if fd is not None:
            sol = _fsolve(sh, fd, Fq, fq, "dva", False, case, tags, "fd.fsolve")
            if sol is not None:
                sh.case([s["fam"], i, "fd-physical"], bool(np.any(F)), sample=case)
                sh.count("solver:fd-physical")
                judge(sh, np, refplain, sol, "fd", "dva", False, case, tags, cols)
                if su_dva is not None and s["nrf"] == 0 and su_dva[1] is None \
                        and not csym and s["cvar"] not in ("k-hermitian", "m-hermitian"):
                    # cross-solver on the common domain (tolerances: modal ref for su,
                    # plain ref for fd)
                    Tsu, msu = ref.tol("su", "dva", False)
                    Tfd, mfd = refplain.tol("fd", "dva", False)
                    for q, name in enumerate("dva"):
                        g = np.asarray(getattr(su_dva[0], name))
                        w = np.asarray(getattr(sol, name))
                        T, m = Tsu[q] + Tfd[q], msu & mfd
                        if cols is not None:
                            g, T, m = g[:, cols], T[:, cols], m[:, cols]
                        gg, ww, tt = _masked(np, g, w, T, m)
                        sh.check_close(f"su-vs-fd-{name}", gg, ww, tt,
                                       _case(s, "su+fd", True, "dva", False),
                                       _tags(np, s, "su+fd", True, "dva", False, freq))
        if s["topo"] == "grounded":
            tags = _tags(np, s, "su", False, "dva", False, freq)
            case = _case(s, "su", False, "dva", False, {"physical": True})
            su2 = _build(sh, ode, "su", s, case, tags, rb=[], rf=None, pre_eig=False)
            if su2 is not None and (su2.unc or getattr(su2.pc, "eig_success", True)):
                sol = _fsolve(sh, su2, F, freq, "dva", False, case, tags, "su.fsolve")
                if sol is not None:
                    sh.case([s["fam"], i, "su-physical"], bool(np.any(F)), sample=case)
                    sh.count("solver:su-physical")
                    judge(sh, np, refplain, sol, "su", "dva", False, case, tags)
    return s, su


# -- solvepsd ----------------------------------------------------------------------------

def run_psd_case(sh, np, ode, s, objs, i, fam):
    """objs: list of (solver name, object, pre_eig).  Independent solvepsd model."""
    from vf.oracles import freq_direct as O
    r = core.rng(sh.seed, "C02", "psd", fam, i)
    n = s["n"]
    allow0 = all(name == "su" for name, _, _ in objs) or s["nrb"] == 0
    freq, _, _ = gen_freq_force(np, r, s, allow_zero=allow0, psd=True)
    nf = freq.size
    nfrc = int(r.integers(1, 4))
    forcepsd = _logu(r, 1e-3, 1e3, (nfrc, 1)) * (0.2 + r.random((nfrc, nf)))
    t_frc = r.standard_normal((n, nfrc))
    if r.random() < 0.3:
        # a force that does not act on the equations of motion (zero t_frc column): it
        # still reaches the response through the direct term drmf[:, i]
        t_frc[:, int(r.integers(nfrc))] = 0.0
        sh.count("cell:psd-zero-tfrc-column")
    if nfrc > 1 and r.random() < 0.15:
        forcepsd[int(r.integers(nfrc))] = 0.0          # a force with no PSD content
    if r.random() < 0.2:
        t_frc[r.random(n) < 0.5] = 0.0                  # forces on a few DOF only
    ndrm = int(r.integers(1, 5))
    drmlist = []
    for q in range(ndrm):
        nr = int(r.integers(1, 5))
        quad = []
        present = r.random(4) < 0.6
        if not present.any():
            present[int(r.integers(4))] = True
        for p, ncols in zip(present, (n, n, n, nfrc)):
            if not p:
                quad.append(None)
                continue
            X = r.standard_normal((nr, ncols))
            if r.random() < 0.2:
                X = X + 1j * r.standard_normal((nr, ncols))
            quad.append(X)
        drmlist.append(quad)
    incrb = INCRB[int(r.integers(8))]
    rfdo = bool(r.integers(2))
    for name, obj, pre_eig in objs:
        if obj is None:
            continue
        duf = (1.0, 1.0)
        if not pre_eig and r.random() < 0.4:
            duf = (float(r.uniform(1.0, 1.5)), float(r.uniform(1.0, 1.5)))
        tags = _tags(np, s, name, pre_eig, incrb, rfdo, freq)
        tags.update({"psd": True, "duf": duf != (1.0, 1.0)})
        case = _case(s, name, pre_eig, incrb, rfdo,
                     {"psd": True, "nfrc": nfrc, "ndrm": ndrm, "duf": duf})
        kw = {}
        if r.random() < 0.8 or incrb != "dva":
            kw["incrb"] = incrb
        else:
            pass
        inc_eff = kw.get("incrb", "dva")
        if r.random() < 0.7 or rfdo:
            kw["rf_disp_only"] = rfdo
        rfdo_eff = kw.get("rf_disp_only", False)
        if duf != (1.0, 1.0):
            kw["rbduf"], kw["elduf"] = duf
        try:
            with warnings.catch_warnings():
                warnings.simplefilter("ignore")
                with np.errstate(all="ignore"):
                    rms, psd = ode.solvepsd(obj, forcepsd.copy(), t_frc.copy(), freq.copy(),
                                            [list(qd) for qd in drmlist], **kw)
        except Exception as e:
            sh.violation("exception:solvepsd", case, {"exc": repr(e)[:400]}, tags)
            continue
        # ---- independent model ---------------------------------------------------------
        units, tolun, refused = [], [], False
        for q in range(nfrc):
            Fu = np.outer(t_frc[:, q], np.ones(nf)).astype(complex)
            ref = Ref(s, Fu, freq, (sh.seed, "C02", "psdpert", fam, i, q), pre_eig=pre_eig)
            (d, v, a), _ = ref.want(inc_eff, rfdo_eff)
            Ts, mask = ref.tol(name, "".join(sorted(inc_eff)), rfdo_eff)
            if not mask.all():
                refused = True
                break
            d, v, a = d.copy(), v.copy(), a.copy()
            Ts = [T.copy() for T in Ts]
            if duf != (1.0, 1.0):
                for X in (d, v, a) + tuple(Ts):
                    X[ref.rb] *= duf[0]
                    X[ref.el] *= duf[1]
            units.append((d, v, a))
            tolun.append(Ts)
        sh.case([fam, i, "psd", name], not refused, sample=case)
        if refused:
            sh.refused += 1
            sh.count("psd:refused")
            continue
        sh.count("psd:" + name + ("-pre_eig" if pre_eig else ""))
        if duf != (1.0, 1.0):
            sh.count("psd:duf")
        if len(rms) != ndrm or len(psd) != ndrm:
            sh.violation("psd-list-length", case, {"rms": len(rms), "psd": len(psd)}, tags)
            continue
        for j, quad in enumerate(drmlist):
            want = O.psd_response(units, forcepsd, quad)
            # tolerance: first-order propagation of the d/v/a tolerances through the DRMs
            drma, drmv, drmd, drmf = quad
            dpsd = np.zeros_like(want)
            for q, ((d, v, a), (Td, Tv, Ta)) in enumerate(zip(units, tolun)):
                H = 0
                dH = 0
                mag = 0
                for X, x, T in ((drma, a, Ta), (drmv, v, Tv), (drmd, d, Td)):
                    if X is not None:
                        H = H + X @ x
                        dH = dH + np.abs(X) @ T
                        mag = mag + np.abs(X) @ np.abs(x)
                if drmf is not None:
                    H = H + drmf[:, [q]] * np.ones((1, nf))
                    mag = mag + np.abs(drmf[:, [q]]) * np.ones((1, nf))
                dH = dH + 1e-13 * mag
                dpsd = dpsd + forcepsd[q][None, :] * (2 * np.abs(H) * dH + dH ** 2)
            dpsd = dpsd + 1e-13 * want
            sh.check_close("psd", np.asarray(psd[j]), want, dpsd, case, tags)
            wrms = O.rms_trapezoid(want, freq)
            darea = np.trapezoid(dpsd, freq, axis=1) + 1e-13 * wrms ** 2
            with np.errstate(all="ignore"):
                drms = np.where(wrms > 0, darea / np.maximum(wrms, 1e-300), np.sqrt(darea))
            sh.check_close("rms", np.asarray(rms[j]), wrms, drms, case, tags)
            # the reported rms against the reported psd (pure trapezoid rule)
            g = np.asarray(psd[j])
            if g.shape == want.shape and np.all(np.isfinite(g)):
                sh.check_close("rms-of-reported-psd", np.asarray(rms[j]),
                               O.rms_trapezoid(g, freq),
                               1e-13 * np.maximum(wrms, 1e-300), case, tags)


# -- one-off assertions --------------------------------------------------------------------

def run_oneoffs(sh, np, ode, params):
    r = core.rng(sh.seed, "C02", "oneoff", params["slice"])
    # cd_as_force has no frequency-domain path
    for q in range(4):
        n = int(r.integers(2, 6))
        m = _logu(r, 0.5, 5.0, n)
        k = m * (2 * np.pi * _logu(r, 1.0, 100.0, n)) ** 2
        bd = 0.04 * np.sqrt(k * m)
        U = np.triu(r.uniform(-1, 1, (n, n)), 1)
        b = np.diag(bd) + 0.1 * (U + U.T) * bd.mean()
        freq = _logu(r, 1.0, 100.0, 4)
        F = r.standard_normal((n, 4)) + 0j
        case = {"oneoff": "cd_as_force", "slice": params["slice"], "q": q}
        sh.case(["oneoff-cdf", params["slice"], q], True, sample=case)
        sh.count("mon:cdforce-notimplemented")
        try:
            su = ode.SolveUnc(m, b, k, h=[None, 0.01][q % 2], cd_as_force=True)
            su.fsolve(F, freq)
        except NotImplementedError:
            pass
        except Exception as e:
            sh.violation("cdforce-notimplemented", case, {"exc": repr(e)[:300]}, {})
        else:
            sh.violation("cdforce-notimplemented", case, {"note": "returned"}, {})
    # deprecated integer incrb
    s = gen_block(sh.seed, 192 * params["slice"])      # rb+el+rf present, diag-real
    rr = core.rng(sh.seed, "C02", "oneoff-int", params["slice"])
    freq, F, _ = gen_freq_force(np, rr, s, allow_zero=False)
    ref = Ref(s, F, freq, (sh.seed, "C02", "oneoff-pert", params["slice"]))
    for solver in ("su", "fd"):
        tags = _tags(np, s, solver, False, "int", False, freq)
        obj = _build(sh, ode, solver, s, {"oneoff": "int-incrb"}, tags)
        if obj is None:
            continue
        for val, txt in ((0, ""), (1, "av"), (2, "adv")):
            case = _case(s, solver, False, txt, False, {"incrb_int": val})
            with warnings.catch_warnings(record=True) as wl:
                warnings.simplefilter("always")
                try:
                    with np.errstate(all="ignore"):
                        sol = obj.fsolve(F, freq, incrb=val)
                except Exception as e:
                    sh.violation("exception:int-incrb", case, {"exc": repr(e)[:300]}, tags)
                    continue
            sh.count("cell:int-incrb")
            sh.case(["int-incrb", params["slice"], solver, val], True, sample=case)
            sh.check_equal("int-incrb-futurewarning",
                           any(issubclass(w.category, FutureWarning) for w in wl), True,
                           case, tags)
            judge(sh, np, ref, sol, solver, "".join(sorted(txt)), False, case, tags)
    # invalid incrb letters are rejected
    sh.count("mon:bad-incrb")
    try:
        ode.SolveUnc(np.ones(2), np.ones(2), np.ones(2) * 100.0).fsolve(
            np.ones((2, 1)), np.array([1.0]), incrb="dx")
    except ValueError:
        pass
    except Exception as e:
        sh.violation("bad-incrb", {"incrb": "dx"}, {"exc": repr(e)[:300]}, {})
    else:
        sh.violation("bad-incrb", {"incrb": "dx"}, {"note": "accepted"}, {})


def run_shard(sh, params):
    import numpy as np
    from pyyeti import ode
    tier = sh.tier
    sl, ns = params["slice"], params["nslice"]
    run_oneoffs(sh, np, ode, params)
    # contiguous chunks: the generators stratify on i % 4, (i // 4) % 8, ... and a
    # strided split would confine a shard to one residue class
    nb, nph = NBLOCK[tier] // ns, NPHYS[tier] // ns
    if sl == 0:
        for gseed, gi in CORPUS:
            run_block_case(sh, np, ode, gi, tier, gseed=gseed)
    for i in range(sl * nb, (sl + 1) * nb):
        s, su, fd = run_block_case(sh, np, ode, i, tier)
        if i % 3 == 0:
            run_psd_case(sh, np, ode, s, [("su", su, False), ("fd", fd, False)], i, "block")
    for i in range(sl * nph, (sl + 1) * nph):
        s, su = run_phys_case(sh, np, ode, i, tier)
        if i % 3 == 0 and su is not None and s["cvar"] in ("real", "b-complex"):
            run_psd_case(sh, np, ode, s, [("su", su, True)], i, "phys")


MANDATORY_MON = [
    "fsolve-inputs-unmutated", "fsolve-earlier-result-unmutated", "su-oracle-d", "su-oracle-v", "su-oracle-a", "fd-oracle-d", "fd-oracle-v",
    "fd-oracle-a", "su-vs-fd-d", "su-vs-fd-v", "su-vs-fd-a", "residual-dyn",
    "residual-rf", "v-eq-iWd", "a-eq-mW2d", "rb-excluded-zero", "rf-excluded-zero",
    "rb-zero-hz-zero", "psd", "rms", "rms-of-reported-psd", "fd-0hz-linalgerror",
    "fd-0hz-diag-nonfinite", "cdforce-notimplemented", "partition-rb", "partition-rf",
    "int-incrb-futurewarning", "bad-incrb"]
MANDATORY_CELLS = (
    ["kind:" + k for k in KINDS]
    + ["layout:contig-" + o for o in BLOCK_ORDERS] + ["layout:interleaved",
                                                       "layout:split-rb"]
    + ["incrb:" + ("".join(sorted(k)) or "none") for k in INCRB]
    + ["rf_disp_only:True", "rf_disp_only:False"]
    + ["mform:none", "mform:1d", "mform:2d"]
    + ["rbform:auto", "rbform:bool", "rbform:list", "rbform:index", "rbform:empty-list"]
    + ["path:unc-real", "path:unc-complex", "path:coup-real", "path:coup-complex",
       "path:coup-real-delcc", "path:pre_eig-unc-real", "path:pre_eig-coup-real",
       "path:pre_eig-coup-complex"]
    + ["cell:rf-before-rb:diag", "cell:rf-before-rb:coup",
       "cell:diag-real-rb-noncontig-dv", "cell:diag-complex-rb-incrb", "cell:int-incrb"]
    + ["freq:zero-hz", "freq:exact-resonance"]
    + ["force:complex", "force:rank1", "force:real", "force:sparse"]
    + ["solver:su", "solver:fd", "solver:su-pre_eig", "solver:fd-physical",
       "solver:su-physical"]
    + ["phys:free", "phys:grounded", "phys:two"]
    + ["phys-damp:prop", "phys-damp:network", "phys-damp:network-other", "phys-damp:zero"]
    + ["phys-cvar:real", "phys-cvar:b-complex", "phys-cvar:k-hermitian",
       "phys-cvar:k-csym"]
    + ["phys-mform:none", "phys-mform:1d", "phys-mform:2d", "phys-mform:full"]
    + ["psd:su", "psd:fd", "psd:su-pre_eig", "psd:duf"])


def finalize(agg, tier):
    c = agg["counters"]
    why = []
    for k in MANDATORY_MON:
        if not c.get("mon:" + k):
            why.append(f"monitor {k} never evaluated")
    for k in MANDATORY_CELLS:
        if not c.get(k):
            why.append(f"coverage cell {k} empty")
    acc, ref = c.get("mon:columns-accepted", 0), c.get("mon:columns-refused", 0)
    if acc and ref > 0.25 * (acc + ref):
        why.append(f"oracle refused {ref} of {acc + ref} frequency columns as "
                   "ill-conditioned (> 25 %)")
    if c.get("skip:su-eig_success-false", 0) > 0.1 * max(1, c.get("solver:su", 0) / 16):
        why.append("more than 10 % of SolveUnc objects reported eig_success False")
    return why


def evidence_extra(agg, tier):
    c = agg["counters"]
    return {"frequency_columns_accepted": c.get("mon:columns-accepted", 0),
            "frequency_columns_refused": c.get("mon:columns-refused", 0),
            "su_objects_skipped_eig_success_false": c.get("skip:su-eig_success-false", 0)}
