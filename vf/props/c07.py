"""C07 -- expmint / getEPQ1 / getEPQ2 / getEPQ_pow / getEPQ and SSModel.c2d / d2c.

Part "expm": E = exp(Ah), I1, I2 and E, P, Q from every route are compared with an mpmath
reference (vf/oracles/expm_mp.py) on matrices of ten structures scaled so that ||Ah||_1
lands on a grid that straddles every algorithm switch; tolerance from conditioning measured
on the oracle (inputs perturbed by 1e-13); route agreement; one-step reproduction of the
exactly sampled response (vf/oracles/lti.py, mp engine); dispatch rule of getEPQ; branch
monitor (which Pade order / squaring count / _geti2 path ran).

Part "ss": SSModel.c2d versus the mp reference of the documented formulas; d2c versus an
independent logm reference (eigen-conditioning encoded in the tolerance); round trip;
sampled-output equality of zoh / zoha / foh models versus the exact response with the
documented state shift; tustin <-> bilinear transform identity on the unit circle.
"""
import math
import warnings

from vf import core

ID = "C07"
LEVEL = "exploration"
RULE = ("expm part: A (n = 1..10) from 13 structure families (dense, symmetric negative "
        "definite, skew, upper triangular, Jordan/defective, nilpotent, zero rows/cols, "
        "rank-1, stiff, companion, 2nd-order state-space with and without rigid-body "
        "modes, zero) scaled so that ||A h||_1 equals a grid value straddling each Pade / "
        "scaling / dispatcher switch (1e-6 ... 1e3), h drawn from 6 decades; each executed "
        "through expmint (geti2 False/True), getEPQ1, getEPQ2, getEPQ_pow, getEPQ with "
        "order {0,1} x B {None, n x r, half}.  ss part: random stable SISO/MIMO systems "
        "(cond(eigvecs) <= 1e4, |lambda| h < pi/2), 4 methods x prewarp {0, w0}.  "
        "distinct = distinct (family, n, norm, h, generator index) descriptors; "
        "non-trivial = A != 0 and finite reference (expm), n >= 1 states with non-zero "
        "B, C (ss)")
ASSUMPTIONS = [
    "mpmath arithmetic at 50 digits (Taylor + exact doubling formulas, cross-checked "
    "against mp.expm of Van Loan's augmented matrix, mp.quad on 2x2 cases and at 80 "
    "digits on a sample) is the truth for E, I1, I2",
    "conditioning of each case is estimated from 3 random relative input perturbations "
    "of 1e-13 applied to the oracle; a backward-stable implementation stays within "
    "200 x that spread x eps/1e-13",
    "d2c reference = scipy.linalg.logm (Schur based) cross-checked against an mpmath "
    "eigen-decomposition on a sample; pyYeti documents an eigenvector-based formula, so "
    "its tolerance carries cond(eigvecs) computed by numpy from the *input*",
    "one-norm estimates inside scipy's _ExpmPadeHelper are randomised only through "
    "numpy's global RNG, which each shard seeds",
]
MIN_NONTRIVIAL = {"quick": 400, "thorough": 5000}
TIMEOUT = {"quick": 1500, "thorough": 10800}

EPS = 2.220446049250313e-16
THETA9 = 2.097847961257068
# ||A h||_1 targets: both sides of every switch in expmint/_expm_SS (thresholds on the
# eta/d-values: 1.4956e-2, 0.25394, 0.95042, 2.09785, 4.25) and of the getEPQ dispatcher
NORMS = [1e-6, 1e-3, 1.4e-2, 1.6e-2, 0.1, 0.25, 0.26, 0.6, 0.95, 0.96, 1.5,
         THETA9 * (1 - 1e-9), THETA9 * (1 + 1e-9), 2.1, 3.0, 4.25, 4.3, 8.0, 16.0,
         30.0, 100.0, 1000.0]
# extra points for singular families: brackets the onset of the known _geti2 defect
NORMS_SING = [5.0, 6.0, 10.0, 12.0, 20.0, 45.0, 300.0]
FAMILIES = ["dense", "symneg", "skew", "triu", "jordan", "nilpotent", "singzero",
            "rank1", "stiff", "companion", "ss2", "ss2rb", "nearsing"]
SINGULAR_FAMILIES = {"nilpotent", "singzero", "rank1", "ss2rb", "skew", "jordan"}
HS = [1.0, 0.01, 1e-4, 3.7, 250.0, 0.05]

BRANCHES = ["pade3_i", "pade5_i", "pade7_i", "pade9_i", "pade13_i:s=0", "pade13_i:s>0",
            "geti2:pade", "geti2:direct", "geti2:series", "dispatch:getEPQ1",
            "dispatch:getEPQ2"]
SS_BRANCHES = ["ss:pade3", "ss:pade5", "ss:pade7", "ss:pade9", "ss:pade13:s=0",
               "ss:pade13:s>0"]


# =====================================================================================
# shards
# =====================================================================================

def shards(tier, seed):
    out = []
    na, nb = (10, 4) if tier == "quick" else (24, 8)
    for s in range(na):
        out.append({"part": "expm", "slice": s, "nslice": na})
    for s in range(nb):
        out.append({"part": "ss", "slice": s, "nslice": nb})
    return out


def run_shard(sh, params):
    import numpy as np
    np.random.seed((sh.seed * 1000 + params["slice"]) % (2 ** 31))
    np.seterr(all="ignore")
    from vf.oracles import expm_mp
    if params["slice"] == 0:
        if not expm_mp.selfcheck(quad=(sh.tier == "thorough")):
            raise RuntimeError("expm_mp oracle fails its own cross-check")
        sh.count("mon:oracle-selfcheck")
    if params["part"] == "expm":
        _run_expm(sh, params)
    else:
        _run_ss(sh, params)


# =====================================================================================
# part A: matrices
# =====================================================================================

def make_matrix(fam, n, r):
    """Unscaled matrix of the family (numpy float array) -- may be all zero."""
    import numpy as np
    if fam == "dense":
        return r.standard_normal((n, n))
    if fam == "symneg":
        G = r.standard_normal((n, n))
        return -(G @ G.T) - 0.05 * np.eye(n)
    if fam == "skew":
        G = r.standard_normal((n, n))
        return G - G.T
    if fam == "triu":
        A = np.triu(r.standard_normal((n, n)))
        if r.random() < 0.5:
            A[np.diag_indices(n)] = -np.abs(A[np.diag_indices(n)])
        return A
    if fam == "jordan":
        A = np.zeros((n, n))
        i = 0
        while i < n:
            k = int(r.integers(1, n - i + 1))
            lam = float(r.choice([0.0, -1.0, -0.3, 0.2, -2.5]))
            for j in range(i, i + k):
                A[j, j] = lam
                if j + 1 < i + k:
                    A[j, j + 1] = 1.0
            i += k
        if r.random() < 0.5 and n > 1:       # hide the triangular structure
            p = r.permutation(n)
            A = A[np.ix_(p, p)]
        return A
    if fam == "nilpotent":
        A = np.triu(r.standard_normal((n, n)), 1)
        if r.random() < 0.5 and n > 1:
            p = r.permutation(n)
            A = A[np.ix_(p, p)]
        return A
    if fam == "singzero":
        A = r.standard_normal((n, n))
        k = int(r.integers(1, max(2, n // 2 + 1)))
        mode = int(r.integers(0, 3))
        idx = r.permutation(n)[:k]
        if mode in (0, 2):
            A[idx, :] = 0.0
        if mode in (1, 2):
            A[:, r.permutation(n)[:k]] = 0.0
        return A
    if fam == "rank1":
        u = r.standard_normal((n, 1))
        v = r.standard_normal((1, n))
        if r.random() < 0.3:
            u, v = np.abs(u), np.abs(v)
        return u @ v
    if fam == "stiff":
        if n == 1:
            return np.array([[-1.0]])
        d = -np.logspace(0, 6, n)
        A = np.diag(d)
        if r.random() < 0.4:
            Qm, _ = np.linalg.qr(r.standard_normal((n, n)))
            A = Qm @ A @ Qm.T
        return A
    if fam == "companion":
        roots = []
        while len(roots) < n:
            if n - len(roots) >= 2 and r.random() < 0.6:
                a, b = -r.random() * 1.5, r.random() * 3 + 0.1
                roots += [complex(a, b), complex(a, -b)]
            else:
                roots.append(-r.random() * 2 - 0.01)
        c = np.real(np.poly(roots))
        A = np.zeros((n, n))
        A[0, :] = -c[1:]
        if n > 1:
            A[1:, :-1] = np.eye(n - 1)
        return A
    if fam in ("ss2", "ss2rb"):
        m = max(1, n // 2)
        G = r.standard_normal((m, m))
        K = G @ G.T + 0.1 * np.eye(m)
        if fam == "ss2rb":
            k = int(r.integers(1, m + 1))
            V = np.linalg.qr(r.standard_normal((m, m)))[0][:, :k]
            K = K - V @ (V.T @ K) - (K @ V) @ V.T + V @ (V.T @ K @ V) @ V.T
            K = (K + K.T) / 2
            if r.random() < 0.5:
                K[:k] = 0.0
                K[:, :k] = 0.0
        C = 0.02 * K + 0.05 * np.eye(m) * r.random()
        if fam == "ss2rb" and r.random() < 0.7:
            C = 0.02 * K
        A = np.zeros((2 * m, 2 * m))
        A[:m, m:] = np.eye(m)
        A[m:, :m] = -K
        A[m:, m:] = -C
        return A
    if fam == "nearsing":
        U, _ = np.linalg.qr(r.standard_normal((n, n)))
        V, _ = np.linalg.qr(r.standard_normal((n, n)))
        s = np.exp(r.uniform(-1, 1, n))
        s[-1] = s[0] * 10.0 ** r.uniform(-12, -6)
        return (U * s) @ V.T
    if fam == "zero":
        return np.zeros((n, n))
    raise ValueError(fam)


def build_case(seed, slice_, i, fam, n, target, h):
    """Regenerate (A, tags) from the descriptor; A h has one-norm == target."""
    import numpy as np
    r = core.rng(seed, "C07", "A", slice_, i)
    if fam in ("ss2", "ss2rb") and n % 2:
        n += 1
    A = make_matrix(fam, n, r)
    n = A.shape[0]
    nrm = np.linalg.norm(A, 1)
    if nrm == 0.0:
        return A, r
    if target >= 300 and fam not in ("symneg", "skew", "stiff", "nilpotent", "ss2",
                                     "ss2rb"):
        # keep exp(Ah) inside the float range: remove growth beyond e^60
        ev = np.linalg.eigvals(A * (target / nrm))
        grow = ev.real.max()
        if grow > 60.0:
            A = A - (grow - 60.0) * (nrm / target) * np.eye(n)
            nrm = np.linalg.norm(A, 1)
    A = A * (target / (nrm * h))
    # land exactly on the requested side of the dispatcher threshold
    for _ in range(4):
        got = h * np.linalg.norm(A, 1)
        if got == 0 or abs(got / target - 1) < 1e-12:
            break
        A = A * (target / got)
    return A, r


def expm_cases(tier, slice_, nslice):
    """Deterministic stratified list of (i, fam, n, target, h) for this slice."""
    reps = 1 if tier == "quick" else 12
    out = []
    i = 0
    for rep in range(reps):
        for fi, fam in enumerate(FAMILIES):
            grid = list(NORMS)
            if fam in SINGULAR_FAMILIES:
                grid += NORMS_SING
            for gi, target in enumerate(grid):
                i += 1
                if i % nslice != slice_:
                    continue
                # size and step: deterministic cycles so that every (family, norm)
                # cell sees several n and h over the repetitions
                n = 1 + (i * 7 + rep * 3 + fi) % 10
                h = HS[(i + rep + gi) % len(HS)]
                if fam in ("skew", "nilpotent", "rank1", "singzero", "companion",
                           "nearsing") and n == 1:
                    n = 2 + (i % 5)
                out.append((i, fam, n, target, h))
    # the zero matrix and 1x1 scalars (closed form regime), once per run
    if slice_ == 0:
        out.append((10 ** 6 + 1, "zero", 3, 0.0, 0.5))
        out.append((10 ** 6 + 2, "zero", 1, 0.0, 2.0))
    return out


# -------------------------------------------------------------------------------------
# branch monitor
# -------------------------------------------------------------------------------------

class Trace:
    def __init__(self):
        self.ev = []

    def reset(self):
        self.ev = []


def install_branch_monitor(em, trace):
    """Wrap the Pade helpers, _geti2 and getEPQ1/2 of the module under test."""
    H = em._ExpmIntPadeHelper
    for name in ("pade3_i", "pade5_i", "pade7_i", "pade9_i"):
        orig = getattr(H, name)

        def w(self, h, _o=orig, _n=name):
            trace.ev.append(_n)
            return _o(self, h)
        setattr(H, name, w)
    o13 = H.pade13_scaled_i

    def w13(self, s, h):
        trace.ev.append("pade13_i:s=0" if s == 0 else "pade13_i:s>0")
        trace.ev.append(("s", int(s)))
        return o13(self, s, h)
    H.pade13_scaled_i = w13

    S = em._ExpmPadeHelper_SS
    for name in ("pade3", "pade5", "pade7", "pade9"):
        orig = getattr(S, name)

        def ws(self, _o=orig, _n=name):
            trace.ev.append("ss:" + _n)
            return _o(self)
        setattr(S, name, ws)
    os13 = S.pade13_scaled

    def ws13(self, s):
        trace.ev.append("ss:pade13:s=0" if s == 0 else "ss:pade13:s>0")
        return os13(self, s)
    S.pade13_scaled = ws13

    og = em._geti2

    def wg(H_, E, I, h, pade):
        if pade <= 9:
            trace.ev.append("geti2:pade")
            trace.ev.append(f"geti2:pade{pade}")
            return og(H_, E, I, h, pade)
        with warnings.catch_warnings(record=True) as rec:
            warnings.simplefilter("always")
            try:
                out = og(H_, E, I, h, pade)
            except RuntimeError:
                trace.ev.append("geti2:series")
                trace.ev.append("geti2:series-fail")
                raise
        if any("power series" in str(x.message) for x in rec):
            trace.ev.append("geti2:series")
        else:
            trace.ev.append("geti2:direct")
        return out
    em._geti2 = wg

    for name in ("getEPQ1", "getEPQ2"):
        orig = getattr(em, name)

        def wr(*a, _o=orig, _n=name, **k):
            trace.ev.append("call:" + _n)
            return _o(*a, **k)
        wr.__wrapped__ = orig
        setattr(em, name, wr)


# -------------------------------------------------------------------------------------
# reference with conditioning
# -------------------------------------------------------------------------------------

def _perturb(X, r, mag=1e-13):
    import numpy as np
    return X * (1.0 + mag * r.uniform(-1, 1, np.shape(X)))


class Ref:
    """mp reference of E, I1, I2 (+ P, Q for given B) with perturbation spreads."""

    def __init__(self, A, h, r, dps=50, npert=3):
        import numpy as np
        from vf.oracles import expm_mp
        self.A, self.h, self.dps = A, h, dps
        self.mp0 = expm_mp.expm_ints(A, h, dps)
        self.pert = []
        for _ in range(npert):
            Ak = _perturb(A, r)
            hk = float(h * (1.0 + 1e-13 * r.uniform(-1, 1)))
            self.pert.append((Ak, hk, expm_mp.expm_ints(Ak, hk, dps)))
        self.r = r
        f = expm_mp.to_np
        self.E, self.I1, self.I2 = (f(x) for x in self.mp0)
        self.sig = {}
        for k, nm in enumerate(("E", "I1", "I2")):
            self.sig[nm] = max(float(np.max(np.abs(f(p[2][k]) - f(self.mp0[k]))))
                               for p in self.pert)
        self.finite = all(np.all(np.isfinite(x)) and np.max(np.abs(x)) < 1e250
                          for x in (self.E, self.I1, self.I2))

    def tol(self, nm, want=None, sig=None):
        import numpy as np
        want = getattr(self, nm) if want is None else want
        sig = self.sig[nm] if sig is None else sig
        scale = float(np.max(np.abs(want))) if np.size(want) else 0.0
        return 200.0 * (sig / 1e-13) * EPS + 1e-13 * scale

    def epq(self, order, B, half):
        """(E, P, Q, tolE, tolP, tolQ) as float arrays / scalars for one option set."""
        import numpy as np
        from vf.oracles import expm_mp
        f = expm_mp.to_np
        E0, P0, Q0 = expm_mp.epq_from_ints(*self.mp0, self.h, order, B, half)
        P0f = f(P0)
        Q0f = f(Q0) if Q0 is not None else None
        sP = sQ = 0.0
        for Ak, hk, mpk in self.pert:
            Bk = None if B is None else _perturb(B, self.r)
            _, Pk, Qk = expm_mp.epq_from_ints(*mpk, hk, order, Bk, half)
            sP = max(sP, float(np.max(np.abs(f(Pk) - P0f))))
            if Q0 is not None:
                sQ = max(sQ, float(np.max(np.abs(f(Qk) - Q0f))))
        tolP = self.tol("P", P0f, sP)
        tolQ = self.tol("Q", Q0f, sQ) if Q0 is not None else 0.0
        return self.E, P0f, Q0f, self.tol("E"), tolP, tolQ
