"""C07 -- expmint / getEPQ1 / getEPQ2 / getEPQ_pow / getEPQ and SSModel.c2d / d2c.

Part "expm": E = exp(Ah), I1, I2 and E, P, Q from every route are compared with an mpmath
reference (vf/oracles/expm_mp.py) on matrices of ten structures scaled so that ||Ah||_1
lands on a grid that straddles every algorithm switch; tolerance from conditioning measured
on the oracle (inputs perturbed by 1e-13); route agreement; one-step reproduction of the
exactly sampled response (vf/oracles/lti.py, mp engine); dispatch rule of getEPQ; branch
monitor (which Pade order / squaring count / _geti2 path ran).

Part "ss": SSModel.c2d versus the mp reference of the documented formulas; d2c versus an
independent logm reference (eigen-conditioning encoded in the tolerance); round trip;
sampled-output equality of zoh / zoha / foh models versus the exact response with the
documented state shift; tustin <-> bilinear transform identity on the unit circle.
"""
import math
import warnings

from vf import core

ID = "C07"
LEVEL = "exploration"
RULE = ("expm part: A (n = 1..10) from 13 structure families (dense, symmetric negative "
        "definite, skew, upper triangular, Jordan/defective, nilpotent, zero rows/cols, "
        "rank-1, stiff, companion, 2nd-order state-space with and without rigid-body "
        "modes, zero) scaled so that ||A h||_1 equals a grid value straddling each Pade / "
        "scaling / dispatcher switch (1e-6 ... 1e3), h drawn from 6 decades; each executed "
        "through expmint (geti2 False/True), getEPQ1, getEPQ2, getEPQ_pow, getEPQ with "
        "order {0,1} x B {None, n x r, half}.  ss part: random stable SISO/MIMO systems "
        "(cond(eigvecs) <= 1e4, |lambda| h < 2.9 with a quarter above pi/2), 4 methods x prewarp {0, None, w0}, d2c with the other prewarp.  "
        "distinct = distinct (family, n, norm, h, generator index) descriptors; "
        "non-trivial = A != 0 and finite reference (expm), n >= 1 states with non-zero "
        "B, C (ss)")
ASSUMPTIONS = [
    "mpmath arithmetic at 50 digits (Taylor + exact doubling formulas, cross-checked "
    "against mp.expm of Van Loan's augmented matrix, mp.quad on 2x2 cases and at 80 "
    "digits on a sample) is the truth for E, I1, I2",
    "conditioning of each case is estimated from 3 random relative input perturbations "
    "of 1e-13 applied to the oracle; a backward-stable implementation stays within "
    "200 x that spread x eps/1e-13",
    "d2c reference = scipy.linalg.logm (Schur based) cross-checked against an mpmath "
    "eigen-decomposition on a sample; pyYeti documents an eigenvector-based formula, so "
    "its tolerance carries cond(eigvecs) computed by numpy from the *input*",
    "one-norm estimates inside scipy's _ExpmPadeHelper are randomised only through "
    "numpy's global RNG, which each shard seeds",
]
MIN_NONTRIVIAL = {"quick": 400, "thorough": 5000}
TIMEOUT = {"quick": 1500, "thorough": 10800}
AMBIENT = {"tests": ['test_ode.py'], "monitors": ['epq'], "quick": False}

EPS = 2.220446049250313e-16
THETA9 = 2.097847961257068
# ||A h||_1 targets: both sides of every switch in expmint/_expm_SS (thresholds on the
# eta/d-values: 1.4956e-2, 0.25394, 0.95042, 2.09785, 4.25) and of the getEPQ dispatcher
NORMS = [1e-6, 1e-3, 1.4e-2, 1.6e-2, 0.1, 0.25, 0.26, 0.6, 0.95, 0.96, 1.5,
         THETA9 * (1 - 1e-9), THETA9 * (1 + 1e-9), 2.1, 3.0, 4.25, 4.3, 8.0, 16.0,
         30.0, 100.0, 1000.0]
# extra points for singular families: brackets the onset of the known _geti2 defect
NORMS_SING = [5.0, 6.0, 10.0, 12.0, 20.0, 45.0, 300.0]
FAMILIES = ["dense", "symneg", "skew", "triu", "jordan", "nilpotent", "singzero",
            "rank1", "stiff", "companion", "ss2", "ss2rb", "nearsing"]
SINGULAR_FAMILIES = {"nilpotent", "singzero", "rank1", "ss2rb", "skew", "jordan"}
HS = [1.0, 0.01, 1e-4, 3.7, 250.0, 0.05]

BRANCHES = ["pade3_i", "pade5_i", "pade7_i", "pade9_i", "pade13_i:s=0", "pade13_i:s>0",
            "geti2:pade", "geti2:direct", "geti2:series", "dispatch:getEPQ1",
            "dispatch:getEPQ2"]
SS_BRANCHES = ["ss:pade3", "ss:pade5", "ss:pade7", "ss:pade9", "ss:pade13:s=0",
               "ss:pade13:s>0"]


# =====================================================================================
# shards
# =====================================================================================

def shards(tier, seed):
    out = []
    na, nb = (10, 4) if tier == "quick" else (24, 8)
    for s in range(na):
        out.append({"part": "expm", "slice": s, "nslice": na})
    for s in range(nb):
        out.append({"part": "ss", "slice": s, "nslice": nb})
    return out


def run_shard(sh, params):
    import numpy as np
    np.random.seed((sh.seed * 1000 + params["slice"]) % (2 ** 31))
    np.seterr(all="ignore")
    from vf.oracles import expm_mp
    if params["slice"] == 0:
        if not expm_mp.selfcheck(quad=(sh.tier == "thorough")):
            raise RuntimeError("expm_mp oracle fails its own cross-check")
        sh.count("mon:oracle-selfcheck")
    if params["part"] == "expm":
        _run_expm(sh, params)
    else:
        _run_ss(sh, params)


# =====================================================================================
# part A: matrices
# =====================================================================================

def make_matrix(fam, n, r):
    """Unscaled matrix of the family (numpy float array) -- may be all zero."""
    import numpy as np
    if fam == "dense":
        return r.standard_normal((n, n))
    if fam == "symneg":
        G = r.standard_normal((n, n))
        return -(G @ G.T) - 0.05 * np.eye(n)
    if fam == "skew":
        G = r.standard_normal((n, n))
        return G - G.T
    if fam == "triu":
        A = np.triu(r.standard_normal((n, n)))
        if r.random() < 0.5:
            A[np.diag_indices(n)] = -np.abs(A[np.diag_indices(n)])
        return A
    if fam == "jordan":
        A = np.zeros((n, n))
        i = 0
        while i < n:
            k = int(r.integers(1, n - i + 1))
            lam = float(r.choice([0.0, -1.0, -0.3, 0.2, -2.5]))
            for j in range(i, i + k):
                A[j, j] = lam
                if j + 1 < i + k:
                    A[j, j + 1] = 1.0
            i += k
        if r.random() < 0.5 and n > 1:       # hide the triangular structure
            p = r.permutation(n)
            A = A[np.ix_(p, p)]
        return A
    if fam == "nilpotent":
        A = np.triu(r.standard_normal((n, n)), 1)
        if r.random() < 0.5 and n > 1:
            p = r.permutation(n)
            A = A[np.ix_(p, p)]
        return A
    if fam == "singzero":
        A = r.standard_normal((n, n))
        k = int(r.integers(1, max(2, n // 2 + 1)))
        mode = int(r.integers(0, 3))
        idx = r.permutation(n)[:k]
        if mode in (0, 2):
            A[idx, :] = 0.0
        if mode in (1, 2):
            A[:, r.permutation(n)[:k]] = 0.0
        return A
    if fam == "rank1":
        u = r.standard_normal((n, 1))
        v = r.standard_normal((1, n))
        if r.random() < 0.3:
            u, v = np.abs(u), np.abs(v)
        return u @ v
    if fam == "stiff":
        if n == 1:
            return np.array([[-1.0]])
        d = -np.logspace(0, 6, n)
        A = np.diag(d)
        if r.random() < 0.4:
            Qm, _ = np.linalg.qr(r.standard_normal((n, n)))
            A = Qm @ A @ Qm.T
        return A
    if fam == "companion":
        roots = []
        while len(roots) < n:
            if n - len(roots) >= 2 and r.random() < 0.6:
                a, b = -r.random() * 1.5, r.random() * 3 + 0.1
                roots += [complex(a, b), complex(a, -b)]
            else:
                roots.append(-r.random() * 2 - 0.01)
        c = np.real(np.poly(roots))
        A = np.zeros((n, n))
        A[0, :] = -c[1:]
        if n > 1:
            A[1:, :-1] = np.eye(n - 1)
        return A
    if fam in ("ss2", "ss2rb"):
        m = max(1, n // 2)
        G = r.standard_normal((m, m))
        K = G @ G.T + 0.1 * np.eye(m)
        if fam == "ss2rb":
            k = int(r.integers(1, m + 1))
            V = np.linalg.qr(r.standard_normal((m, m)))[0][:, :k]
            K = K - V @ (V.T @ K) - (K @ V) @ V.T + V @ (V.T @ K @ V) @ V.T
            K = (K + K.T) / 2
            if r.random() < 0.5:
                K[:k] = 0.0
                K[:, :k] = 0.0
        C = 0.02 * K + 0.05 * np.eye(m) * r.random()
        if fam == "ss2rb" and r.random() < 0.7:
            C = 0.02 * K
        A = np.zeros((2 * m, 2 * m))
        A[:m, m:] = np.eye(m)
        A[m:, :m] = -K
        A[m:, m:] = -C
        return A
    if fam == "nearsing":
        U, _ = np.linalg.qr(r.standard_normal((n, n)))
        V, _ = np.linalg.qr(r.standard_normal((n, n)))
        s = np.exp(r.uniform(-1, 1, n))
        s[-1] = s[0] * 10.0 ** r.uniform(-15.5, -6)     # cond(A) 1e6 ... 1/eps
        return (U * s) @ V.T
    if fam == "zero":
        return np.zeros((n, n))
    raise ValueError(fam)


def build_case(seed, slice_, i, fam, n, target, h):
    """Regenerate (A, tags) from the descriptor; A h has one-norm == target."""
    import numpy as np
    r = core.rng(seed, "C07", "A", slice_, i)
    if fam in ("ss2", "ss2rb") and n % 2:
        n += 1
    A = make_matrix(fam, n, r)
    n = A.shape[0]
    nrm = np.linalg.norm(A, 1)
    if nrm == 0.0:
        return A, r
    if target >= 300 and fam not in ("symneg", "skew", "stiff", "nilpotent", "ss2",
                                     "ss2rb"):
        # keep exp(Ah) inside the float range: remove growth beyond e^60
        ev = np.linalg.eigvals(A * (target / nrm))
        grow = ev.real.max()
        if grow > 60.0:
            if fam in SINGULAR_FAMILIES or fam == "nearsing":
                # a shift would destroy the (near-)singularity: flip the sign instead
                # when that tames the growth, else leave it (the oracle refuses cases
                # whose reference leaves the float range)
                if (-ev.real).max() <= 60.0:
                    A = -A
            else:
                A = A - (grow - 60.0) * (nrm / target) * np.eye(n)
                nrm = np.linalg.norm(A, 1)
    A = A * (target / (nrm * h))
    # land exactly on the requested side of the dispatcher threshold
    for _ in range(4):
        got = h * np.linalg.norm(A, 1)
        if got == 0 or abs(got / target - 1) < 1e-12:
            break
        A = A * (target / got)
    return A, r


def expm_cases(tier, slice_, nslice):
    """Deterministic stratified list of (i, fam, n, target, h) for this slice."""
    reps = 2 if tier == "quick" else 30
    out = []
    i = 0
    for rep in range(reps):
        for fi, fam in enumerate(FAMILIES):
            grid = list(NORMS)
            if fam in SINGULAR_FAMILIES:
                grid += NORMS_SING
            for gi, target in enumerate(grid):
                i += 1
                if i % nslice != slice_:
                    continue
                # size and step: deterministic cycles so that every (family, norm)
                # cell sees several n and h over the repetitions
                n = 1 + (i * 7 + rep * 3 + fi) % 10
                h = HS[(i + rep + gi) % len(HS)]
                if fam in ("skew", "nilpotent", "rank1", "singzero", "companion",
                           "nearsing") and n == 1:
                    n = 2 + (i % 5)
                out.append((i, fam, n, target, h))
    # the zero matrix and 1x1 scalars (closed form regime), once per run
    if slice_ == 0:
        out.append((10 ** 6 + 1, "zero", 3, 0.0, 0.5))
        out.append((10 ** 6 + 2, "zero", 1, 0.0, 2.0))
    return out


# -------------------------------------------------------------------------------------
# branch monitor
# -------------------------------------------------------------------------------------

class Trace:
    def __init__(self):
        self.ev = []

    def reset(self):
        self.ev = []


def install_branch_monitor(em, trace):
    """Wrap the Pade helpers, _geti2 and getEPQ1/2 of the module under test."""
    H = em._ExpmIntPadeHelper
    for name in ("pade3_i", "pade5_i", "pade7_i", "pade9_i"):
        orig = getattr(H, name)

        def w(self, h, _o=orig, _n=name):
            trace.ev.append(_n)
            return _o(self, h)
        setattr(H, name, w)
    o13 = H.pade13_scaled_i

    def w13(self, s, h):
        trace.ev.append("pade13_i:s=0" if s == 0 else "pade13_i:s>0")
        trace.ev.append(("s", int(s)))
        return o13(self, s, h)
    H.pade13_scaled_i = w13

    S = em._ExpmPadeHelper_SS
    for name in ("pade3", "pade5", "pade7", "pade9"):
        orig = getattr(S, name)

        def ws(self, _o=orig, _n=name):
            trace.ev.append("ss:" + _n)
            return _o(self)
        setattr(S, name, ws)
    os13 = S.pade13_scaled

    def ws13(self, s):
        trace.ev.append("ss:pade13:s=0" if s == 0 else "ss:pade13:s>0")
        return os13(self, s)
    S.pade13_scaled = ws13

    og = em._geti2

    def wg(H_, E, I, h, pade):
        if pade <= 9:
            trace.ev.append("geti2:pade")
            trace.ev.append(f"geti2:pade{pade}")
            return og(H_, E, I, h, pade)
        with warnings.catch_warnings(record=True) as rec:
            warnings.simplefilter("always")
            try:
                out = og(H_, E, I, h, pade)
            except RuntimeError:
                trace.ev.append("geti2:series")
                trace.ev.append("geti2:series-fail")
                raise
        if any("power series" in str(x.message) for x in rec):
            trace.ev.append("geti2:series")
        else:
            trace.ev.append("geti2:direct")
        return out
    em._geti2 = wg

    for name in ("getEPQ1", "getEPQ2"):
        orig = getattr(em, name)

        def wr(*a, _o=orig, _n=name, **k):
            trace.ev.append("call:" + _n)
            return _o(*a, **k)
        wr.__wrapped__ = orig
        setattr(em, name, wr)


# -------------------------------------------------------------------------------------
# reference with conditioning
# -------------------------------------------------------------------------------------

def _perturb(X, r, mag=1e-13):
    """Element-wise relative perturbation (for B, C, D, u, h: the maps are linear)."""
    import numpy as np
    return X * (1.0 + mag * r.uniform(-1, 1, np.shape(X)))


def _perturb_norm(A, r, mag=1e-13):
    """Norm-wise perturbation of a matrix argument of exp/log: every entry moves by
    mag * max(|a_ij|, ||A||_1 / n).  Scaling-and-squaring / eigen-decomposition based
    algorithms are at best norm-wise backward stable (their legitimate error grows like
    eps ||A h||), so this -- not an element-wise relative perturbation, which leaves
    the slow entries of a graded or triangular matrix untouched -- is the perturbation
    class against which "round-off" has to be measured."""
    import numpy as np
    A = np.asarray(A, float)
    n = A.shape[0]
    lvl = np.maximum(np.abs(A), np.linalg.norm(A, 1) / n)
    return A + mag * lvl * r.uniform(-1, 1, A.shape)


class Ref:
    """mp reference of E, I1, I2 (+ P, Q for given B) with perturbation spreads."""

    def __init__(self, A, h, r, dps=50, npert=3):
        import numpy as np
        from vf.oracles import expm_mp
        self.A, self.h, self.dps = A, h, dps
        self.norm1 = float(abs(h) * np.linalg.norm(A, 1))
        self.mp0 = expm_mp.expm_ints(A, h, dps)
        self.pert = []
        for _ in range(npert):
            Ak = _perturb_norm(A, r)
            hk = float(h * (1.0 + 1e-13 * r.uniform(-1, 1)))
            self.pert.append((Ak, hk, expm_mp.expm_ints(Ak, hk, dps)))
        self.r = r
        f = expm_mp.to_np
        self.E, self.I1, self.I2 = (f(x) for x in self.mp0)
        self.sig = {}
        for k, nm in enumerate(("E", "I1", "I2")):
            self.sig[nm] = max(float(np.max(np.abs(f(p[2][k]) - f(self.mp0[k]))))
                               for p in self.pert)
        self.finite = all(np.all(np.isfinite(x)) and np.max(np.abs(x)) < 1e250
                          for x in (self.E, self.I1, self.I2))

    def tol(self, nm, want=None, sig=None):
        """200 x measured conditioning x eps  +  (1e-13 + 20 eps ||Ah||_1) x scale.

        The last term is the legitimate error growth of scaling and squaring (its
        backward error is relative to the norm of the matrix that is exponentiated --
        for getEPQ2 the augmented one -- even when the requested block, e.g. I1 or I2
        of a decaying system, is itself insensitive to A)."""
        import numpy as np
        want = getattr(self, nm) if want is None else want
        sig = self.sig[nm] if sig is None else sig
        scale = float(np.max(np.abs(want))) if np.size(want) else 0.0
        return 200.0 * (sig / 1e-13) * EPS + (1e-13 + 20.0 * EPS * self.norm1) * scale

    def epq(self, order, B, half):
        """(E, P, Q, tolE, tolP, tolQ) as float arrays / scalars for one option set."""
        import numpy as np
        from vf.oracles import expm_mp
        f = expm_mp.to_np
        E0, P0, Q0 = expm_mp.epq_from_ints(*self.mp0, self.h, order, B, half)
        P0f = f(P0)
        Q0f = f(Q0) if Q0 is not None else None
        sP = sQ = 0.0
        for Ak, hk, mpk in self.pert:
            Bk = None if B is None else _perturb(B, self.r)
            _, Pk, Qk = expm_mp.epq_from_ints(*mpk, hk, order, Bk, half)
            sP = max(sP, float(np.max(np.abs(f(Pk) - P0f))))
            if Q0 is not None:
                sQ = max(sQ, float(np.max(np.abs(f(Qk) - Q0f))))
        tolP = self.tol("P", P0f, sP)
        tolQ = self.tol("Q", Q0f, sQ) if Q0 is not None else 0.0
        return self.E, P0f, Q0f, self.tol("E"), tolP, tolQ


# -------------------------------------------------------------------------------------
# part A runner
# -------------------------------------------------------------------------------------

def _nil_index(A):
    """(nilpotent?, index) by exact repeated multiplication of the normalised matrix."""
    import numpy as np
    n = A.shape[0]
    s = np.abs(A).max()
    if s == 0:
        return True, 1
    X = A / s
    P = X.copy()
    k = 1
    while P.any() and k <= n:
        P = P @ X
        k += 1
    return (not P.any()), k


def _relerr(got, want):
    import numpy as np
    got = np.asarray(got, float)
    want = np.asarray(want, float)
    if got.shape != want.shape:
        return float("inf")
    sc = float(np.max(np.abs(want))) if want.size else 0.0
    e = np.abs(got - want)
    if not np.all(np.isfinite(e)):
        return float("inf")
    e = float(e.max()) if e.size else 0.0
    return e / sc if sc > 0 else (0.0 if e == 0 else float("inf"))


def _defect_domain(tags):
    """Mechanism part of the two open _geti2 findings (findings/C07.json) -- used only to
    report the margins of the *other* cases separately; the verdict never uses it."""
    if tags.get("route") not in ("expmint-geti2", "getEPQ1-order1"):
        return False
    p = tags.get("geti2_path")
    if p == "direct":
        return tags.get("smin_h", 1.0) < 1.0
    if p in ("series", "series-fail"):
        return tags.get("norm1", 0.0) > 8.5
    return False


def _check(sh, kind, got, want, tol, case, tags, src_scale=None):
    """check_close with the relative error recorded as a tag (symptom for findings)."""
    import numpy as np
    t = dict(tags)
    if tags.get("geti2_path") == "direct" and tags.get("smin_h", 0) > 0:
        # diagnostic: the worst-conditioned A*h for which pyYeti's own accuracy guard let
        # the direct solve for I2 stand (bounds the domain of the open direct-solve finding)
        sh.worst("diag:cond(Ah)-when-geti2-direct", tags["norm1"] / tags["smin_h"])
    if not _defect_domain(tags):
        try:
            e = np.abs(np.asarray(got, float) - np.asarray(want, float))
            tl = np.broadcast_to(np.asarray(tol, float), e.shape)
            with np.errstate(all="ignore"):
                q = np.where(tl > 0, e / tl, np.where(e == 0, 0.0, np.inf))
            sh.worst(kind + "[outside-known-defect-domain]",
                     float(np.max(q)) if e.size else 0.0)
        except Exception:
            pass
    g = np.asarray(got, float)
    w = np.asarray(want, float)
    if g.shape == w.shape and src_scale:
        e = np.abs(g - w)
        t["relerr"] = float(e.max()) / src_scale if np.all(np.isfinite(e)) else float("inf")
    else:
        t["relerr"] = _relerr(got, want)
    return sh.check_close(kind, got, want, tol, case, t)


def _run_expm(sh, params):
    import numpy as np
    from pyyeti import expmint as em
    from vf.oracles import lti
    trace = Trace()
    install_branch_monitor(em, trace)
    slice_, nslice = params["slice"], params["nslice"]

    def note_branches():
        for ev in trace.ev:
            if isinstance(ev, str) and (ev in BRANCHES or ev in SS_BRANCHES
                                        or ev.startswith("geti2:pade")
                                        or ev == "geti2:series-fail"):
                sh.count("branch:" + ev)
            elif isinstance(ev, tuple):
                sh.count("squarings:s=%d" % min(ev[1], 12))

    def call(route, f, case, tags):
        """Run one pyYeti call; returns result or None (exception reported)."""
        trace.reset()
        try:
            with warnings.catch_warnings():
                warnings.simplefilter("ignore")
                out = f()
        except Exception as e:
            note_branches()
            t = dict(tags)
            t.update(exc_type=type(e).__name__,
                     maxloops="maximum loops" in str(e),
                     geti2_path=_geti2_path(trace))
            sh.violation("exception:" + route, case, {"exc": repr(e)[:300]}, t)
            sh.count("mon:exception-free")
            return None
        sh.count("mon:exception-free")
        note_branches()
        return out

    for (i, fam, n, target, h) in expm_cases(sh.tier, slice_, nslice):
        A, r = build_case(sh.seed, slice_, i, fam, n, target, h)
        n = A.shape[0]
        case = {"part": "expm", "slice": slice_, "i": i, "fam": fam, "n": n,
                "target_norm": target, "h": h,
                "regen": "vf.props.c07.build_case(seed, slice, i, fam, n, target_norm, h)"}
        if n <= 4:
            case["A"] = A.tolist()
        norm1 = float(h * np.linalg.norm(A, 1))
        sv = np.linalg.svd(A * h, compute_uv=False)
        nil, nil_index = _nil_index(A)
        tags0 = {"fam": fam, "n": n, "norm1": norm1, "h": h,
                 "singular": bool(sv[0] == 0 or sv[-1] <= 1e-12 * sv[0]),
                 "smin_h": float(sv[-1]), "nilpotent": bool(nil),
                 "nil_index": int(nil_index)}
        try:
            ref = Ref(A, h, r)
        except ArithmeticError:
            sh.refused += 1
            continue
        if not ref.finite:
            sh.refused += 1
            sh.count("refused:nonfinite-reference")
            continue
        sh.case([fam, n, target, h, i, slice_], nontrivial=bool(A.any()), sample=case)
        sh.count("family:" + fam)
        sh.count("normcell:%g" % (target if abs(target / THETA9 - 1) > 1e-6
                                  else (2.0978 if target < THETA9 else 2.09781)))
        i2scale = float(np.max(np.abs(ref.I2)))
        # symptom bound of the unscaled series: n (1+||Ah||) e^{||Ah||} h^2 eps / max|I2|
        # (kept finite: the findings predicate multiplies it)
        lg = (2 * math.log(h) + norm1 + math.log(n * (1 + norm1))
              - (math.log(i2scale) if i2scale > 0 else -700.0))
        tags0["series_amp"] = math.exp(min(lg, 690.0))

        # oracle precision cross-check on a sample: 50 vs 80 digits, and the augmented
        # mp.expm engine on small ones
        if i % 9 == 0:
            from vf.oracles import expm_mp
            hi = [expm_mp.to_np(x) for x in expm_mp.expm_ints(A, h, 80)]
            for nm, x in zip(("E", "I1", "I2"), hi):
                sc = float(np.max(np.abs(x))) or 1.0
                sh.check_close("oracle-precision", getattr(ref, nm), x, 1e-15 * sc,
                               case, tags0)
            if n <= 5:
                au = [expm_mp.to_np(x) for x in expm_mp.expm_ints_aug(A, h, 50)]
                for nm, x in zip(("E", "I1", "I2"), au):
                    sc = float(np.max(np.abs(x))) or 1.0
                    sh.check_close("oracle-augmented", getattr(ref, nm), x, 1e-15 * sc,
                                   case, tags0)

        # ---- expmint ---------------------------------------------------------------
        t = dict(tags0, route="expmint", order=None)
        out = call("expmint", lambda: em.expmint(A, h), case, t)
        if out is not None:
            if len(out) != 2:
                sh.violation("expmint:arity", case, {"len": len(out)}, t)
            else:
                _check(sh, "expmint:E", out[0], ref.E, ref.tol("E"), case, t)
                _check(sh, "expmint:I1", out[1], ref.I1, ref.tol("I1"), case, t)
        Ain = A.tolist() if i % 5 == 0 else A       # list input is documented
        t = dict(tags0, route="expmint-geti2", order=1)
        out = call("expmint", lambda: em.expmint(Ain, h, True), case, t)
        gpath = _geti2_path(trace)
        t["geti2_path"] = gpath
        if out is not None:
            _check(sh, "expmint-geti2:E", out[0], ref.E, ref.tol("E"), case, t)
            _check(sh, "expmint-geti2:I1", out[1], ref.I1, ref.tol("I1"), case, t)
            _check(sh, "expmint-geti2:I2", out[2], ref.I2, ref.tol("I2"), case, t)
            sh.count("i2path:" + str(gpath) + (":singular" if t["singular"] else ""))

        # ---- getEPQ variants ---------------------------------------------------------
        r_in = int(r.integers(1, 4))
        Bmat = r.standard_normal((n, r_in))
        bkinds = [("none", None, False), ("B", Bmat, False)]
        if n % 2 == 0:
            bkinds.append(("half", None, True))
            if i % 3 == 0:
                # documented: when B is given, `half` is ignored
                bkinds.append(("B+half", Bmat, True))
        x0 = r.standard_normal(n)
        for order in (0, 1):
            for bkind, B, half in bkinds:
                Eref, Pref, Qref, tolE, tolP, tolQ = ref.epq(order, B, half)
                bnorm = 1.0 if B is None else float(np.abs(B).sum(axis=0).max())
                src = (i2scale / h if order == 1 else float(np.max(np.abs(ref.I1)))) \
                    * max(bnorm, 1e-300)
                results = {}
                routes = ["getEPQ1", "getEPQ2", "getEPQ"]
                if norm1 <= 4.31:
                    routes.append("getEPQ_pow")
                for route in routes:
                    t = dict(tags0, route=f"{route}-order{order}", order=order,
                             bkind=bkind, fn=route)
                    fn = getattr(em, route)
                    out = call(route, lambda: fn(A, h, order=order, B=B, half=half),
                               case, t)
                    ev = list(trace.ev)
                    if route in ("getEPQ1", "getEPQ"):
                        t["geti2_path"] = _geti2_path(trace)
                    if route == "getEPQ":
                        called = [e[5:] for e in ev if isinstance(e, str)
                                  and e.startswith("call:")]
                        want = "getEPQ1" if norm1 <= THETA9 else "getEPQ2"
                        # documented: 1-norm of A*h below 2.0978... -> getEPQ1 else 2
                        if abs(norm1 / THETA9 - 1) > 1e-13:
                            sh.check_equal("dispatch", called, [want], case, t)
                            if called:
                                sh.count("branch:dispatch:" + called[0])
                    if out is None:
                        continue
                    if len(out) != 3:
                        sh.violation(f"{route}:arity", case, {"len": len(out)}, t)
                        continue
                    E, P, Q = out
                    extra = 0.0
                    if route == "getEPQ_pow":
                        # unscaled power series: error relative to the terms added
                        extra = 64 * EPS * math.exp(norm1)
                    _check(sh, f"{route}:E", E, Eref, tolE + extra, case, t)
                    _check(sh, f"{route}:P", P, Pref,
                           tolP + extra * h * bnorm, case, t, src)
                    if order == 1:
                        _check(sh, f"{route}:Q", Q, Qref,
                               tolQ + extra * h * bnorm, case, t, src)
                    else:
                        sh.check_equal(f"{route}:Q-order0",
                                       bool(np.ndim(Q) == 0 and Q == 0.0), True, case, t)
                    results[route] = (E, P, Q, t)
                # route agreement (explicit; each route has also met the reference)
                if "getEPQ1" in results and "getEPQ2" in results:
                    a, b = results["getEPQ1"], results["getEPQ2"]
                    t = dict(a[3], route=f"getEPQ1-order{order}", other="getEPQ2")
                    _check(sh, "agree:getEPQ1~getEPQ2:E", a[0], b[0], 2 * tolE, case, t)
                    _check(sh, "agree:getEPQ1~getEPQ2:P", a[1], b[1], 2 * tolP, case, t,
                           src)
                    if order == 1:
                        _check(sh, "agree:getEPQ1~getEPQ2:Q", a[2], b[2], 2 * tolQ,
                               case, t, src)
                if "getEPQ" in results:
                    # the dispatcher must return exactly what the documented route returns
                    want = "getEPQ1" if norm1 <= THETA9 else "getEPQ2"
                    if want in results and abs(norm1 / THETA9 - 1) > 1e-13:
                        a, b = results["getEPQ"], results[want]
                        same = all(np.array_equal(np.asarray(x), np.asarray(y))
                                   for x, y in zip(a[:3], b[:3]))
                        sh.check_equal("agree:getEPQ==dispatched-route", same, True,
                                       case, a[3])
                if "getEPQ_pow" in results and "getEPQ1" in results:
                    a, b = results["getEPQ_pow"], results["getEPQ1"]
                    ex = 64 * EPS * math.exp(norm1)
                    t = dict(b[3], other="getEPQ_pow")
                    _check(sh, "agree:getEPQ_pow~getEPQ1:P", a[1], b[1],
                           2 * tolP + ex * h * bnorm, case, t, src)
                # one discrete step reproduces the exactly sampled response
                rr = n if (B is None and not half) else (n // 2 if B is None else r_in)
                if results and n + 2 * rr <= 12 and (i + order) % 2 == 0:
                    if B is None:
                        Bc = np.eye(n)[:, :rr]
                    else:
                        Bc = B
                    u = r.standard_normal((rr, 2))
                    try:
                        xs = lti.simulate_first_order(A, Bc, u, h, x0=x0, order=order,
                                                      dps=40)[:, 1]
                    except Exception:
                        xs = None
                    if xs is not None and np.all(np.isfinite(xs)):
                        mag = (np.abs(Eref) @ np.abs(x0) + np.abs(Pref) @ np.abs(u[:, 0])
                               + (np.abs(Qref) @ np.abs(u[:, 1]) if order == 1 else 0))
                        tol1 = (tolE * np.abs(x0).sum() + tolP * np.abs(u[:, 0]).sum()
                                + (tolQ * np.abs(u[:, 1]).sum() if order == 1 else 0)
                                + 1e-13 * float(mag.max()))
                        # oracle-vs-oracle: expm_mp's E,P,Q against lti's Van Loan step
                        xo = Eref @ x0 + Pref @ u[:, 0] + (Qref @ u[:, 1]
                                                          if order == 1 else 0)
                        sh.check_close("oracle-onestep", xo, xs, tol1, case,
                                       dict(tags0, order=order, bkind=bkind))
                        for route, (E, P, Q, t) in results.items():
                            x1 = E @ x0 + P @ u[:, 0] + (Q @ u[:, 1] if order == 1 else 0)
                            extra = (64 * EPS * math.exp(norm1) * float(mag.max())
                                     if route == "getEPQ_pow" else 0.0)
                            # error scale of the P/Q contribution (symptom bound of the
                            # known _geti2 findings is expressed against it)
                            usum = float(np.abs(u[:, 0]).sum()
                                         + (np.abs(u[:, 1]).sum() if order == 1 else 0))
                            _check(sh, f"onestep:{route}", x1, xs, tol1 + extra, case,
                                   t, (src * usum) or None)


def _geti2_path(trace):
    p = None
    for e in trace.ev:
        if isinstance(e, str) and e.startswith("geti2:"):
            if e == "geti2:series-fail":
                return "series-fail"
            if e in ("geti2:pade", "geti2:direct", "geti2:series"):
                p = e[6:]
    return p


# =====================================================================================
# part B: SSModel.c2d / d2c
# =====================================================================================

METHODS = ["zoh", "zoha", "foh", "tustin"]


def make_system(r):
    """Random stable MIMO system with cond(eigvecs) <= 1e4 and max|lambda| h < 2.9.

    Returns dict(A, B, C, D, h, kind, theta, condV)."""
    import numpy as np
    for attempt in range(40):
        n = int(r.integers(1, 9))
        nin = int(r.integers(1, 4))
        nout = int(r.integers(1, 4))
        lam = []
        blocks = []
        while len(lam) < n:
            if n - len(lam) >= 2 and r.random() < 0.6:
                w = float(np.exp(r.uniform(np.log(0.05), 0.0)))
                z = float(np.exp(r.uniform(np.log(0.005), np.log(0.7))))
                a, b = -z * w, w * math.sqrt(1 - z * z)
                lam += [complex(a, b), complex(a, -b)]
                blocks.append(np.array([[a, b], [-b, a]]))
            else:
                a = -float(np.exp(r.uniform(np.log(0.02), 0.0)))
                lam.append(complex(a, 0))
                blocks.append(np.array([[a]]))
        L = np.zeros((n, n))
        k = 0
        for b in blocks:
            m = b.shape[0]
            L[k:k + m, k:k + m] = b
            k += m
        kind = ["modal", "orth", "sim", "sim", "companion"][int(r.integers(0, 5))]
        if attempt > 30:
            kind = "orth"
        if kind == "modal":
            A = L
        elif kind == "orth":
            Qm, _ = np.linalg.qr(r.standard_normal((n, n)))
            A = Qm @ L @ Qm.T
        elif kind == "sim":
            U, _ = np.linalg.qr(r.standard_normal((n, n)))
            V, _ = np.linalg.qr(r.standard_normal((n, n)))
            sv = np.logspace(0, r.uniform(0, 2.5), n)
            T = (U * sv) @ V.T
            A = T @ L @ np.linalg.inv(T)
        else:
            c = np.real(np.poly(lam))
            A = np.zeros((n, n))
            A[0, :] = -c[1:]
            if n > 1:
                A[1:, :-1] = np.eye(n - 1)
        wscale = float(r.choice([1.0, 1.0, 40.0, 1e3, 0.02]))
        A = A * wscale
        ev, V = np.linalg.eig(A)
        condV = float(np.linalg.cond(V))
        if not np.isfinite(condV) or condV > 1e4:
            continue
        if len(ev) > 1:
            d = np.abs(ev[:, None] - ev[None, :]) + np.eye(len(ev)) * 1e300
            if d.min() < 1e-3 * np.abs(ev).max():
                continue
        theta = float(np.exp(r.uniform(np.log(0.003), np.log(1.5))))
        if r.random() < 0.25:
            # z-plane poles with negative real part: Im(lambda) h in (pi/2, pi)
            theta = float(r.uniform(1.6, 2.9))
        h = theta / float(np.abs(ev).max())
        B = r.standard_normal((n, nin))
        C = r.standard_normal((nout, n))
        D = r.standard_normal((nout, nin)) if r.random() < 0.8 else np.zeros((nout, nin))
        return dict(A=A, B=B, C=C, D=D, h=h, kind=kind, theta=theta, condV=condV)
    raise RuntimeError("generator could not satisfy the eigenvector-conditioning cap")


def _vl_float(A, h):
    """E, I1, I2 in float64 from scipy expm of Van Loan's 3n x 3n matrix."""
    import numpy as np
    from scipy.linalg import expm
    n = A.shape[0]
    Z = np.zeros((3 * n, 3 * n))
    Z[:n, :n] = A
    Z[:n, n:2 * n] = np.eye(n)
    Z[n:2 * n, 2 * n:] = np.eye(n)
    X = expm(Z * h)
    E = X[:n, :n]
    I1 = X[:n, n:2 * n]
    return E, I1, h * I1 - X[:n, 2 * n:]


def c2d_formulas(E, I1, I2, h, B, C, D, method):
    """Documented c2d maps, written on plain arrays (works for mp matrices too)."""
    if method == "zoh":
        return E, I1 * B, C, D, None
    if method == "zoha":
        P = (I1 * B) / 2 if hasattr(I1, "rows") else (I1 @ B) / 2
        if hasattr(I1, "rows"):
            return E, P + E * P, C, D + C * P, P
        return E, P + E @ P, C, D + C @ P, P
    if method == "foh":
        if hasattr(I1, "rows"):
            P = (I2 / h) * B
            Q = (I1 - I2 / h) * B
            return E, P + E * Q, C, D + C * Q, Q
        P = (I2 / h) @ B
        Q = (I1 - I2 / h) @ B
        return E, P + E @ Q, C, D + C @ Q, Q
    raise ValueError(method)


def c2d_ref_mp(S, h, method, mp_ints):
    """(Az, Bz, Cz, Dz, shift) float arrays from mp E, I1, I2."""
    from vf.oracles import expm_mp
    import mpmath
    E, I1, I2 = mp_ints
    Bm, Cm, Dm = expm_mp.to_mp(S["B"]), expm_mp.to_mp(S["C"]), expm_mp.to_mp(S["D"])
    with mpmath.mp.workdps(50):
        hh = mpmath.mpf(float(h))
        if method == "zoh":
            out = (E, I1 * Bm, Cm, Dm, None)
        else:
            out = c2d_formulas(E, I1, I2, hh, Bm, Cm, Dm, method)
        return tuple(None if x is None else expm_mp.to_np(x) for x in out)


def tustin_k(h, prewarp):
    if prewarp is None or prewarp == 0:
        return 2.0 / h
    return prewarp / math.tan(prewarp * h / 2.0)


def tf_c(A, B, C, D, s):
    """H(s) = C (sI - A)^-1 B + D for an array of complex s -> (len(s), p, m)."""
    import numpy as np
    n = A.shape[0]
    out = np.empty((len(s), C.shape[0], B.shape[1]), complex)
    for k, sk in enumerate(s):
        out[k] = C @ np.linalg.solve(sk * np.eye(n) - A, B.astype(complex)) + D
    return out


def d2c_ref(Z, h, method):
    """Independent continuous model from a discrete one: A = logm(Az)/h (Schur based),
    B, D from the documented inverse formulas.  Returns (A, B, C, D)."""
    import numpy as np
    from scipy.linalg import logm
    Az, Bz, Cz, Dz = Z
    n = Az.shape[0]
    A = logm(Az)
    A = np.real(A) / h
    return (A,) + d2c_bd(A, Z, h, method)


def d2c_bd(A, Z, h, method):
    import numpy as np
    Az, Bz, Cz, Dz = Z
    n = Az.shape[0]
    if method == "zoh":
        return np.linalg.solve(Az - np.eye(n), A @ Bz), Cz, Dz
    E, I1, I2 = _vl_float(A, h)
    if method == "zoha":
        P = I1 / 2
        Q = P
    else:
        Q = I1 - I2 / h
        P = I1 - Q
    B = np.linalg.solve(P + Az @ Q, Bz)
    return B, Cz, Dz - Cz @ (Q @ B)


def _spread(f, nominal, args_pert):
    """max-abs spread per output of f over perturbed argument sets."""
    import numpy as np
    sig = [0.0] * len(nominal)
    for a in args_pert:
        out = f(*a)
        for j, (x, y) in enumerate(zip(out, nominal)):
            if x is None or y is None:
                continue
            d = np.abs(np.asarray(x) - np.asarray(y))
            sig[j] = max(sig[j], float(d.max()) if d.size else 0.0)
    return sig


def _tol(sig, want):
    import numpy as np
    sc = float(np.max(np.abs(want))) if np.size(want) else 0.0
    return 200.0 * (sig / 1e-13) * EPS + 1e-13 * sc


def _run_ss(sh, params):
    import numpy as np
    from pyyeti import ssmodel
    from vf.oracles import expm_mp, lti
    slice_, nslice = params["slice"], params["nslice"]
    nsys = (60 if sh.tier == "quick" else 400)
    for i in range(nsys):
        r = core.rng(sh.seed, "C07", "ss", slice_, i)
        try:
            S = make_system(r)
        except RuntimeError:
            sh.refused += 1
            continue
        A, B, C, D, h = S["A"], S["B"], S["C"], S["D"], S["h"]
        n = A.shape[0]
        base = {"part": "ss", "slice": slice_, "i": i, "n": n, "nin": B.shape[1],
                "nout": C.shape[0], "kind": S["kind"], "theta": S["theta"],
                "condV": S["condV"], "h": h,
                "regen": "vf.props.c07.make_system(core.rng(seed,'C07','ss',slice,i))"}
        if n <= 3:
            base.update(A=A.tolist(), B=B.tolist(), C=C.tolist(), D=D.tolist())
        tags0 = {"part": "ss", "kind": S["kind"], "n": n, "condV": S["condV"],
                 "theta": S["theta"], "norm1": float(h * np.linalg.norm(A, 1))}
        sh.count("sskind:" + S["kind"])
        sh.count("ssnorm:" + ("above" if tags0["norm1"] > THETA9 else "below") + "-switch")
        # ---- oracle: E, I1, I2 in mp, nominal + 3 norm-wise perturbed copies ------------
        ref = Ref(A, h, r)
        pert = []
        for Ak, hk, mpk in ref.pert:
            pert.append((dict(A=Ak, B=_perturb(B, r), C=_perturb(C, r),
                              D=_perturb(D, r)), hk, mpk))
        cont = SSm = ssmodel.SSModel(A, B, C, D)
        # trivial identities
        sh.check_equal("d2c-of-continuous-is-self", cont.d2c() is cont, True, base, tags0)

        w0 = float(np.exp(r.uniform(np.log(0.05), np.log(0.9))) * math.pi / h)
        for method in METHODS:
            prewarps = [0] if method != "tustin" else [0, None, w0]
            for prewarp in prewarps:
                case = dict(base, method=method, prewarp=prewarp)
                tags = dict(tags0, method=method, prewarp=bool(prewarp))
                sh.case([slice_, i, method, prewarp], nontrivial=bool(B.any() and C.any()),
                        sample=case)
                sh.count(f"method:{method}" + (":prewarp" if prewarp else ""))
                try:
                    with warnings.catch_warnings():
                        warnings.simplefilter("ignore")
                        if method == "tustin":
                            Zp = cont.c2d(h, method, prewarp)
                        else:
                            Zp = cont.c2d(h, method)
                except Exception as e:
                    sh.violation("exception:c2d", case, {"exc": repr(e)[:300]},
                                 dict(tags, exc_type=type(e).__name__))
                    continue
                sh.check_equal("c2d:attrs", [Zp.h, Zp.method], [h, method], case, tags)
                sh.check_equal("c2d-of-discrete-is-self", Zp.c2d(h) is Zp, True, case, tags)
                Zt = (Zp.A, Zp.B, Zp.C, Zp.D)
                if method == "tustin":
                    _tustin_checks(sh, S, h, prewarp, Zp, r, case, tags, ssmodel)
                    continue
                # ---- c2d one-way versus mp ---------------------------------------------
                want = c2d_ref_mp(S, h, method, ref.mp0)
                sig = [0.0] * 4
                for Sk, hk, mpk in pert:
                    wk = c2d_ref_mp(Sk, hk, method, mpk)
                    for j in range(4):
                        sig[j] = max(sig[j], float(np.max(np.abs(wk[j] - want[j]))))
                tolc = [_tol(sig[j], want[j]) for j in range(4)]
                for j, nm in enumerate("ABCD"):
                    sh.check_close(f"c2d:{method}:{nm}", Zt[j], want[j], tolc[j], case,
                                   tags)
                # ---- sampled outputs ----------------------------------------------------
                _sampled_output(sh, S, h, method, Zt, want[4], pert, r, case, tags, lti)
                # ---- d2c one-way (input: pyYeti's own discrete model) + round trip ------
                _d2c_checks(sh, S, h, method, Zp, Zt, tolc, r, case, tags, i)
        _conversion_history(sh, ssmodel, S, cont, r, base, tags0)


def _conversion_history(sh, ssmodel, S, cont, r, base, tags0):
    """Several conversions on ONE model object (repeats, every order of methods, the
    same and another step): each result must equal, bit for bit, the conversion of a
    fresh object, and no result handed out earlier -- nor the continuous model -- may
    change afterwards (hidden state shared between calls would show up only here)."""
    import numpy as np
    A, B, C, D, h = S["A"], S["B"], S["C"], S["D"], S["h"]
    snap0 = [np.array(x, copy=True) for x in (cont.A, cont.B, cont.C, cont.D)]
    seq = [METHODS[int(k)] for k in r.integers(0, len(METHODS), int(r.integers(3, 7)))]
    if r.random() < 0.5:
        seq = ["zoha"] + seq            # the one method that scales an integral in place
    held = []
    for step, method in enumerate(seq):
        hh = h if r.random() < 0.8 else h / 2
        case = dict(base, history=seq, step=step, method=method, hh=hh)
        tags = dict(tags0, method=method, history=True)
        try:
            with warnings.catch_warnings():
                warnings.simplefilter("ignore")
                Z1 = cont.c2d(hh, method)
                Z2 = ssmodel.SSModel(A.copy(), B.copy(), C.copy(), D.copy()).c2d(hh, method)
        except Exception as e:
            sh.violation("exception:c2d", case, {"exc": repr(e)[:300]},
                         dict(tags, exc_type=type(e).__name__))
            return
        got = [np.asarray(x) for x in (Z1.A, Z1.B, Z1.C, Z1.D)]
        want = [np.asarray(x) for x in (Z2.A, Z2.B, Z2.C, Z2.D)]
        sh.count("mon:c2d-history-vs-fresh")
        bad = [nm for nm, g, w in zip("ABCD", got, want)
               if g.shape != w.shape or g.tobytes() != w.tobytes()]
        if bad:
            sh.violation("c2d-history-vs-fresh", case,
                         {"matrices": bad,
                          "maxdiff": float(max(np.abs(g - w).max() for g, w in
                                               zip(got, want) if g.shape == w.shape))},
                         tags)
            return
        held.append((case, Z1, [g.copy() for g in got]))
    sh.count("mon:c2d-history-unmutated")
    for case, Z1, copies in held:
        now = [np.asarray(x) for x in (Z1.A, Z1.B, Z1.C, Z1.D)]
        if any(n.tobytes() != c.tobytes() for n, c in zip(now, copies)):
            sh.violation("c2d-history-unmutated", case, {"which": "earlier result"}, tags0)
            return
    now = [np.asarray(x) for x in (cont.A, cont.B, cont.C, cont.D)]
    if any(n.tobytes() != c.tobytes() for n, c in zip(now, snap0)):
        sh.violation("c2d-history-unmutated", base, {"which": "continuous model"}, tags0)
    sh.count("cell:c2d-history:" + ("with-repeat" if len(set(seq)) < len(seq) else "no-repeat"))


def _sampled_output(sh, S, h, method, Zt, shift, pert, r, case, tags, lti):
    import numpy as np
    A, B, C, D = S["A"], S["B"], S["C"], S["D"]
    n, nin = B.shape
    nt = 12
    u = r.standard_normal((nin, nt))
    x0 = r.standard_normal(n)

    def exact(A_, B_, C_, D_, h_, u_, x0_, dps=None):
        if method == "foh":
            x = lti.simulate_first_order(A_, B_, u_, h_, x0=x0_, order=1, dps=dps)
        elif method == "zoh":
            x = lti.simulate_first_order(A_, B_, u_, h_, x0=x0_, order=0, dps=dps)
        else:   # zoha: held value is the mean of the two neighbouring samples
            ubar = np.empty_like(u_)
            ubar[:, :-1] = (u_[:, :-1] + u_[:, 1:]) / 2
            ubar[:, -1] = u_[:, -1]
            x = lti.simulate_first_order(A_, B_, ubar, h_, x0=x0_, order=0, dps=dps)
        return C_ @ x + D_ @ u_

    y = exact(A, B, C, D, h, u, x0)
    sig = 0.0
    for Sk, hk, _ in pert:
        yk = exact(Sk["A"], Sk["B"], Sk["C"], Sk["D"], hk, _perturb(u, r),
                   _perturb(x0, r))
        sig = max(sig, float(np.max(np.abs(yk - y))))
    tol = _tol(sig, y)
    Az, Bz, Cz, Dz = Zt
    xt = x0.copy() if shift is None else x0 - shift @ u[:, 0]
    yd = np.empty_like(y)
    for k in range(nt):
        yd[:, k] = Cz @ xt + Dz @ u[:, k]
        xt = Az @ xt + Bz @ u[:, k]
    last = nt if method != "zoha" else nt - 1     # last zoha sample needs u[nt]
    sh.check_close(f"sampled:{method}", yd[:, :last], y[:, :last], tol, case, tags)
    if case["i"] % 10 == 0:
        ymp = exact(A, B, C, D, h, u, x0, dps=40)
        sh.check_close("oracle-lti-float-vs-mp", y, ymp, tol, case, tags)


def _d2c_checks(sh, S, h, method, Zp, Zt, tolc, r, case, tags, i):
    import numpy as np
    A, B, C, D = S["A"], S["B"], S["C"], S["D"]
    try:
        with warnings.catch_warnings():
            warnings.simplefilter("ignore")
            Sp = Zp.d2c(method)
    except Exception as e:
        sh.violation("exception:d2c", case, {"exc": repr(e)[:300]},
                     dict(tags, exc_type=type(e).__name__))
        return
    sh.check_equal("d2c:attrs", [Sp.h, Sp.method], [None, method], case, tags)
    got = (Sp.A, Sp.B, Sp.C, Sp.D)
    if any(np.iscomplexobj(x) for x in got):
        sh.violation("d2c:complex-output", case, {}, tags)
    try:
        want = d2c_ref(Zt, h, method)
    except Exception:
        sh.refused += 1
        return
    # conditioning of the inverse map: norm-wise 1e-13 perturbations of the discrete model
    Zk = [(_perturb_norm(Zt[0], r), _perturb(Zt[1], r), _perturb(Zt[2], r),
           _perturb(Zt[3], r)) for _ in range(3)]
    sig = _spread(lambda *z: d2c_ref(z, h, method), want, [zk for zk in Zk])
    ev, V = np.linalg.eig(Zt[0])
    condV = float(np.linalg.cond(V))
    tags = dict(tags, condVz=condV)
    scA = float(np.max(np.abs(want[0])))
    # pyYeti documents A = phi diag(log(lam)/h) inv(phi): inherent error eps*cond(phi)
    tolA = _tol(sig[0], want[0]) + 200.0 * EPS * condV * scA
    sh.check_close(f"d2c:{method}:A", got[0], want[0], tolA, case, tags)
    # B and D inherit the (legitimate) error of A: measure that sensitivity on the oracle
    sig2 = [0.0, 0.0, 0.0]
    for _ in range(3):
        Ak = want[0] + tolA * r.uniform(-1, 1, want[0].shape)
        out = d2c_bd(Ak, Zt, h, method)
        for j in range(3):
            sig2[j] = max(sig2[j], float(np.max(np.abs(out[j] - want[j + 1]))))
    tol = [tolA] + [_tol(sig[j + 1], want[j + 1]) + 10.0 * sig2[j] for j in range(3)]
    # D = D_z - C Q B cancels (to zero when the continuous D is zero): scale by the terms
    tol[3] += 1e-13 * float(np.max(np.abs(Zt[3]))) if np.size(Zt[3]) else 0.0
    for j, nm in ((1, "B"), (2, "C"), (3, "D")):
        sh.check_close(f"d2c:{method}:{nm}", got[j], want[j], tol[j], case, tags)
    sh.worst("d2c-tolerance-looseness:A", tolA / (scA or 1.0) / 1e-6)
    # explicit round trip: tolerance = d2c tolerance + amplified admissible c2d error
    orig = (A, B, C, D)
    for j, nm in enumerate("ABCD"):
        rho = max(tolc[k] / (float(np.max(np.abs(Zt[k]))) or 1.0) for k in range(4))
        amp = 10.0 * (rho / 1e-13) * sig[j]
        sh.check_close(f"roundtrip:{method}:{nm}", got[j], orig[j], tol[j] + amp, case,
                       tags)
    if i % 7 == 0:
        # oracle self-consistency: exact discretisation of the reference continuous model
        E, I1, I2 = _vl_float(want[0], h)
        if method == "zoh":
            back = (E, I1 @ want[1], want[2], want[3])
        else:
            back = c2d_formulas(E, I1, I2, h, want[1], want[2], want[3], method)[:4]
        for j in range(4):
            sc = float(np.max(np.abs(Zt[j]))) or 1.0
            sh.check_close("oracle-d2c-consistency", back[j], Zt[j],
                           1e-9 * sc + 100 * tol[j], case, tags)


def _pm(M, r, mag=1e-13):
    """M + norm-wise perturbation (models the backward error of one LU solve with M)."""
    import numpy as np
    n = M.shape[0]
    return M + mag * (np.linalg.norm(M, 1) / n) * r.uniform(-1, 1, M.shape)


def _solve_bs(M, N, r=None):
    """solve(M, N) as a backward-stable solver delivers it: with ``r`` every column of
    the solution belongs to its own 1e-13 norm-wise perturbation of M (LU's backward
    error differs from right-hand side to right-hand side, so the error of the solution
    matrix is unstructured and of size cond(M) * perturbation)."""
    import numpy as np
    if r is None:
        return np.linalg.solve(M, N)
    N = np.asarray(N)
    out = np.empty(N.shape, dtype=np.result_type(M, N, float))
    for j in range(N.shape[1]):
        out[:, j] = np.linalg.solve(_pm(M, r), N[:, j])
    return out


def tustin_c2d_ref(A, B, C, D, k, r=None):
    """Documented bilinear c2d (optionally under the backward-error model of _solve_bs
    for the solves with kI - A, and relative 1e-13 perturbations of B, C, D)."""
    import numpy as np
    n = A.shape[0]
    M = k * np.eye(n) - A
    if r is not None:
        B, C, D = _perturb(B, r), _perturb(C, r), _perturb(D, r)
    Az = _solve_bs(M, k * np.eye(n) + A, r)
    QB = _solve_bs(M, B, r)
    return Az, (np.eye(n) + Az) @ QB, C, C @ QB + D


def tustin_d2c_ref(Z, k, r=None):
    """Documented bilinear d2c; perturbation model as in tustin_c2d_ref."""
    import numpy as np
    Az, Bz, Cz, Dz = Z
    n = Az.shape[0]
    M = np.eye(n) + Az
    if r is not None:
        Bz, Cz, Dz = _perturb(Bz, r), _perturb(Cz, r), _perturb(Dz, r)
    A = k * _solve_bs(M.T, (Az - np.eye(n)).T, r).T
    QB = _solve_bs(M, Bz, r)
    return A, (k * np.eye(n) - A) @ QB, Cz, Dz - Cz @ QB


def _tf_scale(A, B, C, D, s):
    """size of the terms added in C (sI-A)^-1 B + D, per frequency"""
    import numpy as np
    n = A.shape[0]
    out = np.empty(len(s))
    for k, sk in enumerate(s):
        X = np.linalg.solve(sk * np.eye(n) - A, B.astype(complex))
        out[k] = float((np.abs(C) @ np.abs(X) + np.abs(D)).max())
    return out


def _tustin_checks(sh, S, h, prewarp, Zp, r, case, tags, ssmodel):
    import numpy as np
    A, B, C, D = S["A"], S["B"], S["C"], S["D"]
    n = A.shape[0]
    k = tustin_k(h, prewarp)
    th = r.uniform(0, 2 * math.pi, 50)
    z = np.exp(1j * th)
    s = k * (z - 1) / (z + 1)
    Hc = tf_c(A, B, C, D, s)
    # conditioning (a): of H_c itself; (b): of the transfer function of the documented
    # discrete realisation under backward errors of its two linear solves
    # (c): of the map "realisation -> transfer function" at the oracle's own discrete
    # realisation under an unstructured 1e-13 perturbation.  (c) governs the harness's
    # float evaluation of H_d from pyYeti's matrices and the effect of the (benign,
    # few-eps) rounding errors in them; it enters with 20x instead of 200x because an
    # unstructured perturbation is far more harmful than those errors (measured: a
    # non-normal, lightly damped 2x2 case with cond(A) = 1e5 shows float-vs-float
    # errors 1e3 below the unstructured spread but 3x above the structured ones)
    Zo = tustin_c2d_ref(A, B, C, D, k)
    Ho = tf_c(*Zo, z)
    sig = np.zeros(len(z))
    sigu = np.zeros(len(z))
    for _ in range(3):
        Hk = tf_c(_perturb_norm(A, r), _perturb(B, r), _perturb(C, r), _perturb(D, r), s)
        sig = np.maximum(sig, np.abs(Hk - Hc).max(axis=(1, 2)))
        Hk = tf_c(*tustin_c2d_ref(A, B, C, D, k, r), z)
        sig = np.maximum(sig, np.abs(Hk - Hc).max(axis=(1, 2)))
        Hk = tf_c(_pm(Zo[0], r), _perturb(Zo[1], r), _perturb(Zo[2], r),
                  _perturb(Zo[3], r), z)
        sigu = np.maximum(sigu, np.abs(Hk - Ho).max(axis=(1, 2)))
    # error scale = size of the terms added, in the continuous form and in the (oracle's
    # own) discrete realisation, whose D_z and C_z (zI - A_z)^-1 B_z cancel for |s| large
    scale = np.maximum(_tf_scale(A, B, C, D, s), _tf_scale(*Zo, z))
    tol = ((200.0 * sig + 20.0 * sigu) / 1e-13 * EPS + 1e-13 * scale)[:, None, None]
    Hd = tf_c(Zp.A, Zp.B, Zp.C, Zp.D, z)
    sh.check_close("tustin:c2d-bilinear-identity", Hd, Hc, np.broadcast_to(tol, Hc.shape),
                   case, tags)
    sh.check_equal("c2d:tustin:prewarp-attr", Zp.prewarp, prewarp, case, tags)
    # oracle-vs-oracle: the independent realisation obeys the identity as well
    sh.check_close("oracle-tustin-identity", tf_c(*Zo, z), Hc,
                   np.broadcast_to(tol, Hc.shape), case, tags)
    # ---- d2c of pyYeti's discrete model ------------------------------------------------
    try:
        Sp = Zp.d2c("tustin", prewarp)
    except Exception as e:
        sh.violation("exception:d2c", case, {"exc": repr(e)[:300]},
                     dict(tags, exc_type=type(e).__name__))
        return
    sh.check_equal("d2c:attrs", [Sp.h, Sp.method], [None, "tustin"], case, tags)
    Zt = (Zp.A, Zp.B, Zp.C, Zp.D)
    want = tustin_d2c_ref(Zt, k)
    sigd = np.zeros(len(z))
    sg = [0.0] * 4
    for _ in range(3):
        Zk = (_perturb_norm(Zt[0], r), _perturb(Zt[1], r), _perturb(Zt[2], r),
              _perturb(Zt[3], r))
        sigd = np.maximum(sigd, np.abs(tf_c(*Zk, z) - Hd).max(axis=(1, 2)))
        for Wk in (tustin_d2c_ref(Zt, k, r), tustin_d2c_ref(Zk, k)):
            sigd = np.maximum(sigd, np.abs(tf_c(*Wk, s) - Hd).max(axis=(1, 2)))
            for j in range(4):
                sg[j] = max(sg[j], float(np.max(np.abs(Wk[j] - want[j]))))
    Hw = tf_c(*want, s)
    sigw = np.zeros(len(z))
    for _ in range(3):
        Hk = tf_c(_pm(want[0], r), _perturb(want[1], r), _perturb(want[2], r),
                  _perturb(want[3], r), s)
        sigw = np.maximum(sigw, np.abs(Hk - Hw).max(axis=(1, 2)))
    scaled = np.maximum(np.maximum(scale, _tf_scale(*want, s)), _tf_scale(*Zt, z))
    told = ((200.0 * sigd + 20.0 * sigw) / 1e-13 * EPS + 1e-13 * scaled)[:, None, None]
    Hc2 = tf_c(Sp.A, Sp.B, Sp.C, Sp.D, s)
    sh.check_close("tustin:d2c-bilinear-identity", Hc2, Hd,
                   np.broadcast_to(told, Hc.shape), case, tags)
    got = (Sp.A, Sp.B, Sp.C, Sp.D)
    orig = (A, B, C, D)
    # admissible relative error of the c2d stage: backward error of its solves
    rho = 200.0 * EPS * float(np.linalg.cond(k * np.eye(n) - A)) + 1e-13
    for j, nm in enumerate("ABCD"):
        t = _tol(sg[j], want[j])
        if j == 3:      # D = D_z - C_z Q B_z cancels: scale by the subtracted terms
            t += 1e-13 * float(np.max(np.abs(Zt[3])))
        sh.check_close(f"d2c:tustin:{nm}", got[j], want[j], t, case, tags)
        sh.check_close(f"roundtrip:tustin:{nm}", got[j], orig[j],
                       t + 10.0 * (rho / 1e-13) * sg[j] + _tol(0.0, orig[j]), case, tags)
    # ---- d2c with ANOTHER prewarp than the one the discrete model was made with: the
    # documented formula takes k from the argument, not from the stored attribute
    if prewarp:
        other = [0, None][int(r.integers(0, 2))]
    else:
        other = float(np.exp(r.uniform(np.log(0.05), np.log(0.9))) * math.pi / h)
    k2 = tustin_k(h, other)
    case2 = dict(case, d2c_prewarp=other)
    try:
        Sq = Zp.d2c("tustin", other)
    except Exception as e:
        sh.violation("exception:d2c", case2, {"exc": repr(e)[:300]},
                     dict(tags, exc_type=type(e).__name__))
        return
    want2 = tustin_d2c_ref(Zt, k2)
    sg2 = [0.0] * 4
    for _ in range(3):
        Zk = (_perturb_norm(Zt[0], r), _perturb(Zt[1], r), _perturb(Zt[2], r),
              _perturb(Zt[3], r))
        for Wk in (tustin_d2c_ref(Zt, k2, r), tustin_d2c_ref(Zk, k2)):
            for j in range(4):
                sg2[j] = max(sg2[j], float(np.max(np.abs(Wk[j] - want2[j]))))
    got2 = (Sq.A, Sq.B, Sq.C, Sq.D)
    sh.count("cell:d2c-other-prewarp:" + ("to-plain" if prewarp else "to-prewarped"))
    for j, nm in enumerate("ABCD"):
        t = _tol(sg2[j], want2[j])
        if j == 3:
            t += 1e-13 * float(np.max(np.abs(Zt[3])))
        sh.check_close(f"d2c:tustin-other-prewarp:{nm}", got2[j], want2[j], t, case2, tags)


# =====================================================================================
# verdict helpers
# =====================================================================================

MANDATORY_MONITORS = (
    ["oracle-selfcheck", "oracle-precision", "oracle-onestep", "exception-free",
     "expmint:E", "expmint:I1", "expmint-geti2:I2", "dispatch",
     "agree:getEPQ==dispatched-route", "agree:getEPQ1~getEPQ2:P",
     "agree:getEPQ1~getEPQ2:Q", "agree:getEPQ_pow~getEPQ1:P"]
    + [f"{rt}:{q}" for rt in ("getEPQ1", "getEPQ2", "getEPQ", "getEPQ_pow")
       for q in ("E", "P", "Q", "Q-order0")]
    + [f"onestep:{rt}" for rt in ("getEPQ1", "getEPQ2", "getEPQ", "getEPQ_pow")]
    + [f"c2d:{m}:{x}" for m in ("zoh", "zoha", "foh") for x in "ABCD"]
    + [f"d2c:{m}:{x}" for m in METHODS for x in "ABCD"]
    + [f"roundtrip:{m}:{x}" for m in METHODS for x in "ABCD"]
    + [f"sampled:{m}" for m in ("zoh", "zoha", "foh")]
    + ["tustin:c2d-bilinear-identity", "tustin:d2c-bilinear-identity",
       "oracle-lti-float-vs-mp", "oracle-d2c-consistency", "oracle-tustin-identity"])


def finalize(agg, tier):
    why = []
    c = agg["counters"]
    for k in MANDATORY_MONITORS:
        if not c.get("mon:" + k):
            why.append(f"monitor {k} never evaluated")
    hit = [b for b in BRANCHES if c.get("branch:" + b)]
    need = 8 if tier == "quick" else len(BRANCHES)
    if len(hit) < need:
        why.append(f"only {len(hit)} of {len(BRANCHES)} expmint/getEPQ branches reached "
                   f"(need {need}); missing {sorted(set(BRANCHES) - set(hit))}")
    sshit = [b for b in SS_BRANCHES if c.get("branch:" + b)]
    need = 4 if tier == "quick" else len(SS_BRANCHES)
    if len(sshit) < need:
        why.append(f"only {len(sshit)} of {len(SS_BRANCHES)} _expm_SS branches reached; "
                   f"missing {sorted(set(SS_BRANCHES) - set(sshit))}")
    for fam in FAMILIES:
        if not c.get("family:" + fam):
            why.append(f"matrix family {fam} never generated")
    for m in ("zoh", "zoha", "foh", "tustin", "tustin:prewarp"):
        if not c.get("method:" + m):
            why.append(f"discretisation method {m} never executed")
    for m in ("c2d-history-vs-fresh", "c2d-history-unmutated"):
        if not c.get("mon:" + m):
            why.append(f"monitor {m} never evaluated")
    if not c.get("cell:c2d-history:with-repeat"):
        why.append("no conversion history with a repeated method")
    for side in ("above", "below"):
        if not c.get(f"ssnorm:{side}-switch"):
            why.append(f"no c2d system {side} the getEPQ norm switch")
    total = agg["evaluations"]
    if agg["refused"] > 0.1 * max(total, 1):
        why.append(f"oracle refused {agg['refused']} of {total} cases")
    return why


def evidence_extra(agg, tier):
    c = agg["counters"]
    return {
        "branches_reached": {b: c.get("branch:" + b, 0) for b in BRANCHES + SS_BRANCHES},
        "geti2_pade_orders": {k[7:]: v for k, v in c.items()
                              if k.startswith("branch:geti2:pade") and k[-1].isdigit()},
        "squaring_counts": {k[10:]: v for k, v in sorted(c.items())
                            if k.startswith("squarings:")},
        "norm_cells": {k[9:]: v for k, v in sorted(c.items())
                       if k.startswith("normcell:")},
    }
